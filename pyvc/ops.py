"""Primitive operations on symbolic values (sequence algebra, arithmetic, truthiness)."""
import z3
from .values import *


def fresh(desc, base="v", run=None):
    """Fresh symbolic value of the described type.  Type invariants (len >= 0, byte range for
    scalar 'byte') are assumed on the run's path condition."""
    if desc == "int":
        return z3.Int(fresh_name(base))
    if desc == "nat":
        v = z3.Int(fresh_name(base))
        if run:
            run.assume(v >= 0)
        return v
    if desc == "byte":
        v = z3.Int(fresh_name(base))
        if run:
            run.assume(z3.And(v >= 0, v <= 255))
        return v
    if desc == "bool":
        return z3.Bool(fresh_name(base))
    if desc == "str":
        return z3.String(fresh_name(base))
    if desc == "real":
        return z3.Real(fresh_name(base))
    if desc == "none":
        return None
    if isinstance(desc, tuple):
        tag = desc[0]
        if tag in ("list", "bytes", "tuplelist"):
            elem = desc[1] if len(desc) > 1 else "int"
            n = z3.Int(fresh_name(base + ".len"))
            if run:
                run.assume(n >= 0)
            arr = fresh_arr(elem, base)
            kind = "bytes" if tag == "bytes" else "list"
            return ListV(None, n, arr, elem, kind)
        if tag == "rec":
            return RecV(desc[1], {f: fresh(d, f"{base}.{f}", run) for f, d in desc[2].items()}, desc)
        if tag == "drop":
            return Opaque(("dropped", base))
        if tag == "dict_empty":
            return DictV({})
        if tag == "cdict":
            return DictV({k: fresh(d, f"{base}[{k!r}]", run) for k, d in desc[1].items()})
        if tag == "clist":
            return ListV([fresh(x, f"{base}[{i}]", run) for i, x in enumerate(desc[1])])
        if tag == "nd":
            if len(desc) > 2:
                n = desc[2]
            else:
                n = z3.Int(fresh_name(base + ".len"))
                if run:
                    run.assume(n >= 0)
            arr = z3.Array(fresh_name(base + ".data"), z3.IntSort(), z3.IntSort())
            return NdV((n,), lambda idx, arr=arr: z3.Select(arr, zint(idx[0])), desc[1] if len(desc) > 1 else None)
        if tag == "obj":
            o = Obj(None, {f: fresh(d, f"{base}.{f}", run) for f, d in desc[2].items()}, abstract=desc[1])
            return o
        if tag == "opt":
            return OptV(z3.Bool(fresh_name(base + ".isnone")), fresh(desc[1], base, run))
        if tag == "tuple":
            return tuple(fresh(d, f"{base}.{i}", run) for i, d in enumerate(desc[1]))
        if tag == "const":
            return desc[1]
    raise Unsupported(f"fresh: unknown desc {desc!r}")


def _is(d, tag):
    return isinstance(d, tuple) and d[0] == tag


def _arr2(name, sort):
    return z3.Array(fresh_name(name), z3.IntSort(), z3.ArraySort(z3.IntSort(), sort))


def fresh_rec_arrays(fields, base, prefix=""):
    """Struct-of-arrays for a list of records; nested records are flattened ("a.b"), Optional fields get a
    presence array ("f?"), list-valued fields become arrays of arrays with a length array ("f#len")."""
    out = {}
    for f, d in fields.items():
        key = prefix + f
        if _is(d, "drop") or _is(d, "const"):
            continue
        if _is(d, "opt"):
            out[key + "?"] = z3.Array(fresh_name(f"{base}.{key}?"), z3.IntSort(), z3.BoolSort())
            out[key] = z3.Array(fresh_name(f"{base}.{key}"), z3.IntSort(), sort_of(d[1]))
        elif _is(d, "list"):
            out[key + "#len"] = z3.Array(fresh_name(f"{base}.{key}#len"), z3.IntSort(), z3.IntSort())
            if _is(d[1], "rec"):
                for f2, d2 in d[1][2].items():
                    if _is(d2, "drop") or _is(d2, "const"):
                        continue
                    out[f"{key}[].{f2}"] = _arr2(f"{base}.{key}[].{f2}", sort_of(d2))
            else:
                out[key] = _arr2(f"{base}.{key}", sort_of(d[1]))
        elif _is(d, "rec"):
            out.update(fresh_rec_arrays(d[2], base, key + "."))
        else:
            out[key] = z3.Array(fresh_name(f"{base}.{key}"), z3.IntSort(), sort_of(d))
    return out


def fresh_arr(elem, base):
    if _is(elem, "rec"):
        return fresh_rec_arrays(elem[2], base)
    return z3.Array(fresh_name(base + ".arr"), z3.IntSort(), sort_of(elem))


def const_rec_arrays(rec, elem):
    """Arrays of a list whose every cell holds the same record value ([x] * n)."""
    base = fresh_rec_arrays(elem[2], "rep")
    return rec_store_all(base, rec, elem[2], "")


def rec_store_all(arr, rec, fields, prefix):
    out = dict(arr)
    for f, d in fields.items():
        key = prefix + f
        if _is(d, "drop") or _is(d, "const"):
            continue
        v = rec.fields.get(f)
        if _is(d, "rec"):
            out = rec_store_all(out, v, d[2], key + ".")
        elif _is(d, "opt") or _is(d, "list"):
            raise Unsupported("repeat of records with optional/list fields")
        else:
            out[key] = z3.K(z3.IntSort(), zval(v))
    return out


def desc_of(v):
    if isinstance(v, bool) or (is_z3(v) and z3.is_bool(v)):
        return "bool"
    if isinstance(v, int) or (is_z3(v) and z3.is_int(v)):
        return "int"
    if is_strv(v):
        return "str"
    if is_real(v):
        return "real"
    if v is None:
        return "none"
    if isinstance(v, ListV):
        if v.elem is not None:
            return ("list", v.elem)
        if v.items:
            return ("list", desc_of(v.items[0]))
        return ("list", "int")
    if isinstance(v, RecV):
        if v.desc is not None:
            return v.desc
        return ("rec", v.cls, {f: desc_of(x) for f, x in v.fields.items()})
    if isinstance(v, OptV):
        return ("opt", desc_of(v.val))
    if isinstance(v, tuple):
        return ("tuple", [desc_of(x) for x in v])
    raise Unsupported(f"desc_of {v!r}")


# ---------------------------------------------------------------- lists

def list_len(l):
    if l.items is not None:
        return len(l.items)
    return l.length


def to_symbolic(l, elem=None):
    """Convert a concrete list into array form (needed before havoc / symbolic indexing)."""
    if l.items is None:
        return l
    elem = elem or l.elem or (desc_of(l.items[0]) if l.items else "int")
    if isinstance(elem, tuple) and elem[0] == "rec":
        arr = fresh_arr(elem, "lit")
        for i, it in enumerate(l.items):
            arr = rec_store(arr, z3.IntVal(i), it, elem)
    else:
        arr = z3.K(z3.IntSort(), zval(_default(elem)))
        for i, it in enumerate(l.items):
            arr = z3.Store(arr, i, zval(it))
    n = len(l.items)
    l.items = None
    l.length, l.arr, l.elem = n, arr, elem
    return l


def _default(elem):
    return {"int": 0, "byte": 0, "bool": False, "str": "", "real": 0.0}.get(elem, 0)


def rec_store(arr, i, rec, elem, prefix=""):
    out = dict(arr)
    fields = elem[2] if prefix == "" or isinstance(elem, tuple) else elem
    for f, d in fields.items():
        key = prefix + f
        if _is(d, "drop") or _is(d, "const"):
            continue
        v = rec.fields.get(f) if isinstance(rec, RecV) else (rec.fields.get(f) if isinstance(rec, Obj) else None)
        if _is(d, "opt"):
            if isinstance(v, OptV):
                out[key + "?"] = z3.Store(out[key + "?"], i, zbool(v.isnone))
                out[key] = z3.Store(out[key], i, zval(v.val))
            elif v is None:
                out[key + "?"] = z3.Store(out[key + "?"], i, z3.BoolVal(True))
            else:
                out[key + "?"] = z3.Store(out[key + "?"], i, z3.BoolVal(False))
                out[key] = z3.Store(out[key], i, zval(v))
        elif _is(d, "list"):
            lv = to_symbolic(v.copy(), d[1]) if v.items is not None else v
            out[key + "#len"] = z3.Store(out[key + "#len"], i, zint(lv.length))
            if _is(d[1], "rec"):
                for f2, d2 in d[1][2].items():
                    if _is(d2, "drop") or _is(d2, "const"):
                        continue
                    out[f"{key}[].{f2}"] = z3.Store(out[f"{key}[].{f2}"], i, lv.arr[f2])
            else:
                out[key] = z3.Store(out[key], i, lv.arr)
        elif _is(d, "rec"):
            if not isinstance(v, (RecV, Obj)):
                raise Unsupported(f"field {key}: expected a record value")
            out = rec_store(out, i, v, d, key + ".")
        else:
            out[key] = z3.Store(out[key], i, zval(v))
    return out


def rec_select(arr, i, elem, prefix=""):
    fields = {}
    for f, d in elem[2].items():
        key = prefix + f
        if _is(d, "drop"):
            fields[f] = Opaque(("dropped", key))
        elif _is(d, "const"):
            fields[f] = d[1]
        elif _is(d, "opt"):
            fields[f] = OptV(z3.Select(arr[key + "?"], i), z3.Select(arr[key], i))
        elif _is(d, "list"):
            if _is(d[1], "rec"):
                sub = {f2: z3.Select(arr[f"{key}[].{f2}"], i) for f2, d2 in d[1][2].items()
                       if not (_is(d2, "drop") or _is(d2, "const"))}
                fields[f] = ListV(None, z3.Select(arr[key + "#len"], i), sub, d[1])
            else:
                fields[f] = ListV(None, z3.Select(arr[key + "#len"], i), z3.Select(arr[key], i), d[1])
        elif _is(d, "rec"):
            fields[f] = rec_select(arr, i, d, key + ".")
        else:
            fields[f] = z3.Select(arr[key], i)
    return RecV(elem[1], fields, elem)


def list_get(l, i):
    """Element at a *valid non-negative* index (no bounds logic here)."""
    if l.items is not None:
        if isinstance(i, int):
            return l.items[i]
        # symbolic index into a concrete list: ITE chain over scalar items
        if not l.items:
            c = to_symbolic(l.copy())
            return list_get(c, i)
        if all(isinstance(x, (int, bool, str)) or is_z3(x) for x in l.items):
            res = zval(l.items[-1])
            for k in range(len(l.items) - 2, -1, -1):
                res = z3.If(i == k, zval(l.items[k]), res)
            return res
        to_symbolic(l)
    if isinstance(l.elem, tuple) and l.elem[0] == "rec":
        return rec_select(l.arr, zint(i), l.elem)
    return z3.Select(l.arr, zint(i))


def list_set(l, i, v):
    if l.items is not None:
        if isinstance(i, int):
            l.items[i] = v
            return
        to_symbolic(l)
    if l.elem == "opaque":
        return          # contents not tracked (only the length is)
    if isinstance(l.elem, tuple) and l.elem[0] == "rec":
        if not isinstance(v, RecV):
            raise Unsupported("storing non-record into record list")
        l.arr = rec_store(l.arr, zint(i), v, l.elem)
    else:
        l.arr = z3.Store(l.arr, zint(i), zval(v))


def list_append(l, v):
    if l.items is not None:
        l.items.append(v)
        return
    n = l.length
    list_set(l, n, v)
    l.length = n + 1


def list_concat(a, b):
    if a.items is not None and b.items is not None:
        return ListV(a.items + b.items, elem=a.elem or b.elem, kind=a.kind)
    a2 = to_symbolic(a.copy(), a.elem or b.elem)
    b2 = to_symbolic(b.copy(), a2.elem)
    la, lb = zint(a2.length), zint(b2.length)
    j = z3.Int(fresh_name("j"))
    if isinstance(a2.arr, dict):
        arr = {f: z3.Lambda([j], z3.If(j < la, a2.arr[f][j], b2.arr[f][j - la])) for f in a2.arr}
    else:
        arr = z3.Lambda([j], z3.If(j < la, a2.arr[j], b2.arr[j - la]))
    n = a2.length + b2.length
    if is_z3(n):
        n = z3.simplify(n)
    return ListV(None, n, arr, a2.elem, a.kind)


def list_slice(l, lo, hi):
    """l[lo:hi] with 0 <= lo <= hi <= len already established by the caller."""
    if l.items is not None and isinstance(lo, int) and isinstance(hi, int):
        return ListV(l.items[lo:hi], elem=l.elem, kind=l.kind)
    l2 = to_symbolic(l.copy())
    j = z3.Int(fresh_name("j"))
    lo = zint(lo)
    if isinstance(l2.arr, dict):
        arr = {f: z3.Lambda([j], l2.arr[f][j + lo]) for f in l2.arr}
    else:
        arr = z3.Lambda([j], l2.arr[j + lo])
    n = zint(hi) - lo
    return ListV(None, z3.simplify(n), arr, l2.elem, l.kind)


def list_repeat(l, n):
    """[x] * n"""
    if l.items is not None and isinstance(n, int):
        return ListV(l.items * n, elem=l.elem, kind=l.kind)
    if l.items is not None and len(l.items) == 1:
        x = l.items[0]
        if isinstance(x, RecV):
            elem = desc_of(x)
            arr = const_rec_arrays(x, elem)
            return ListV(None, z3.If(zint(n) >= 0, zint(n), 0) if is_z3(n) else max(n, 0), arr, elem, l.kind)
        elem = desc_of(x)
        ln = z3.If(zint(n) >= 0, zint(n), 0) if is_z3(n) else max(n, 0)
        return ListV(None, ln, z3.K(z3.IntSort(), zval(x)), elem, l.kind)
    raise Unsupported("list repeat of non-singleton")


def list_eq(a, b):
    if a.items is not None and b.items is not None:
        if len(a.items) != len(b.items):
            return False
        conds = [val_eq(x, y) for x, y in zip(a.items, b.items)]
        if all(isinstance(c, bool) for c in conds):
            return all(conds)
        return z3.And([zbool(c) for c in conds])
    a2, b2 = to_symbolic(a.copy()), to_symbolic(b.copy(), a.elem)
    j = z3.Int(fresh_name("j"))
    if isinstance(a2.arr, dict):
        body = z3.And([a2.arr[f][j] == b2.arr[f][j] for f in a2.arr])
    else:
        body = a2.arr[j] == b2.arr[j]
    return z3.And(zint(a2.length) == zint(b2.length),
                  z3.ForAll([j], z3.Implies(z3.And(j >= 0, j < zint(a2.length)), body)))


def val_eq(a, b):
    if isinstance(a, SymKey):
        a = a.term
    if isinstance(b, SymKey):
        b = b.term
    if isinstance(a, OptV) or isinstance(b, OptV):
        if a is None:
            return b.isnone
        if b is None:
            return a.isnone
        if isinstance(a, OptV) and isinstance(b, OptV):
            return z3.Or(z3.And(zbool(a.isnone), zbool(b.isnone)),
                         z3.And(z3.Not(zbool(a.isnone)), z3.Not(zbool(b.isnone)), zbool(val_eq(a.val, b.val))))
        o, x = (a, b) if isinstance(a, OptV) else (b, a)
        return z3.And(z3.Not(zbool(o.isnone)), zbool(val_eq(o.val, x)))
    if a is None or b is None:
        return a is None and b is None
    if isinstance(a, ListV) and isinstance(b, ListV):
        return list_eq(a, b)
    if isinstance(a, tuple) and isinstance(b, tuple):
        if len(a) != len(b):
            return False
        cs = [val_eq(x, y) for x, y in zip(a, b)]
        if all(isinstance(c, bool) for c in cs):
            return all(cs)
        return z3.And([zbool(c) for c in cs])
    if isinstance(a, tuple) and isinstance(b, ListV) or isinstance(a, ListV) and isinstance(b, tuple):
        return False
    if isinstance(a, RecV) and isinstance(b, RecV):
        if a.cls != b.cls:
            return False
        cs = [val_eq(a.fields[f], b.fields[f]) for f in a.fields]
        if all(isinstance(c, bool) for c in cs):
            return all(cs)
        return z3.And([zbool(c) for c in cs])
    if isinstance(a, (Obj, EnumMember, ClassRef, FuncRef)) or isinstance(b, (Obj, EnumMember, ClassRef, FuncRef)):
        if isinstance(a, EnumMember) or isinstance(b, EnumMember):
            return a == b
        return a is b
    if not is_z3(a) and not is_z3(b):
        return a == b
    za, zb = zval(a), zval(b)
    if z3.is_bool(za) and z3.is_int(zb):
        za = zint(za)
    if z3.is_int(za) and z3.is_bool(zb):
        zb = zint(zb)
    if za.sort() != zb.sort():
        if z3.is_real(za) or z3.is_real(zb):
            return z3.ToReal(za) == zb if z3.is_int(za) else za == z3.ToReal(zb)
        return False
    return za == zb


def truth(v):
    if isinstance(v, bool):
        return v
    if v is None:
        return False
    if isinstance(v, (int, float)):
        return v != 0
    if isinstance(v, str):
        return len(v) > 0
    if isinstance(v, OptV):
        t = truth(v.val)
        return z3.And(z3.Not(zbool(v.isnone)), zbool(t))
    if isinstance(v, ListV):
        n = list_len(v)
        return n > 0 if isinstance(n, int) else n > 0
    if isinstance(v, tuple):
        return len(v) > 0
    if isinstance(v, DictV):
        return len(v.d) > 0
    if is_z3(v):
        if z3.is_bool(v):
            return v
        if z3.is_int(v) or z3.is_real(v):
            return v != 0
        if z3.is_string(v):
            return z3.Length(v) > 0
    if isinstance(v, (Obj, RecV, FuncRef, LambdaV, BoundMethod, ClassRef, EnumMember, Opaque, NdV, RegexV, MatchV)):
        return True
    raise Unsupported(f"truth of {v!r}")


def znot(c):
    if isinstance(c, bool):
        return not c
    return z3.Not(c)


def zand(*cs):
    cs = [c for c in cs if c is not True]
    if any(c is False for c in cs):
        return False
    if not cs:
        return True
    return z3.And([zbool(c) for c in cs]) if len(cs) > 1 else cs[0]


def zor(*cs):
    cs = [c for c in cs if c is not False]
    if any(c is True for c in cs):
        return True
    if not cs:
        return False
    return z3.Or([zbool(c) for c in cs]) if len(cs) > 1 else cs[0]


def zimplies(a, b):
    if a is False or b is True:
        return True
    if a is True:
        return b
    return z3.Implies(zbool(a), zbool(b))


def zite(c, a, b):
    if isinstance(c, bool):
        return a if c else b
    if isinstance(a, ListV) or isinstance(b, ListV):
        raise Unsupported("ite over lists")
    if isinstance(a, RecV) and isinstance(b, RecV):
        return RecV(a.cls, {f: zite(c, a.fields[f], b.fields[f]) for f in a.fields})
    za, zb = zval(a), zval(b)
    if z3.is_int(za) and z3.is_real(zb):
        za = z3.ToReal(za)
    if z3.is_real(za) and z3.is_int(zb):
        zb = z3.ToReal(zb)
    return z3.If(c, za, zb)


def zmin(a, b):
    if not is_z3(a) and not is_z3(b):
        return min(a, b)
    return z3.If(zint(a) <= zint(b), zint(a), zint(b))


def zmax(a, b):
    if not is_z3(a) and not is_z3(b):
        return max(a, b)
    return z3.If(zint(a) >= zint(b), zint(a), zint(b))
