"""C16 write-set census: every place in the package that can make state outlive a call.

Syntactic and deliberately over-inclusive.  A site is one of
  self-attr      `self.X = / += / [..] =`  or a mutating method call on `self.X`, outside __init__ / __post_init__ / __new__
  other-attr     an attribute store / mutating call on an attribute of something else than a local that was created in the function
  item-store     `name[...] = value` / `del name[...]` on a parameter or a global (context plumbing writes land here)
  setattr        a setattr(...) call
  global         a `global` statement, or a store to a module-level name from inside a function
  class-mutable  a class-body attribute initialised with a mutable literal / call (shared by all instances)
  default-arg    a mutable default argument
  alias-mutation a mutating method call on a local name that was not bound to a freshly built value in the function
Keys carry no line numbers: "<module>:<qualified function or class>:<kind>:<target text>"."""
import ast
import os

MUTATORS = {"append", "extend", "insert", "add", "update", "clear", "remove", "pop", "popitem", "discard", "sort", "reverse", "setdefault",
            "difference_update", "intersection_update", "symmetric_difference_update", "appendleft", "extendleft", "seek", "write", "truncate"}
CTOR_NAMES = {"__init__", "__post_init__", "__new__"}


def _is_mutable_init(v):
    if isinstance(v, (ast.Dict, ast.List, ast.Set, ast.ListComp, ast.DictComp, ast.SetComp)):
        return True
    if isinstance(v, ast.Call) and isinstance(v.func, ast.Name) and v.func.id in ("dict", "list", "set", "bytearray", "defaultdict", "OrderedDict", "deque"):
        return True
    return False


def _root_name(e):
    while isinstance(e, (ast.Attribute, ast.Subscript)):
        e = e.value
    return e.id if isinstance(e, ast.Name) else None


def scan_module(path, mod):
    tree = ast.parse(open(path, encoding="utf-8").read())
    sites = {}
    module_names = {t.id for n in tree.body if isinstance(n, (ast.Assign, ast.AnnAssign)) for t in (n.targets if isinstance(n, ast.Assign) else [n.target])
                    if isinstance(t, ast.Name)}

    def add(qual, kind, target, line):
        sites.setdefault(f"{mod}:{qual}:{kind}:{target}", []).append(line)

    def fn_scan(fn, qual):
        params = {a.arg for a in fn.args.posonlyargs + fn.args.args + fn.args.kwonlyargs}
        if fn.args.vararg:
            params.add(fn.args.vararg.arg)
        if fn.args.kwarg:
            params.add(fn.args.kwarg.arg)
        for d in list(fn.args.defaults) + [x for x in fn.args.kw_defaults if x is not None]:
            if _is_mutable_init(d):
                add(qual, "default-arg", ast.unparse(d), d.lineno)
        # locals bound to a freshly constructed value in this function (a call, a literal, a comprehension): writes to them are local
        fresh, stale, globals_ = set(), set(), set()
        body_nodes = []
        stack = list(fn.body)
        while stack:          # do not descend into nested defs / classes (they are scanned on their own)
            n = stack.pop()
            body_nodes.append(n)
            for ch in ast.iter_child_nodes(n):
                if not isinstance(ch, (ast.FunctionDef, ast.AsyncFunctionDef, ast.ClassDef)):
                    stack.append(ch)          # lambdas ARE descended into: their body runs with this function's names
        for n in body_nodes:
            if isinstance(n, ast.Global):
                globals_.update(n.names)
                for nm in n.names:
                    add(qual, "global", nm, n.lineno)
            tgt, v = None, None
            if isinstance(n, ast.Assign) and len(n.targets) == 1 and isinstance(n.targets[0], ast.Name):
                tgt, v = n.targets[0].id, n.value
            elif isinstance(n, ast.AnnAssign) and isinstance(n.target, ast.Name) and n.value is not None:
                tgt, v = n.target.id, n.value
            if tgt is not None:
                is_fresh = isinstance(v, (ast.List, ast.Dict, ast.Set, ast.ListComp, ast.DictComp, ast.SetComp, ast.Tuple, ast.JoinedStr, ast.BinOp)) or \
                    (isinstance(v, ast.Call) and not (isinstance(v.func, ast.Attribute) and v.func.attr in ("get", "pop", "setdefault", "copy") and False)) and \
                    not (isinstance(v, ast.Call) and isinstance(v.func, ast.Attribute) and v.func.attr in ("get", "setdefault"))
                if isinstance(v, ast.Constant):
                    continue          # `x = None` placeholders say nothing about what x aliases later
                (fresh if is_fresh else stale).add(tgt)
        fresh -= stale
        is_ctor = fn.name in CTOR_NAMES

        def store(t, line, aug=False):
            if isinstance(t, (ast.Tuple, ast.List)):
                for x in t.elts:
                    store(x, line, aug)
                return
            if isinstance(t, ast.Name):
                if t.id in globals_:
                    add(qual, "global", t.id, line)
                return
            root = _root_name(t)
            text = ast.unparse(t)
            if isinstance(t, ast.Attribute):
                if root == "self":
                    if not is_ctor:
                        add(qual, "self-attr", text, line)
                elif root is not None and root not in fresh:
                    add(qual, "other-attr", text, line)
            elif isinstance(t, ast.Subscript):
                if root == "self":
                    if not is_ctor:
                        add(qual, "self-attr", ast.unparse(t.value) + "[...]", line)
                elif root is not None and root not in fresh and (root in params or root in module_names or isinstance(t.value, ast.Attribute)):
                    add(qual, "item-store", ast.unparse(t.value) + "[...]", line)
        for n in body_nodes:
            if isinstance(n, ast.Assign):
                for t in n.targets:
                    store(t, n.lineno)
            elif isinstance(n, ast.AnnAssign) and n.value is not None:
                store(n.target, n.lineno)
            elif isinstance(n, ast.AugAssign):
                store(n.target, n.lineno, True)
                if isinstance(n.target, ast.Name) and n.target.id in params:
                    # `param += ...` mutates a list argument in place
                    add(qual, "item-store", n.target.id + " (augmented)", n.lineno)
            elif isinstance(n, ast.Delete):
                for t in n.targets:
                    if not isinstance(t, ast.Name):
                        store(t, n.lineno)
            elif isinstance(n, ast.Call):
                f = n.func
                if isinstance(f, ast.Name) and f.id in ("setattr", "delattr"):
                    add(qual, "setattr", ast.unparse(n.args[0]) + "." + (ast.unparse(n.args[1]) if len(n.args) > 1 else "?"), n.lineno)
                if isinstance(f, ast.Attribute) and f.attr in MUTATORS:
                    recv = f.value
                    root = _root_name(recv)
                    text = ast.unparse(recv) + "." + f.attr + "()"
                    if isinstance(recv, ast.Name):
                        if recv.id in params and f.attr not in ("seek", "write", "truncate"):
                            add(qual, "item-store", text, n.lineno)
                        elif recv.id in module_names and recv.id not in fresh:
                            add(qual, "global", text, n.lineno)
                        elif recv.id not in fresh and recv.id not in params and recv.id != "self" and f.attr not in ("seek", "write", "truncate"):
                            # a local that was not created here (an alias of something reachable from outside: `seen = context[..]; seen.add(x)`)
                            add(qual, "alias-mutation", text, n.lineno)
                    elif root == "self":
                        if not is_ctor and f.attr not in ("seek",):
                            add(qual, "self-attr", text, n.lineno)
                    elif root is not None and root not in fresh and f.attr not in ("seek", "write", "truncate"):
                        add(qual, "other-attr", text, n.lineno)

    def visit(node, qual):
        for ch in ast.iter_child_nodes(node):
            if isinstance(ch, ast.ClassDef):
                q = qual + [ch.name]
                for st in ch.body:
                    if isinstance(st, ast.Assign) and _is_mutable_init(st.value):
                        for t in st.targets:
                            add(".".join(q), "class-mutable", ast.unparse(t), st.lineno)
                    if isinstance(st, ast.AnnAssign) and st.value is not None and _is_mutable_init(st.value):
                        add(".".join(q), "class-mutable", ast.unparse(st.target), st.lineno)
                visit(ch, q)
            elif isinstance(ch, (ast.FunctionDef, ast.AsyncFunctionDef)):
                fn_scan(ch, ".".join(qual + [ch.name]))
                visit(ch, qual + [ch.name])
            elif isinstance(ch, (ast.If, ast.Try, ast.With, ast.For, ast.While)):
                visit(ch, qual)
    visit(tree, [])
    return sites


def census(repo):
    out, errors = {}, {}
    pkg = os.path.join(repo, "smpl_extract")
    for d, _dirs, fs in sorted(os.walk(pkg)):
        for fn in sorted(fs):
            if not fn.endswith(".py"):
                continue
            path = os.path.join(d, fn)
            mod = os.path.relpath(path, repo)[:-3].replace(os.sep, ".")
            try:
                out.update(scan_module(path, mod))
            except SyntaxError as e:
                errors[mod] = str(e)
    return out, errors
