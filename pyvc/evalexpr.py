"""Expression evaluation, calls, built-in models."""
import ast
import z3
from .values import *
from . import ops
from .ops import (fresh, list_len, list_get, list_set, list_append, list_concat, list_slice,
                  list_repeat, val_eq, truth, znot, zand, zor, zimplies, zite, zmin, zmax, to_symbolic, desc_of)
from .interp import InterpBase, Frame, parse_expr

SPEC_FUNCS = {"forall", "exists", "implies", "ite", "old", "prev", "defined", "seq_eq", "iff", "let", "count_true",
              "is_none", "opt_val", "strlen", "char_at", "substr", "in_re", "fresh_int", "imin", "imax",
              "to_real", "distinct", "uf_str", "uf_int", "uf_bool", "seq", "lam_seq", "str_of_int", "absv", "present", "iter_pos", "py_strip", "py_lower", "py_upper", "py_rstrip", "py_lstrip", "np_cast", "in_re"}


class EvalMixin(InterpBase):

    # ------------------------------------------------------------ expressions
    def ev(self, node, fr):
        m = getattr(self, "ev_" + type(node).__name__, None)
        if m is None:
            raise Unsupported(f"expression {type(node).__name__} at line {getattr(node, 'lineno', '?')}")
        if hasattr(node, "lineno") and not fr.spec:
            self.cur_line = node.lineno
        return m(node, fr)

    def ev_Constant(self, node, fr):
        v = node.value
        if isinstance(v, bytes):
            return ListV(list(v), elem="int", kind="bytes")
        if v is Ellipsis:
            return None
        return v

    def ev_Name(self, node, fr):
        name = node.id
        ok, v = fr.lookup(name)
        if ok:
            return v
        if name in fr.defs or (self.top and name in self.top.defs):
            return Opaque(("specdef", name))
        try:
            return self.global_lookup(fr.module, name)
        except KeyError:
            pass
        if fr.module.startswith("pyxfn:") and self.index.has_module(fr.module):
            m = self.index.module(fr.module)
            if name in m.functions:
                return FuncRef(m.functions[name])
            if name in ("c_cast_short", "c_cast_int", "c_cast_long", "c_cast_double", "c_cast_float", "cround", "trunc"):
                return Opaque(("builtin", name))
        if fr.module.startswith("pyx:") and self.index.has_module(fr.module):
            m = self.index.module(fr.module)
            if name in m.classes:
                return ClassRef(f"{fr.module}:{name}", info=m.classes[name])
            if name in m.functions:
                return FuncRef(m.functions[name])
        if fr.module.startswith("pyx:") and name == "np":
            return ModuleV("numpy")     # the .pyx file's `import numpy as np` (outside the extracted class)
        if name in ("True", "False", "None"):
            return {"True": True, "False": False, "None": None}[name]
        if fr.spec and name[:1].isupper():
            ci = self._class_by_name(fr, name)      # specifications may name any repo class
            if ci is not None:
                return ClassRef(ci.key, info=ci)
        if name in BUILTINS or name in SPEC_FUNCS:
            return Opaque(("builtin", name))
        if name in self.exc_parents:
            return ClassRef("builtins:" + name, exc_bases=self.exc_parents[name])
        raise UnresolvedName(f"unresolved name {name!r} in {fr.module}")

    def ev_Tuple(self, node, fr):
        return tuple(self.ev(e, fr) for e in node.elts)

    def ev_List(self, node, fr):
        return ListV([self.ev(e, fr) for e in node.elts])

    def ev_Dict(self, node, fr):
        out = DictV({})
        for k, v in zip(node.keys, node.values):
            if k is None:
                raise Unsupported("dict unpacking in a literal")
            self.dict_store(fr, out, self.ev(k, fr), self.ev(v, fr))
        return out

    def ev_Set(self, node, fr):
        out = SetV({})
        for e in node.elts:
            self.dict_store(fr, out, self.ev(e, fr), True)
        return out

    def ev_DictComp(self, node, fr):
        pairs = self.comprehension(node, fr, ast.Tuple(elts=[node.key, node.value], ctx=ast.Load()))
        if pairs.items is None:
            raise Unsupported("dict comprehension over a symbolic-length iterable")
        out = DictV({})
        for (k, v) in pairs.items:
            self.dict_store(fr, out, k, v)       # later entries replace earlier ones with an equal key, as in Python
        return out

    def ev_SetComp(self, node, fr):
        vals = self.comprehension(node, fr, node.elt)
        if vals.items is None:
            raise Unsupported("set comprehension over a symbolic-length iterable")
        out = SetV({})
        for x in vals.items:
            self.dict_store(fr, out, x, True)
        return out

    def ev_JoinedStr(self, node, fr):
        parts = []
        for v in node.values:
            if isinstance(v, ast.Constant):
                parts.append(v.value)
            elif isinstance(v, ast.FormattedValue):
                x = self.ev(v.value, fr)
                parts.append(self.to_str(x))
        if all(isinstance(p, str) for p in parts):
            return "".join(parts)
        return z3.Concat([zstr(p) for p in parts]) if len(parts) > 1 else zstr(parts[0])

    def to_str(self, x):
        if isinstance(x, str) or (is_z3(x) and z3.is_string(x)):
            return x
        if isinstance(x, bool):
            return str(x)
        if isinstance(x, int):
            return str(x)
        if is_z3(x) and z3.is_int(x):
            # str(int) for non-negative values is z3's int.to.str; negative handled with a sign
            if getattr(self.top, "regex_decomposition", False):
                # language-level reading: str(int) is an injective function into (-)?digits (no arithmetic meaning needed)
                f = z3.Function("py_str_of_int", z3.IntSort(), z3.StringSort())
                d = f(x)
                self.run.assume(z3.Implies(x >= 0, z3.InRe(d, z3.Plus(z3.Range("0", "9")))))
                self.run.assume(z3.InRe(d, z3.Concat(z3.Option(z3.Re("-")), z3.Plus(z3.Range("0", "9")))))
                self.trusted.add("engine: str(int) is a function into optional-minus-plus-digits (digits only for n >= 0)")
                return d
            return z3.If(x >= 0, z3.IntToStr(x), z3.Concat(z3.StringVal("-"), z3.IntToStr(-x)))
        if isinstance(x, OptV):
            raise Unsupported("str() of Optional")
        return z3.String(fresh_name("str"))      # opaque rendering (messages only)

    def ev_UnaryOp(self, node, fr):
        v = self.ev(node.operand, fr)
        if isinstance(node.op, ast.Not):
            return znot(truth(v))
        if isinstance(node.op, ast.USub):
            return -v if not is_z3(v) else -v
        if isinstance(node.op, ast.UAdd):
            return v
        raise Unsupported("unary op")

    def ev_BinOp(self, node, fr):
        a = self.ev(node.left, fr)
        b = self.ev(node.right, fr)
        return self.binop(fr, node.op, a, b)

    def ev_BoolOp(self, node, fr):
        is_and = isinstance(node.op, ast.And)
        if fr.spec:
            vals = []
            for v in node.values:
                t = truth(self.ev(v, fr))
                if t is (not is_and):
                    return t             # decided: later operands may not even be well-defined (Python would not evaluate them)
                vals.append(t)
            return zand(*vals) if is_and else zor(*vals)
        v = None
        for i, sub in enumerate(node.values):
            v = self.ev(sub, fr)
            if i == len(node.values) - 1:
                return v
            t = self.run.branch(truth(v))
            if is_and and not t:
                return v if not is_z3(v) or not z3.is_bool(v) else False
            if not is_and and t:
                if isinstance(v, OptV):
                    return v.val
                return v if not (is_z3(v) and z3.is_bool(v)) else True
        return v

    def ev_Compare(self, node, fr):
        left = self.ev(node.left, fr)
        res = []
        for op, rn in zip(node.ops, node.comparators):
            right = self.ev(rn, fr)
            res.append(self.compare(fr, op, left, right))
            left = right
        return zand(*res)

    def ev_IfExp(self, node, fr):
        c = truth(self.ev(node.test, fr))
        if fr.spec:
            if isinstance(c, bool):
                return self.ev(node.body if c else node.orelse, fr)
            return zite(c, self.ev(node.body, fr), self.ev(node.orelse, fr))
        if self.run.branch(c):
            return self.ev(node.body, fr)
        return self.ev(node.orelse, fr)

    def ev_Lambda(self, node, fr):
        return LambdaV(node, fr)

    def ev_Attribute(self, node, fr):
        base = self.ev(node.value, fr)
        return self.get_attr(fr, base, node.attr)

    def get_attr(self, fr, base, name):
        if isinstance(base, OptV):
            if not fr.spec:
                if self.run.branch(base.isnone):
                    self.py_raise("AttributeError")
            base = base.val
        if isinstance(base, RecV):
            if name in base.fields:
                return base.fields[name]
            ci = self._class_by_name(fr, base.cls)
            if ci is not None:
                return self.class_member(fr, base, ci, name)
            raise Unsupported(f"record {base.cls} has no field {name}")
        if isinstance(base, Obj):
            if name in base.fields:
                return base.fields[name]
            if base.cls is not None:
                return self.class_member(fr, base, base.cls, name)
            if base.abstract:
                return BoundMethod(base, f"{base.abstract}.{name}")
            raise Unsupported(f"object has no attribute {name}")
        if isinstance(base, ClassRef):
            if base.enum is not None:
                mem = base.enum["members"]
                if name in mem:
                    if base.enum.get("int") and mem[name] is not None:
                        return mem[name]
                    return EnumMember(f"{base.name}.{name}", mem[name])
            if base.info is not None:
                fn = self.index.find_method(base.info, name)
                if fn is not None:
                    if any(d in ("classmethod",) for d in fn.decorators):
                        return BoundMethod(base, fn)
                    return FuncRef(fn)
                c, expr = self.index.find_class_attr(base.info, name)
                if expr is not None:
                    return self.ev(expr, Frame(c.module, cls=c))
            raise Unsupported(f"class attribute {base.key}.{name}")
        if isinstance(base, ModuleV):
            if base.name == "numpy":
                return Opaque(("np", name))
            if base.name == "re":
                return Opaque(("re", name))
            if base.name == "math":
                return Opaque(("math", name))
            if base.name in ("os", "os.path", "posixpath"):
                return Opaque(("os", name))
            return Opaque((base.name, name))
        if isinstance(base, Opaque) and isinstance(base.what, tuple) and base.what[0] == "os" and name == "path":
            return ModuleV("os.path")
        if isinstance(base, NdV) and name == "dtype":
            return base.dtype if isinstance(base.dtype, Opaque) else Opaque(("dtype", base.dtype))
        if isinstance(base, NdV) and name == "T" and len(base.shape) == 2:
            self.trusted.add("numpy: a.T of a 2-D array: out[k][f] = a[f][k]")
            return NdV((base.shape[1], base.shape[0]), lambda idx, a=base: a.fn((idx[1], idx[0])), base.dtype)
        if isinstance(base, (ListV, DictV, tuple, IterV, NdV, RegexV, MatchV)) or is_strv(base):
            real = (list if isinstance(base, ListV) else dict if isinstance(base, DictV) and not isinstance(base, SetV) else set if isinstance(base, SetV)
                    else tuple if isinstance(base, tuple) else str if is_strv(base) else None)
            if real is not None and not hasattr(real, name):
                raise Unsupported(f"{real.__name__} object has no attribute {name}")       # AttributeError in Python
            return BoundMethod(base, "builtin." + name)
        if isinstance(base, ExcV):
            return Opaque(("excattr", name))
        if isinstance(base, Opaque) and isinstance(base.what, str) and base.what.startswith("construct."):
            # attribute of a live construct object (e.g. an Enum member): an interned opaque token
            cache = self.__dict__.setdefault("_opaque_attrs", {})
            key = (id(base), name)
            if key not in cache:
                cache[key] = Opaque(("construct-attr", base.what, name))
            return cache[key]
        raise Unsupported(f"attribute {name} of {base!r}")

    def _class_by_name(self, fr, name):
        ci = self.index.resolve_class_name(fr.module, name)
        if ci is None:
            for mn in self.live["modules"]:
                if self.index.has_module(mn) and name in self.index.module(mn).classes:
                    return self.index.module(mn).classes[name]
        if ci is None and self.top is not None:
            try:
                mod = self.top.key.split(":")[0]
                ci = self.index.resolve_class_name(mod, name)
            except Exception:
                ci = None
        return ci

    def class_member(self, fr, recv, ci, name):
        fn = self.index.find_method(ci, name)
        if fn is not None:
            if "property" in fn.decorators:
                return self.call_function(fn, [recv], {}, fr)
            if "staticmethod" in fn.decorators:
                return FuncRef(fn)
            if "classmethod" in fn.decorators:
                return BoundMethod(ClassRef(ci.key, info=ci), fn)
            return BoundMethod(recv, fn)
        c, expr = self.index.find_class_attr(ci, name)
        if expr is not None:
            return self.ev(expr, Frame(c.module, cls=c))
        # dataclass field default
        if ci.is_dataclass:
            for (n, d, ann, c) in self.index.dataclass_fields(ci):
                if n == name and d is not None:
                    return self.ev(d, Frame(c.module, cls=c))
        raise Unsupported(f"{ci.name} has no member {name}")

    def ev_Subscript(self, node, fr):
        base = self.ev(node.value, fr)
        if isinstance(node.slice, ast.Slice):
            return self.slice_value(fr, base, node.slice)
        i = self.ev(node.slice, fr)
        return self.index_value(fr, base, i)

    def slice_value(self, fr, base, sl):
        if sl.step is not None:
            raise Unsupported("slice step")
        lo = self.ev(sl.lower, fr) if sl.lower is not None else None
        hi = self.ev(sl.upper, fr) if sl.upper is not None else None
        if isinstance(base, tuple):
            if (lo is None or isinstance(lo, int)) and (hi is None or isinstance(hi, int)):
                return base[lo:hi]
            raise Unsupported("symbolic tuple slice")
        if is_strv(base):
            if isinstance(base, str) and not is_z3(lo) and not is_z3(hi):
                return base[lo:hi]
            s = zstr(base)
            n = z3.Length(s)
            l2, h2 = self._norm_slice(lo, hi, n)
            return z3.SubString(s, l2, zmax(h2 - l2, 0))
        if isinstance(base, NdV):
            return self.nd_slice(fr, base, lo, hi)
        if not isinstance(base, ListV):
            raise Unsupported(f"slice of {base!r}")
        n = list_len(base)
        if base.items is not None and not is_z3(lo) and not is_z3(hi):
            return ListV(base.items[lo:hi], elem=base.elem, kind=base.kind)
        l2, h2 = self._norm_slice(lo, hi, zint(n))
        h3 = zmax(h2, l2)
        return list_slice(base, l2, h3)

    def _norm_slice(self, lo, hi, n):
        def norm(v, dflt):
            if v is None:
                return dflt
            v = zint(v)
            return z3.If(v < 0, z3.If(v + n < 0, 0, v + n), z3.If(v > n, n, v))
        return z3.simplify(norm(lo, z3.IntVal(0))), z3.simplify(norm(hi, n))

    def nd_slice(self, fr, a, lo, hi):
        if len(a.shape) != 1:
            raise Unsupported("nd slice rank")
        n = a.shape[0]
        l2, h2 = self._norm_slice(lo, hi, zint(n))
        h3 = zmax(h2, l2)
        return NdV((z3.simplify(h3 - l2),), lambda idx: a.fn((idx[0] + l2,)), a.dtype)

    def ev_ListComp(self, node, fr):
        return self.comprehension(node, fr, node.elt)

    def ev_GeneratorExp(self, node, fr):
        r = self.comprehension(node, fr, node.elt)
        if not fr.spec and isinstance(r, ListV) and r.items is not None:
            # a generator object is ONE-SHOT: whoever iterates it a second time finds it empty (elements are computed eagerly here,
            # which is the same for the pure element expressions the subset allows)
            return IterV(r, 0)
        return r

    def comprehension(self, node, fr, elt):
        if len(node.generators) != 1:
            return self.multi_comprehension(node, fr, elt)
        g = node.generators[0]
        src = self.ev(g.iter, fr)
        if isinstance(src, tuple):
            src = ListV(list(src), kind="tuple")
        if isinstance(src, DictV):
            src = ListV(src.keys())
        if isinstance(src, IterV):
            src = self.as_list(src, fr)
        if isinstance(src, Opaque) and isinstance(src.what, tuple) and src.what[0] in ("enumerate", "zip"):
            seqs = [self.as_list(x, fr) for x in (src.what[1] if src.what[0] == "zip" else [src.what[1]])]
            if all(q.items is not None for q in seqs):
                n = min(len(q.items) for q in seqs)
                src = ListV([((k, seqs[0].items[k]) if src.what[0] == "enumerate" else tuple(q.items[k] for q in seqs)) for k in range(n)])
        if isinstance(src, Opaque) and isinstance(src.what, tuple) and src.what[0] == "range":
            lo, hi = src.what[1], src.what[2]
            if isinstance(lo, int) and isinstance(hi, int):
                src = ListV(list(range(lo, hi)))
            else:
                raise Unsupported("comprehension over symbolic range")
        if not isinstance(src, ListV):
            raise Unsupported(f"comprehension over {src!r}")
        sub = Frame(fr.module, fr.cls, fr.func, fr.spec, parent=fr)
        sub.olds, sub.defs = fr.olds, fr.defs
        if src.items is not None:
            out = []
            for it in src.items:
                self.bind_target(g.target, it, sub)
                keep = True
                for cond in g.ifs:
                    c = truth(self.ev(cond, sub))
                    if fr.spec:
                        if not isinstance(c, bool):
                            raise Unsupported("symbolic filter in spec comprehension over concrete list")
                        keep = keep and c
                    else:
                        keep = keep and self.run.branch(c)
                    if not keep:
                        break
                if keep:
                    out.append(self.ev(elt, sub))
            return ListV(out)
        # symbolic source list: map / filter by defining axioms
        j = z3.Int(fresh_name("k"))
        n = zint(src.length)
        self.bind_target(g.target, list_get(src, j), sub)
        was_spec = sub.spec
        sub.spec = True       # element expressions must be pure
        try:
            val = self.ev(elt, sub)
            conds = [zbool(truth(self.ev(c, sub))) for c in g.ifs]
        finally:
            sub.spec = was_spec
        if not conds:
            if isinstance(val, RecV):
                elem = desc_of(val)
                arr = {f: z3.Lambda([j], zval(val.fields[f])) for f in val.fields}
                return ListV(None, src.length, arr, elem)
            if isinstance(val, (ListV, Obj, tuple, OptV)):
                raise Unsupported("comprehension producing structured values")
            return ListV(None, src.length, z3.Lambda([j], zval(val)), desc_of(val))
        # filter: fresh result with sound consequences of filter semantics
        self.trusted.add("engine: filter comprehension = fresh list R with len(R)<=len(S); all pass => R==map(S); every R[k] satisfies the predicate")
        if isinstance(val, (ListV, Obj, tuple, OptV)):
            raise Unsupported("filter comprehension producing structured values")
        p = z3.And(conds)
        if isinstance(val, RecV):
            if not (isinstance(elt, ast.Name) and isinstance(g.target, ast.Name) and elt.id == g.target.id):
                raise Unsupported("filter comprehension building new records")
            elem = src.elem
            R = fresh(("list", elem), "filt", self.run)
            allpass = z3.ForAll([j], z3.Implies(z3.And(j >= 0, j < n), p))
            same = z3.And(zint(R.length) == n,
                          z3.ForAll([j], z3.Implies(z3.And(j >= 0, j < n),
                                                    z3.And([R.arr[a][j] == src.arr[a][j] for a in src.arr]))))
            self.run.assume(zint(R.length) <= n)
            self.run.assume(z3.Implies(allpass, same))
            # every element of R satisfies p (expressed on R's own elements when elt is the loop variable)
            if isinstance(elt, ast.Name) and isinstance(g.target, ast.Name) and elt.id == g.target.id:
                k2 = z3.Int(fresh_name("k"))
                self.bind_target(g.target, list_get(R, k2), sub)
                sub.spec = True
                try:
                    pr = z3.And([zbool(truth(self.ev(c, sub))) for c in g.ifs])
                finally:
                    sub.spec = was_spec
                self.run.assume(z3.ForAll([k2], z3.Implies(z3.And(k2 >= 0, k2 < zint(R.length)), pr)))
            self._filter_index_axioms(R, src, n, p, j, lambda jj: [(R.arr[a], src.arr[a]) for a in src.arr])
            return R
        R = fresh(("list", desc_of(val)), "filt", self.run)
        allpass = z3.ForAll([j], z3.Implies(z3.And(j >= 0, j < n), p))
        same = z3.And(zint(R.length) == n, z3.ForAll([j], z3.Implies(z3.And(j >= 0, j < n), R.arr[j] == zval(val))))
        self.run.assume(zint(R.length) <= n)
        self.run.assume(z3.Implies(allpass, same))
        return R

    def _filter_index_axioms(self, R, src, n, p, j, pairs):
        """More sound consequences of `[x for x in S if p(x)]`: R[k] IS S[idx(k)] for a strictly increasing index map whose images
        satisfy p; nothing satisfying p precedes idx(0); R is empty only if no element of S satisfies p."""
        idx = z3.Function(fresh_name("filt_idx"), z3.IntSort(), z3.IntSort())
        k = z3.Int(fresh_name("k"))
        rl = zint(R.length)
        same_at = z3.And([ra[k] == sa[idx(k)] for (ra, sa) in pairs(None)])
        self.run.assume(z3.ForAll([k], z3.Implies(z3.And(k >= 0, k < rl),
                                                  z3.And(idx(k) >= 0, idx(k) < n, same_at, z3.substitute(p, (j, idx(k))),
                                                         z3.Implies(k > 0, idx(k - 1) < idx(k))))))
        self.run.assume(z3.Implies(rl == 0, z3.ForAll([j], z3.Implies(z3.And(j >= 0, j < n), z3.Not(p)))))
        self.run.assume(z3.Implies(rl > 0, z3.ForAll([j], z3.Implies(z3.And(j >= 0, j < idx(0)), z3.Not(p)))))
        self.trusted.add("engine: filter comprehension: R[k] = S[idx(k)] for a strictly increasing idx with p(S[idx(k)]); no element satisfying p "
                         "precedes idx(0); R empty only if no element of S satisfies p")

    def multi_comprehension(self, node, fr, elt):
        """Several `for` clauses: supported when every iterated sequence has a concrete length."""
        out = []
        sub = Frame(fr.module, fr.cls, fr.func, fr.spec, parent=fr)
        sub.olds, sub.defs = fr.olds, fr.defs

        def rec(k):
            if k == len(node.generators):
                out.append(self.ev(elt, sub))
                return
            g = node.generators[k]
            src = self.as_list(self.ev(g.iter, sub), sub)
            n = list_len(src)
            if not isinstance(n, int):
                raise Unsupported("multi-clause comprehension over a sequence of symbolic length")
            for i in range(n):
                self.bind_target(g.target, list_get(src, i), sub)
                keep = True
                for cond in g.ifs:
                    c = truth(self.ev(cond, sub))
                    keep = keep and (c if isinstance(c, bool) else (self.run.branch(c) if not fr.spec else None))
                    if keep is None:
                        raise Unsupported("symbolic filter in spec comprehension")
                    if not keep:
                        break
                if keep:
                    rec(k + 1)
        rec(0)
        return ListV(out)

    def bind_target(self, target, value, fr):
        if isinstance(target, ast.Name):
            fr.locals[target.id] = value
        elif isinstance(target, (ast.Tuple, ast.List)):
            if isinstance(value, ListV) and value.items is not None:
                value = tuple(value.items)
            if isinstance(value, RecV):
                value = tuple(value.fields.values())
            if not isinstance(value, tuple) or len(value) != len(target.elts):
                raise Unsupported("tuple unpacking of non-tuple")
            for t, v in zip(target.elts, value):
                self.bind_target(t, v, fr)
        elif isinstance(target, ast.Attribute):
            obj = self.ev(target.value, fr)
            self.set_attr(obj, target.attr, value)
        elif isinstance(target, ast.Subscript):
            base = self.ev(target.value, fr)
            if isinstance(target.slice, ast.Slice):
                self.store_slice(fr, base, target.slice, value)
            else:
                i = self.ev(target.slice, fr)
                self.store_index(fr, base, i, value)
        else:
            raise Unsupported(f"assignment target {type(target).__name__}")

    def store_slice(self, fr, base, sl, value):
        lo = self.ev(sl.lower, fr) if sl.lower is not None else 0
        hi = self.ev(sl.upper, fr) if sl.upper is not None else None
        if not (isinstance(base, ListV) and isinstance(lo, int) and isinstance(hi, int) and isinstance(value, ListV)
                and value.items is not None and len(value.items) == hi - lo):
            raise Unsupported("slice store")
        self.log_write(base, "*")
        n = list_len(base)
        if base.items is not None:
            base.items[lo:hi] = value.items
            return
        # symbolic list: in-range requirement becomes a path split
        if not self.run.branch(zint(n) >= hi):
            raise Unsupported("slice store growing a symbolic list")
        for k, it in enumerate(value.items):
            list_set(base, lo + k, it)

    # ------------------------------------------------------------ calls
    def ev_Call(self, node, fr):
        # spec-level forms that must see the AST
        if isinstance(node.func, ast.Name):
            nm = node.func.id
            if nm in ("old", "prev") and fr.spec:
                if id(node) in fr.olds:
                    return fr.olds[id(node)]
                raise EngineError(f"{nm}() evaluated outside a postcondition / loop step clause")
            if nm == "defined" and fr.spec and len(node.args) == 1 and isinstance(node.args[0], ast.Constant):
                # defined('x'): has the function's local x been assigned on this path? (ghost access in raises / ensures clauses)
                return fr.lookup(node.args[0].value)[0]
            if nm in ("forall", "exists") and fr.spec:
                return self.quantifier(node, fr, nm)
            if nm == "implies" and fr.spec and len(node.args) == 2:
                a0 = truth(self.ev(node.args[0], fr))
                if a0 is False:
                    return True          # lazy: the consequent may mention names that do not exist on this path
                try:
                    b0 = truth(self.ev(node.args[1], fr))
                except Unsupported as e:
                    if "has no member" in str(e) or "has no field" in str(e) or "no attribute" in str(e) or str(e).startswith("attribute "):
                        b0 = False      # the consequent speaks about a shape the value does not have: false
                    else:
                        raise
                return zimplies(a0, b0)
            if nm == "cast":
                return self.ev(node.args[1], fr)
            if nm == "super":
                return Opaque(("super",))
            if nm == "print":
                for a in node.args:
                    self.ev(a, fr)
                return None
        if isinstance(node.func, ast.Attribute) and isinstance(node.func.value, ast.Call) \
                and isinstance(node.func.value.func, ast.Name) and node.func.value.func.id == "super":
            recv = fr.locals.get("self")
            if recv is None or fr.cls is None:
                raise Unsupported("super() outside a method")
            rcls = recv.cls if isinstance(recv, Obj) and recv.cls is not None else fr.cls
            fn = self.index.find_method(rcls, node.func.attr, after=fr.cls)
            args, kwargs = self.eval_args(node, fr)
            if fn is None:
                if node.func.attr == "__init__":
                    return None
                raise Unsupported(f"super().{node.func.attr} not found")
            return self.call_function(fn, [recv] + args, kwargs, fr, static=True)
        ac = getattr(self.top, "abstract_calls", None) if self.top is not None else None
        if ac and not fr.spec:
            txt = ast.unparse(node.func)
            if txt in ac:
                # a call into a library object (construct parser ...) replaced by its ASSUMED contract
                args, kwargs = self.eval_args(node, fr)
                con = self.registry[ac[txt]]
                names = list(con.params.keys())
                if len(args) > len(names):
                    # the assumed contract describes the call with at most its own parameters: a call that passes MORE positional arguments
                    # (f.readlines(hint), ...) is a different call - not covered by the assumption
                    raise Unsupported(f"call {txt}(...) passes {len(args)} positional arguments, its assumed contract {con.key} describes {len(names)}")
                bound = {}
                for i, n in enumerate(names):
                    if i < len(args):
                        bound[n] = args[i]
                    elif n in kwargs:
                        bound[n] = kwargs[n]
                if isinstance(node.func, ast.Attribute) and "self" not in bound and getattr(con, "binds_receiver", False):
                    bound["self"] = self.ev(node.func.value, fr)          # `x.m(...)` replaced by a contract that speaks about its receiver
                return self.apply_contract(con, bound, fr, "builtins", None)
        f = self.ev(node.func, fr)
        args, kwargs = self.eval_args(node, fr)
        return self.call_value(f, args, kwargs, fr, node)

    def eval_args(self, node, fr):
        args = []
        for a in node.args:
            if isinstance(a, ast.Starred):
                v = self.ev(a.value, fr)
                if isinstance(v, ListV) and v.items is not None:
                    args.extend(v.items)
                elif isinstance(v, tuple):
                    args.extend(v)
                else:
                    raise Unsupported("*args of symbolic length")
            else:
                args.append(self.ev(a, fr))
        kwargs = {}
        for k in node.keywords:
            if k.arg is None:
                v = self.ev(k.value, fr)
                if isinstance(v, DictV):
                    kwargs.update(v.d)
                else:
                    raise Unsupported("**kwargs")
            else:
                kwargs[k.arg] = self.ev(k.value, fr)
        return args, kwargs

    def quantifier(self, node, fr, which):
        # forall(lo, hi, lambda j: body)   /  forall(lambda j: body)
        args = node.args
        lam = args[-1]
        if not isinstance(lam, ast.Lambda):
            raise Unsupported("quantifier needs a lambda")
        names = [a.arg for a in lam.args.args]
        sub = Frame(fr.module, fr.cls, fr.func, True, parent=fr)
        sub.olds, sub.defs = fr.olds, fr.defs
        vars_ = []
        for n in names:
            v = z3.Int(fresh_name(n))
            vars_.append(v)
            sub.locals[n] = v
        body = zbool(truth(self.ev(lam.body, sub)))
        rng = []
        if len(args) == 3:
            lo, hi = zint(self.ev(args[0], fr)), zint(self.ev(args[1], fr))
            for v in vars_:
                rng.append(z3.And(v >= lo, v < hi))
        if which == "forall":
            return z3.ForAll(vars_, z3.Implies(z3.And(rng), body) if rng else body)
        return z3.Exists(vars_, z3.And(rng + [body]))

    def call_value(self, f, args, kwargs, fr, node=None):
        if isinstance(f, FuncRef):
            return self.call_function(f.info, args, kwargs, fr)
        if isinstance(f, LambdaV):
            return self.call_lambda(f, args, kwargs, fr)
        if isinstance(f, BoundMethod):
            if isinstance(f.func, str):
                if f.func.startswith("builtin."):
                    return self.call_builtin_method(f.recv, f.func[8:], args, kwargs, fr)
                return self.call_abstract(f.recv, f.func, args, kwargs, fr)
            return self.call_function(f.func, [f.recv] + args, kwargs, fr)
        if isinstance(f, ClassRef):
            return self.instantiate(f, args, kwargs, fr)
        if isinstance(f, Opaque) and isinstance(f.what, tuple):
            kind = f.what[0]
            if kind == "builtin":
                return self.call_builtin(f.what[1], args, kwargs, fr, node)
            if kind == "specdef":
                return self.call_specdef(f.what[1], args, fr)
            if kind in ("np", "re", "math", "os"):
                from . import models
                return models.call_library(self, kind, f.what[1], args, kwargs, fr)
        if isinstance(f, Opaque) and f.what in ("dataclasses:fields", ("dataclasses", "fields")) and len(args) == 1 and \
                ((isinstance(args[0], Obj) and args[0].cls is not None) or (isinstance(args[0], ClassRef) and args[0].info is not None)):
            # dataclasses.fields(obj or class): the declared fields in definition order (only their .name is modelled)
            ci = args[0].cls if isinstance(args[0], Obj) else args[0].info
            return ListV([RecV("Field", {"name": n}) for (n, _d, _ann, _c) in self.index.dataclass_fields(ci)], kind="tuple")
        if isinstance(f, Opaque) and f.what in ("copy:copy", ("copy", "copy")) and len(args) == 1:
            v = args[0]
            if isinstance(v, ListV):
                return v.copy()                 # a new list object holding the same elements
            if isinstance(v, DictV):
                return type(v)(v.d)
            if isinstance(v, Obj):
                o = Obj(v.cls, dict(v.fields))
                return o
            return v                            # immutable values
        if isinstance(f, Opaque) and f.what in ("dataclasses:replace", ("dataclasses", "replace")) and len(args) == 1 and isinstance(args[0], Obj):
            # dataclasses.replace(obj, **changes): a NEW object of the same class, every field handed over as it is (a shallow copy:
            # lists and other mutable field values are SHARED with the original), the named fields replaced
            v = args[0]
            fields = dict(v.fields)
            for k, x in kwargs.items():
                if k not in fields:
                    raise Unsupported(f"dataclasses.replace: no field {k}")
                fields[k] = x
            return Obj(v.cls, fields)
        raise Unsupported(f"call of {f!r}")

    def call_specdef(self, name, args, fr):
        defs = dict(self.top.defs) if self.top else {}
        defs.update(fr.defs)
        params, text = defs[name]
        sub = Frame(fr.module, fr.cls, fr.func, True, parent=None)
        sub.defs = fr.defs
        sub.olds = fr.olds
        for p, a in zip(params, args):
            sub.locals[p] = a
        # definitions may refer to the enclosing contract's parameters (self, ...)
        sub.parent = fr
        return self.ev(parse_expr(text), sub)

    def call_lambda(self, lam, args, kwargs, fr):
        sub = Frame(lam.frame.module, lam.frame.cls, lam.frame.func, fr.spec, parent=lam.frame)
        sub.olds, sub.defs = fr.olds, fr.defs
        a = lam.node.args
        names = [x.arg for x in a.args]
        defaults = [None] * (len(names) - len(a.defaults)) + list(a.defaults)
        for i, n in enumerate(names):
            if i < len(args):
                sub.locals[n] = args[i]
            elif n in kwargs:
                sub.locals[n] = kwargs[n]
            elif defaults[i] is not None:
                sub.locals[n] = self.ev(defaults[i], lam.frame)
            else:
                raise Unsupported("lambda missing argument")
        return self.ev(lam.node.body, sub)

    def instantiate(self, c, args, kwargs, fr):
        name = c.name
        if c.exc_bases is not None or name in self.exc_parents:
            return ExcV(name, tuple(args))
        if c.enum is not None:
            # Enum(value): value -> member (ValueError when absent)
            v = args[0]
            members = c.enum["members"]
            if not is_z3(v):
                for n, mv in members.items():
                    if mv == v:
                        return mv if c.enum.get("int") else EnumMember(f"{name}.{n}", mv)
                self.py_raise("ValueError")
            ok = z3.Or([zint(v) == mv for mv in members.values() if mv is not None])
            if not fr.spec and not self.run.branch(ok):
                self.py_raise("ValueError")
            return v
        if c.key in ("builtins:list",):
            return self.call_builtin("list", args, kwargs, fr)
        ci = c.info
        if ci is None:
            if c.key.endswith(":Container") and len(args) == 1 and isinstance(args[0], DictV):
                return args[0]        # construct.Container(dict): a dict with attribute access
            if c.key.endswith(":Container") and not args:
                return DictV(dict(kwargs))       # construct.Container(a=.., b=..): an ordered dict with attribute access
            if c.key.endswith(":ListContainer") and len(args) <= 1 and not kwargs:
                return self.call_builtin("list", args, kwargs, fr)          # construct.ListContainer(iterable): a list subclass (printing only differs)
            raise Unsupported(f"instantiate external class {c.key}")
        vc = self.top.value_classes if self.top else {}
        obj = Obj(ci, {})
        init, use_dc = None, False
        for k in self.index.mro(ci):
            if "__init__" in k.methods:
                init = k.methods["__init__"]
                break
            if k.is_dataclass:
                use_dc = True
                break
        if init is not None:
            self.call_function(init, [obj] + args, kwargs, fr, force_inline=True)
        elif use_dc:
            self.dataclass_init(obj, ci, args, kwargs, fr)
        elif self._is_namedtuple(ci):
            for (n, d, ann), a in zip(ci.ann_fields, args):
                obj.fields[n] = a
            for n, v in kwargs.items():
                obj.fields[n] = v
            return RecV(ci.name, dict(obj.fields))
        if ci.name in vc:
            d = vc[ci.name]
            return RecV(ci.name, {f: obj.fields.get(f) for f in d}, ("rec", ci.name, d))
        if self._is_frozen_dataclass(ci):
            return RecV(ci.name, dict(obj.fields))
        return obj

    def _is_namedtuple(self, ci):
        return "NamedTuple" in ci.bases

    def _is_frozen_dataclass(self, ci):
        return any("frozen=True" in ast.unparse(d) for d in ci.node.decorator_list)

    def dataclass_init(self, obj, ci, args, kwargs, fr):
        fields = self.index.dataclass_fields(ci)
        for i, (n, d, ann, c) in enumerate(fields):
            if i < len(args):
                obj.fields[n] = args[i]
            elif n in kwargs:
                obj.fields[n] = kwargs[n]
            elif d is not None:
                dv = None
                if isinstance(d, ast.Call) and isinstance(d.func, ast.Name) and d.func.id == "field":
                    for kw in d.keywords:
                        if kw.arg == "default_factory":
                            fac = self.ev(kw.value, Frame(c.module, cls=c))
                            if isinstance(fac, Opaque) and fac.what == ("builtin", "list"):
                                dv = ListV([])
                            elif isinstance(fac, ClassRef) and fac.key.endswith(":IOBase"):
                                dv = Opaque("IOBase()")
                            else:
                                dv = self.call_value(fac, [], {}, fr)
                        elif kw.arg == "default":
                            dv = self.ev(kw.value, Frame(c.module, cls=c))
                else:
                    dv = self.ev(d, Frame(c.module, cls=c))
                obj.fields[n] = dv
            else:
                raise Unsupported(f"dataclass {ci.name}: missing argument {n}")
        post = self.index.find_method(ci, "__post_init__")
        if post is not None:
            self.call_function(post, [obj], {}, fr, force_inline=True)

    def bind_params(self, info, args, kwargs, fr):
        a = info.node.args
        if a.vararg is not None:
            raise Unsupported("*args in callee")
        names = [x.arg for x in a.posonlyargs + a.args]
        defaults = [None] * (len(names) - len(a.defaults)) + list(a.defaults)
        bound = {}
        if len(args) > len(names):
            raise Unsupported(f"too many positional args for {info.key}")
        dframe = Frame(info.module, cls=info.cls)
        kwargs = dict(kwargs)
        for i, n in enumerate(names):
            if i < len(args):
                bound[n] = args[i]
            elif n in kwargs:
                bound[n] = kwargs.pop(n)
            elif defaults[i] is not None:
                bound[n] = self.ev(defaults[i], dframe)
            else:
                raise Unsupported(f"missing argument {n} for {info.key}")
        for kn, kd in zip(a.kwonlyargs, a.kw_defaults):
            if kn.arg in kwargs:
                bound[kn.arg] = kwargs.pop(kn.arg)
            elif kd is not None:
                bound[kn.arg] = self.ev(kd, dframe)
        if a.kwarg is not None:
            bound[a.kwarg.arg] = DictV(kwargs)
        elif kwargs:
            raise Unsupported(f"unexpected keyword {list(kwargs)} for {info.key}")
        return bound

    def contract_for(self, info, recv=None):
        """Callee contract lookup: receiver-class specific key first, then the defining function."""
        use = getattr(self.top, "use", None) if self.top is not None else None
        if recv is not None and isinstance(recv, Obj) and recv.cls is not None:
            k = f"{recv.cls.module}:{recv.cls.name}.{info.qualname.split('.')[-1]}"
            if use and k in use:
                if use[k] == "inline":
                    return None              # this proof looks inside the callee instead of using its contract
                return self.registry[use[k]]
            if k in self.registry and not getattr(self.registry[k], "proof_only", False):
                return self.registry[k]
        if use and info.key in use:
            return None if use[info.key] == "inline" else self.registry[use[info.key]]
        c = self.registry.get(info.key)
        if c is not None and getattr(c, "proof_only", False):
            return None
        return c

    def call_function(self, info, args, kwargs, fr, force_inline=False, static=False):
        recv = args[0] if info.cls is not None and args and "staticmethod" not in info.decorators and not static else None
        con = None if force_inline else self.contract_for(info, recv)
        if con is not None and not (self.top is not None and con is self.top and self.depth == 0):
            bound = self.bind_params(info, args, kwargs, fr)
            cuts = self.call_cuts_for(info, fr)
            self.do_call_cuts(cuts, "before", fr)
            res = self.apply_contract(con, bound, fr, info.module, info.cls)
            self.do_call_cuts(cuts, "after", fr)
            return res
        if self.depth > 14:
            raise Unsupported(f"inline depth exceeded at {info.key}")
        if spec_guard(fr):
            pass
        bound = self.bind_params(info, args, kwargs, fr)
        sub = Frame(info.module, cls=info.cls, func=info, spec=False)
        sub.locals.update(bound)
        self.depth += 1
        self.frames.append(sub)
        saved_line = getattr(self, "cur_line", 0)
        try:
            self.ex_block(info.node.body, sub)
            return None
        except ReturnEx as r:
            return r.value
        finally:
            self.frames.pop()
            self.depth -= 1
            self.cur_line = saved_line

    def call_cuts_for(self, info, fr):
        """The proof cuts the contract under proof places at this call (function under proof only, never inside inlined callees)."""
        top = self.top
        if top is None or self.depth != 0 or fr.spec or fr.func is None or not getattr(top, "call_cuts", None):
            return []
        mine = [c for c in top.call_cuts if c[0] == info.key]
        if not mine:
            return []
        short = info.qualname.split(".")[-1]
        calls = [n for n in ast.walk(fr.func.node) if isinstance(n, ast.Call) and
                 ((isinstance(n.func, ast.Name) and n.func.id == short) or (isinstance(n.func, ast.Attribute) and n.func.attr == short))]
        calls.sort(key=lambda n: (n.lineno, n.col_offset))
        line = getattr(self, "cur_line", 0)
        here = [i for i, n in enumerate(calls) if n.lineno <= line <= (n.end_lineno or n.lineno)]
        if len(here) != 1:
            raise Unsupported(f"proof cut: the call of {info.key} at line {line} cannot be told apart from its neighbours")
        return [(here[0], line) + c for c in mine if c[4] is None or here[0] in c[4]]

    def do_call_cuts(self, cuts, when, fr):
        for (ordn, line, _callee, w, label, text, _ords) in cuts:
            if w != when:
                continue
            sfr = Frame(fr.module, fr.cls, fr.func, True, parent=fr)
            sfr.defs = dict(self.top.defs)
            g = zbool(truth(self.ev(parse_expr(text), sfr)))
            self.run.oblige(f"{self.top.key}@L{line}:cut{ordn}.{when}.{label}", g, kind="proof-cut")
            self.run.assume(g)

    def call_abstract(self, recv, key, args, kwargs, fr):
        con = self.registry.get(key)
        if con is None:
            raise Unsupported(f"no contract for abstract method {key}")
        names = list(con.params.keys())
        bound = {"self": recv}
        for i, n in enumerate(names):
            if i < len(args):
                bound[n] = args[i]
            elif n in kwargs:
                bound[n] = kwargs[n]
            elif n in getattr(con, "defaults", {}):
                bound[n] = con.defaults[n]
            else:
                raise Unsupported(f"missing argument {n} for {key}")
        return self.apply_contract(con, bound, fr, "builtins", None)


def spec_guard(fr):
    return fr.spec


BUILTINS = {"len", "range", "min", "max", "abs", "int", "bool", "list", "tuple", "iter", "next", "isinstance",
            "callable", "zip", "enumerate", "map", "any", "all", "round", "chr", "ord", "str", "bytes", "print",
            "cast", "setattr", "getattr", "hasattr", "sum", "float", "dict", "sorted", "reversed", "super", "set", "frozenset",
            "bytearray", "type", "id", "repr", "object"}
