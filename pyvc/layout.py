"""Layout obligations: the LIVE construct declarations (dumped by drivers/dump_structs.py on every run) against
independent layout tables (contracts/layouts.py).  Each table row is one ground obligation
(offset, width, signedness, endianness of a named field); expression trees of the declarations are
compared with their specification by z3."""
import json
import os
import subprocess

import z3

HERE = os.path.dirname(os.path.dirname(os.path.abspath(__file__)))
VENV_PY = "/venv/bin/python"

FMT = {"<B": "u8", ">B": "u8", "<b": "i8", ">b": "i8", "<H": "u16le", ">H": "u16be", "<h": "i16le", "<L": "u32le", ">L": "u32be",
       "<l": "i32le", "<Q": "u64le", "<I": "u32le"}


def dump_structs(repo):
    env = dict(os.environ, VERIF_REPO=repo)
    p = subprocess.run([VENV_PY, os.path.join(HERE, "drivers", "dump_structs.py")], capture_output=True, text=True, env=env, timeout=300)
    if p.returncode != 0:
        raise RuntimeError("struct dump failed: " + p.stderr[-1500:])
    return json.loads(p.stdout)


def kind_of(f):
    if f.get("fmt"):
        return FMT.get(f["fmt"], f["fmt"])
    bi = f.get("bytes_integer")
    if bi:
        return f"{'i' if bi['signed'] else 'u'}{8 * bi['length']}{'le' if bi['swapped'] else 'be'}"
    c = f["class"]
    if c == "Padded" and f.get("name") is None:
        return "pad"
    if c in ("FixedSized", "Bytes"):
        return "bytes"
    if c == "Array":
        return "array"
    if c == "Struct":
        return "struct"
    return c.lower()


def expr_z3(t, env):
    if "const" in t:
        return z3.IntVal(t["const"])
    if "path" in t:
        name = t["path"].replace("this['", "").replace("']", "").replace("this.", "")
        return env[name]
    op = t.get("op")
    a, b = expr_z3(t["lhs"], env), expr_z3(t["rhs"], env)
    return {"mul": a * b, "add": a + b, "sub": a - b, "floordiv": a / b, "and_": None}.get(op) if op != "and_" else None


def tree_diff(want, got, path, out):
    """First-order comparison of two declaration trees; differences as 'path: expected X, declared Y'."""
    if isinstance(want, dict) and isinstance(got, dict) and _is_expr(want) and _is_expr(got):
        if want != got and expr_equiv(want, got) is not True:
            out.append(f"{path}: expected {json.dumps(want)[:120]}, declared {json.dumps(got)[:120]}")
        return
    if isinstance(want, dict) and isinstance(got, dict):
        if "Struct" in want and "Struct" in got:
            wn, gn = [f[0] for f in want["Struct"]], [f[0] for f in got["Struct"]]
            if wn != gn:
                out.append(f"{path}: expected fields {wn}, declared {gn}")
                return
            for (n, w), (_, g) in zip(want["Struct"], got["Struct"]):
                tree_diff(w, g, f"{path}.{n}", out)
            return
        if set(want) != set(got):
            out.append(f"{path}: expected {sorted(want)}, declared {sorted(got)}")
            return
        for k in want:
            tree_diff(want[k], got[k], f"{path}.{k}" if k in ("sub", "cases", "length", "func", "default", "key", "count") or k[0].isupper() else f"{path}.{k}", out)
        return
    if want != got:
        if isinstance(want, dict) and isinstance(got, dict) and _is_expr(want) and _is_expr(got):
            r = expr_equiv(want, got)
            if r is True:
                return          # a differently written but equal expression (proved by z3 over non-negative field values)
            if r is None:
                out.append(f"{path}: expression could not be compared: expected {json.dumps(want)[:100]}, declared {json.dumps(got)[:100]}")
                return
        out.append(f"{path}: expected {json.dumps(want)[:120]}, declared {json.dumps(got)[:120]}")


# facts about field values established elsewhere (get_fmt_chunk_data: bits_per_sample == 8 * sample_width)
EXPR_ASSUMPTIONS = {"this['bits_per_sample']": lambda v: v % 8 == 0}


def _is_expr(t):
    return isinstance(t, dict) and (("op" in t) or ("path" in t) or ("const" in t) or ("func" in t and "operand" in t))


def expr_equiv(a, b):
    """True / False / None(undecided): are two construct expression trees equal for all non-negative integer field values?"""
    env = {}

    def tr(t):
        if "const" in t:
            return z3.IntVal(t["const"]) if isinstance(t["const"], int) and not isinstance(t["const"], bool) else None
        if "path" in t:
            return env.setdefault(t["path"], z3.Int("f_" + str(len(env))))
        if "func" in t:
            inner = t.get("operand") or {}
            key = "len:" + json.dumps(inner, sort_keys=True)
            return env.setdefault(key, z3.Int("f_" + str(len(env)))) if t["func"] == "len" else None
        if "op" in t and "lhs" in t:
            x, y = tr(t["lhs"]), tr(t["rhs"])
            if x is None or y is None:
                return None
            return {"mul": lambda: x * y, "add": lambda: x + y, "sub": lambda: x - y, "floordiv": lambda: x / y}.get(t["op"], lambda: None)()
        return None
    try:
        x, y = tr(a), tr(b)
        if x is None or y is None:
            return None
        sol = z3.Solver()
        sol.set("timeout", 10000)
        for k, v in env.items():
            sol.add(v >= 0)
            if k in EXPR_ASSUMPTIONS:
                sol.add(EXPR_ASSUMPTIONS[k](v))
        sol.add(x != y)
        r = sol.check()
        return True if r == z3.unsat else (False if r == z3.sat else None)
    except Exception:  # noqa
        return None


def check_layouts(tables, repo, shapes=None):
    """-> list of {label, status ('discharged'|'refuted'|'unknown'), detail, backend}"""
    d = dump_structs(repo)
    out = []

    def ob(label, ok, detail=""):
        out.append({"label": label, "status": "discharged" if ok else "refuted", "detail": detail, "backend": "evaluation"})

    for key, want in (shapes or {}).items():
        got = d.get("shapes", {}).get(key)
        if got is None:
            out.append({"label": f"layout:{key}.tree", "status": "unknown", "detail": "anchor lost: " + d["errors"].get(key, "not dumped"),
                        "backend": "evaluation"})
            continue
        diffs = []
        tree_diff(want, got, "", diffs)
        ob(f"layout:{key}.declaration-tree", not diffs, "; ".join(diffs[:4]))
        # one obligation per named field path as well, so that a report names the field
        for path in sorted({x.split(":")[0] for x in diffs})[:8]:
            ob(f"layout:{key}.tree{path}", False, next(x for x in diffs if x.startswith(path + ":")))
    for key, table in tables.items():
        s = d["structs"].get(key)
        if s is None:
            out.append({"label": f"layout:{key}", "status": "unknown", "detail": "anchor lost: " + d["errors"].get(key, "not dumped"),
                        "backend": "evaluation"})
            continue
        by_name = {f["name"]: f for f in s["fields"] if f.get("name")}
        pads = [(f["offset"], f["size"]) for f in s["fields"] if f.get("name") is None]
        if "size" in table:
            ob(f"layout:{key}.total-size", s["size"] == table["size"], f"declared {s['size']}, table {table['size']}")
        for row in table["fields"]:
            name, off, width, kind = row[:4]
            f = by_name.get(name)
            lab = f"layout:{key}.{name}"
            if f is None:
                ob(lab + ".present", False, "field missing from the declaration")
                continue
            ob(lab + ".offset", f["offset"] == off, f"declared at {f['offset']}, table says {off}")
            ob(lab + ".width", f["size"] == width, f"declared {f['size']} bytes, table says {width}")
            if kind not in ("bytes", "struct", "array", "any"):
                ob(lab + ".encoding", kind_of(f) == kind, f"declared {kind_of(f)}, table says {kind}")
            if len(row) > 4 and row[4] is not None:
                spec = row[4]
                if "count" in spec:
                    ob(lab + ".count", f.get("count") == spec["count"], f"declared {f.get('count')}, table {spec['count']}")
                if "element" in spec:
                    el = f.get("element", {})
                    sub = {x["name"]: x for x in el.get("fields", []) if x.get("name")}
                    for (n2, o2, w2, k2) in spec["element"]:
                        g = sub.get(n2)
                        ob(f"{lab}[].{n2}", g is not None and g["offset"] == o2 and g["size"] == w2 and kind_of(g) == k2,
                           f"declared {None if g is None else (g['offset'], g['size'], kind_of(g))}, table {(o2, w2, k2)}")
                if "mapping" in spec:
                    maps = f.get("mappings") or [{}]
                    got = {k: v for m in maps for k, v in m.items() if not k.startswith("__")}
                    for k, v in spec["mapping"].items():
                        norm = lambda x: str(x).upper().replace(" ", "_")
                        ob(f"{lab}.map[{k}]", norm(got.get(str(k))) == norm(v), f"declared {got.get(str(k))}, table {v}")
        for (expr_name, spec_fn, vars_) in table.get("exprs", []):
            # expression trees of SubStreamConstruct kwargs: prove equal to the specification for all field values
            f = by_name.get(expr_name[0])
            tree = (f or {}).get("kwargs", {}).get(expr_name[1])
            lab = f"layout:{key}.{expr_name[0]}.{expr_name[1]}"
            if tree is None:
                ob(lab, False, "expression missing")
                continue
            env = {v: z3.Int(v) for v in vars_}
            # Tell fields evaluate to their byte offset
            for tf in s["fields"]:
                if tf["class"] == "Tell" and tf.get("name"):
                    env[tf["name"]] = z3.IntVal(tf["offset"]) if tf["offset"] is not None else z3.Int(tf["name"])
            try:
                got = expr_z3(tree, env)
                want = spec_fn(env)
                sol = z3.Solver()
                sol.set("timeout", 20000)
                sol.add(got != want)
                r = sol.check()
                out.append({"label": lab, "status": {"unsat": "discharged", "sat": "refuted"}.get(str(r), "unknown"),
                            "detail": f"declared {got}, specified {want}" + (f", differs at {sol.model()}" if r == z3.sat else ""),
                            "backend": "z3-5.1.0"})
            except Exception as e:  # noqa
                out.append({"label": lab, "status": "unknown", "detail": repr(e), "backend": "evaluation"})
    return out
