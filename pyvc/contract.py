"""Contract DSL (sidecar contracts; nothing is written into /repo).

Importable under both interpreters (no z3 here).  Clause texts are Python expressions with
two readings: symbolic (pyvc.engine) and concrete (drivers/, CPython `eval`).
"""

REGISTRY = {}          # key -> Contract   (functions under proof and callee contracts)
ORDER = []


class LoopSpec:
    def __init__(self):
        self.invariants = []     # [(label, text)]
        self.decreases = None    # text (int expr) or tuple of texts (lexicographic)
        self.havoc = []          # [(lvalue text, desc or None)]
        self.unroll = None       # int: bounded mode for this loop
        self.steps = []          # [(label, text)]: obligations on ONE iteration; prev(e) = value of e at the start of the iteration

    def invariant(self, *texts):
        for t in texts:
            self.invariants.append((f"inv{len(self.invariants)}", t))
        return self

    def step(self, label, text):
        self.steps.append((label, text))
        return self

    def measure(self, *texts):
        self.decreases = texts
        return self

    def modifies(self, lvalue, desc=None):
        self.havoc.append((lvalue, desc))
        return self


class Contract:
    def __init__(self, key, props=()):
        self.key = key
        self.props = list(props)
        self.params = {}        # name -> desc (ordered)
        self.self_desc = None
        self.requires_ = []     # [(label, text)]
        self.ensures_ = []      # [(label, text)]
        self.raises_ = []       # [(exc name, when text, iff bool)]
        self.exc_ensures_ = []  # [(exc name, label, text)]: exceptional postconditions (state when the call ends with that exception)
        self.modifies_ = None   # list of lvalue texts, or None = unchecked
        self.returns_ = None    # desc of result (needed when used as a callee contract)
        self.loops = {}         # ordinal -> LoopSpec
        self.inline = True      # calls without a contract are inlined
        self.value_classes = {}  # class name -> field desc dict  (immutable value records)
        self.abstract = False   # contract without a body (library / abstract class)
        self.assumed = False    # assumed (trusted) contract, listed in the trusted base
        self.note = ""
        self.defs = {}          # spec definitions: name -> (params, text)
        self.ghost_ = {}        # ghost names bound at entry: name -> text
        self.bind = {}          # module-level name -> ("sym", desc, constraint text) overrides
        self.lemma_hints = []   # extra assumptions proven elsewhere: (label, text)
        self.cases = None       # optional list of (name, extra requires text) to split the proof
        self.max_paths = 4000
        self.ignore_calls = set()   # names of calls dropped (print, logging)
        self.variants = None    # list of dicts: run the proof once per variant (e.g. receiver class)
        self.recv_class = None  # class key of `self` when different from the defining class
        self.at_raise = set()
        self.call_cuts = []     # proof cuts at call sites: (callee key, when, label, text, ordinals)

    # -- declaration helpers
    def param(self, name, desc):
        self.params[name] = desc
        return self

    def self_obj(self, desc):
        self.self_desc = desc
        return self

    def requires(self, text, label=None):
        self.requires_.append((label or f"pre{len(self.requires_)}", text))
        return self

    def ensures(self, text, label=None):
        self.ensures_.append((label or f"post{len(self.ensures_)}", text))
        return self

    def raises(self, exc, when="True", iff=False, at_raise=False):
        """`when` is a pre-state predicate (evaluated at entry) unless at_raise=True, in which case it is
        read at the raise point and may mention the function's locals (ghost access)."""
        self.raises_.append((exc, when, iff))
        if at_raise:
            self.at_raise.add(len(self.raises_) - 1)
        return self

    def ensures_on_raise(self, exc, text, label=None):
        """Exceptional postcondition: holds of the state in which the function ends with exception `exc` (old() = entry state)."""
        self.exc_ensures_.append((exc, label or f"on-{exc}-{len(self.exc_ensures_)}", text))
        return self

    def modifies(self, *lvalues):
        self.modifies_ = list(lvalues)
        return self

    def returns(self, desc):
        self.returns_ = desc
        return self

    def loop(self, k):
        return self.loops.setdefault(k, LoopSpec())

    def at_call(self, callee, text, label, when="before", ordinals=None):
        """Proof cut (ghost assertion) at the calls of `callee` in the function under proof: `text`, read over the caller's locals and
        this contract's definitions, is an OBLIGATION of its own at that program point (before the call / after its normal return) and is
        assumed on the rest of the path.  Assert-then-assume: it can only split a proof into smaller VCs, never add an assumption.
        `ordinals`: the calls concerned, counted in source order among the calls of that callee in the function (None = all)."""
        assert when in ("before", "after")
        self.call_cuts.append((callee, when, label, text, None if ordinals is None else tuple(ordinals)))
        return self

    def define(self, name, params, text):
        self.defs[name] = (params, text)
        return self

    def value_class(self, name, fields):
        self.value_classes[name] = fields
        return self


def contract(key, props=(), **kw):
    def deco(fn):
        c = Contract(key, props)
        for k, v in kw.items():
            setattr(c, k, v)
        fn(c)
        c.defined_in = fn.__module__
        rk = kw.get("register_as", key)
        REGISTRY[rk] = c
        ORDER.append(rk)
        return fn
    return deco
