"""Path exploration by re-execution with decision scripts, path condition, obligations."""
import z3
from .values import PathEnd, EngineError


class Obligation:
    __slots__ = ("label", "pc", "goal", "kind", "path", "status", "backend", "time", "info", "func")

    def __init__(self, label, pc, goal, kind, path, func):
        self.label = label
        self.pc = pc
        self.goal = goal
        self.kind = kind
        self.path = path
        self.func = func
        self.status = None
        self.backend = None
        self.time = 0.0
        self.info = None

    def smt2(self):
        s = z3.Solver()
        for p in self.pc:
            s.add(p)
        s.add(z3.Not(self.goal))
        return s.to_smt2()


class Explorer:
    """Depth-first exploration of decision scripts.  A run is re-executed from the start for
    every script; obligations are recorded only once the run is past its forced prefix."""

    def __init__(self, func_key, max_paths=4000, feas_timeout_ms=1500):
        self.func_key = func_key
        self.worklist = [[]]
        self.obligations = []
        self.paths = 0
        self.ended = {}
        self.max_paths = max_paths
        self.feas_timeout_ms = feas_timeout_ms
        self.cover = {}           # label -> reached (vacuity guards)
        self.run = None

    def next_run(self):
        if not self.worklist:
            return None
        if self.paths >= self.max_paths:
            raise EngineError(f"path budget exceeded ({self.max_paths}) in {self.func_key}")
        script = self.worklist.pop()
        self.paths += 1
        # deterministic symbol names: every run re-executes from the start, so resetting the
        # counter makes the symbols of a shared prefix (in particular the parameters) identical
        from . import values as _v
        import itertools as _it
        _v._counter = _it.count()
        self.run = Run(self, script)
        return self.run


class Run:
    def __init__(self, explorer, script):
        self.ex = explorer
        self.script = list(script)
        self.forced = len(script)
        self.pos = 0
        self.pc = []
        self.trace = []

    def assume(self, cond):
        if cond is True:
            return
        if cond is False:
            raise PathEnd("assume false")
        c = z3.simplify(cond)
        if z3.is_true(c):
            return
        if z3.is_false(c):
            raise PathEnd("assume false")
        self.pc.append(cond)

    def feasible(self, cond):
        c = z3.simplify(cond) if isinstance(cond, z3.ExprRef) else z3.BoolVal(bool(cond))
        if z3.is_true(c):
            return True
        if z3.is_false(c):
            return False
        s = z3.Solver()
        s.set("timeout", self.ex.feas_timeout_ms)
        for p in self.pc:
            s.add(p)
        s.add(c)
        return s.check() != z3.unsat

    def choose(self, conds, names=None, prune=True):
        """Pick one alternative; its condition joins the path condition."""
        if self.pos < len(self.script):
            idx = self.script[self.pos]
        else:
            if prune:
                feas = [i for i, c in enumerate(conds) if self.feasible(c)]
            else:
                feas = list(range(len(conds)))
            if not feas:
                raise PathEnd("infeasible")
            idx = feas[0]
            for alt in reversed(feas[1:]):
                self.ex.worklist.append(self.script[:self.pos] + [alt])
            self.script.append(idx)
        self.pos += 1
        c = conds[idx]
        if not (c is True):
            if isinstance(c, z3.ExprRef):
                if not z3.is_true(c):
                    self.pc.append(c)
            elif c is False:
                raise PathEnd("infeasible")
        self.trace.append(names[idx] if names else idx)
        return idx

    def branch(self, cond):
        """Boolean decision. Returns a Python bool."""
        if isinstance(cond, bool):
            return cond
        c = z3.simplify(cond)
        if z3.is_true(c):
            return True
        if z3.is_false(c):
            return False
        return self.choose([c, z3.Not(c)], names=["T", "F"]) == 0

    def recording(self):
        return self.pos >= self.forced

    def oblige(self, label, goal, kind="assert"):
        if not self.recording():
            return
        if isinstance(goal, bool):
            goal = z3.BoolVal(goal)
        ob = Obligation(label, list(self.pc), goal, kind, tuple(self.script[:self.pos]), self.ex.func_key)
        self.ex.obligations.append(ob)

    def reached(self, label):
        self.ex.cover[label] = True
