"""Assumed library contracts: numpy / math / os models (DESIGN Appendix B)."""
import z3
from .values import *
from .ops import list_len, list_get, to_symbolic, zmax, zmin


def call_library(interp, kind, name, args, kwargs, fr):
    if kind == "np":
        return np_call(interp, name, args, kwargs, fr)
    if kind == "math":
        if name == "floor":
            v = args[0]
            if not is_z3(v):
                import math
                return math.floor(v)
            return z3.ToInt(v) if z3.is_real(v) else v
    if kind == "re" and name in ("match", "compile"):
        pat = args[0]
        if not isinstance(pat, str):
            raise Unsupported("re with a symbolic pattern")
        flags = args[2] if (name == "match" and len(args) > 2) else kwargs.get("flags", 0)
        rx = RegexV(pat, int(flags) | 32)
        if name == "compile":
            return rx
        from . import strings
        return strings.regex_method(interp, rx, "match", [args[1]], {}, fr)
    raise Unsupported(f"library call {kind}.{name}")


def _as_nd(interp, v, fr):
    if isinstance(v, NdV):
        return v
    if isinstance(v, ListV):
        l = v
        if l.items is not None:
            items = list(l.items)
            if all(isinstance(x, NdV) for x in items):
                return NdV((len(items),) + tuple(items[0].shape),
                           lambda idx: _pick(items, idx[0]).fn(tuple(idx[1:])))
            l = to_symbolic(l.copy())
        return NdV((l.length,), lambda idx, l=l: z3.Select(l.arr, zint(idx[0])))
    raise Unsupported(f"array-like {v!r}")


def _pick_row(rows, c, rest):
    """rows[c].fn(rest) for a concrete or symbolic row number c (ite chain; items may be byte tuples)."""
    if isinstance(c, int):
        return rows[c].fn(rest)
    vals = [r.fn(rest) for r in rows]
    cz = zint(c)
    if isinstance(vals[0], tuple):
        out = []
        for k in range(len(vals[0])):
            e = zint(vals[-1][k])
            for j in range(len(vals) - 2, -1, -1):
                e = z3.If(cz == j, zint(vals[j][k]), e)
            out.append(e)
        return tuple(out)
    e = zval(vals[-1])
    for j in range(len(vals) - 2, -1, -1):
        e = z3.If(cz == j, zval(vals[j]), e)
    return e


def _pick(items, i):
    if isinstance(i, int):
        return items[i]
    raise Unsupported("symbolic row pick among arrays")


_WIDTHS = {"int8": 1, "uint8": 1, "int16": 2, "uint16": 2, "int32": 4, "uint32": 4, "int64": 8, "uint64": 8}


def dtype_width(dt):
    """Item width in bytes of a dtype value of the model (Opaque(('dtype', name))), or None when unknown."""
    if isinstance(dt, Opaque) and isinstance(dt.what, tuple) and dt.what[0] == "dtype":
        nm = dt.what[1]
        if isinstance(nm, Opaque):
            return dtype_width(nm)
        if isinstance(nm, str):
            return _WIDTHS.get(nm.lstrip("<>=|"))
    return None


def np_call(interp, name, args, kwargs, fr):
    T = interp.trusted
    if name == "dtype":
        return Opaque(("dtype", args[0]))
    if name == "frombuffer" and (dtype_width(args[1] if len(args) > 1 else kwargs.get("dtype")) or 1) > 1:
        # items of w > 1 bytes: an item IS its w memory bytes (a tuple, memory order); nothing in this model interprets them as numbers
        dt = args[1] if len(args) > 1 else kwargs.get("dtype")
        w = dtype_width(dt)
        T.add("numpy: frombuffer(b, dtype of w bytes) needs len(b) % w == 0 and yields len(b)//w items, item i = the memory bytes b[w*i .. w*i+w-1]; "
              "tobytes writes the items' memory bytes back in order")
        raw = args[0]
        if not isinstance(raw, ListV):
            raise Unsupported("frombuffer of non-bytes")
        l = to_symbolic(raw.copy()) if raw.items is not None else raw
        ln = zint(l.length)
        if not fr.spec and not interp.run.branch(ln % w == 0):
            interp.py_raise("ValueError")
        return NdV((z3.simplify(ln / w),), lambda idx, l=l, w=w: tuple(z3.Select(l.arr, zint(idx[0]) * w + k) for k in range(w)), dtype=dt)
    if name == "pad":
        # np.pad(a, (0, N), "linear_ramp", end_values=...): a followed by N further items (their values: uninterpreted)
        a = _as_nd(interp, args[0], fr)
        widths = args[1]
        if isinstance(widths, ListV):
            widths = tuple(widths.items)
        if len(a.shape) != 1 or not (isinstance(widths, tuple) and len(widths) == 2 and widths[0] == 0):
            raise Unsupported("np.pad other than appending to a 1-D array")
        T.add("numpy: pad(a, (0, N), 'linear_ramp') is a followed by N items (N >= 0; ValueError for an empty a with N > 0); the appended values are not interpreted")
        N = zint(widths[1])
        la = zint(a.shape[0])
        # numpy refuses to extend an EMPTY axis with any mode but 'constant' / 'empty'
        if not fr.spec and not interp.run.branch(z3.Not(z3.And(la == 0, N > 0))):
            interp.py_raise("ValueError")
        w = dtype_width(a.dtype) or 1
        tag = fresh_name("padfill")
        fills = [z3.Function(f"{tag}_{k}", z3.IntSort(), z3.IntSort()) for k in range(w)]

        def fn(idx, a=a, la=la):
            i = zint(idx[0])
            cur = a.fn((i,))
            if isinstance(cur, tuple):
                return tuple(z3.If(i < la, zint(cur[k]), fills[k](i)) for k in range(len(cur)))
            return z3.If(i < la, zval(cur), fills[0](i))
        return NdV((z3.simplify(la + z3.If(N > 0, N, 0)),), fn, a.dtype)
    if name == "vstack":
        rows = args[0]
        if isinstance(rows, ListV):
            if rows.items is None:
                raise Unsupported("vstack of a symbolic-length list")
            rows = rows.items
        rows = [_as_nd(interp, r, fr) for r in rows]
        if not rows or any(len(r.shape) != 1 for r in rows):
            raise Unsupported("vstack of other than 1-D rows")
        T.add("numpy: vstack(rows) needs rows of equal length L and is the len(rows) x L array with out[c][f] = rows[c][f]")
        L = zint(rows[0].shape[0])
        same = z3.And([zint(r.shape[0]) == L for r in rows[1:]]) if len(rows) > 1 else z3.BoolVal(True)
        if not fr.spec and not interp.run.branch(same):
            interp.py_raise("ValueError")
        return NdV((len(rows), z3.simplify(L)), lambda idx, rows=rows: _pick_row(rows, idx[0], (idx[1],)), rows[0].dtype)
    if name == "frombuffer":
        T.add("numpy: frombuffer(b, int8/uint8-like view) yields len(b) items, item k = b[k]; tobytes inverts it")
        raw = args[0]
        if not isinstance(raw, ListV):
            raise Unsupported("frombuffer of non-bytes")
        l = to_symbolic(raw.copy()) if raw.items is not None else raw
        return NdV((l.length,), lambda idx, l=l: z3.Select(l.arr, zint(idx[0])), dtype=args[1] if len(args) > 1 else kwargs.get("dtype"))
    if name == "reshape":
        a = _as_nd(interp, args[0], fr)
        shape = args[1]
        return nd_reshape(interp, a, shape, fr)
    if name == "flip":
        T.add("numpy: flip(a, 0) reverses the order of rows: out[i] = a[rows-1-i]")
        a = _as_nd(interp, args[0], fr)
        axis = args[1] if len(args) > 1 else kwargs.get("axis")
        if axis != 0:
            raise Unsupported("flip axis")
        n = a.shape[0]
        return NdV(a.shape, lambda idx: a.fn((zint(n) - 1 - zint(idx[0]),) + tuple(idx[1:])), a.dtype)
    if name == "zeros":
        n = args[0]
        if isinstance(n, tuple) and len(n) == 1:
            n = n[0]                  # np.zeros((n,)): a 1-D array
        if isinstance(n, (tuple, ListV)):
            raise Unsupported("np.zeros with a multi-dimensional shape")
        return NdV((zmax(n, 0) if is_z3(n) else max(n, 0),), lambda idx: z3.IntVal(0), kwargs.get("dtype"))
    if name == "concatenate":
        T.add("numpy: concatenate([a, b]) has length len(a)+len(b), items of a then items of b")
        parts = args[0]
        if isinstance(parts, ListV) and parts.items is not None:
            parts = parts.items
        parts = [_as_nd(interp, p_, fr) for p_ in parts]
        if len(parts) != 2 or any(len(p_.shape) != 1 for p_ in parts):
            raise Unsupported("concatenate of other than two 1-D arrays")
        a, b = parts
        la = zint(a.shape[0])
        return NdV((z3.simplify(la + zint(b.shape[0])),),
                   lambda idx, a=a, b=b, la=la: z3.If(zint(idx[0]) < la, zval(a.fn((idx[0],))), zval(b.fn((zint(idx[0]) - la,)))), a.dtype)
    if name == "size":
        a = _as_nd(interp, args[0], fr)
        return a.shape[0]
    if name == "asarray":
        v = args[0]
        if isinstance(v, ListV) and v.items is not None and not v.items:
            return NdV((0,), lambda idx: z3.IntVal(0), kwargs.get("dtype"))
        return _as_nd(interp, v, fr)
    if name == "convolve":
        # assumed contract (DESIGN C19): "valid" convolution is a window function:
        #   len = len(x) - N + 1,  out[i] = W_N(x[i], ..., x[i+N-1])   for an uninterpreted W_N (any arithmetic)
        x, h = _as_nd(interp, args[0], fr), _as_nd(interp, args[1], fr)
        mode = args[2] if len(args) > 2 else kwargs.get("mode")
        N = h.shape[0]
        if mode != "valid" or not isinstance(N, int):
            raise Unsupported("np.convolve: only mode 'valid' with a kernel of concrete length is modelled")
        T.add("numpy: convolve(x, h, 'valid') (len(x) >= len(h) = N) has length len(x)-N+1 and out[i] depends only on x[i..i+N-1] (and h)")
        W = z3.Function(f"W_{N}", *([z3.IntSort()] * (N + 1)))
        n = zint(x.shape[0]) - N + 1
        return NdV((z3.simplify(n),), lambda idx, x=x: W(*[zint(x.fn((zint(idx[0]) + k,))) for k in range(N)]), None)
    raise Unsupported(f"np.{name}")


def nd_reshape(interp, a, shape, fr, order="C"):
    interp.trusted.add("numpy: reshape(a, [r, c]) in C order: out[i][k] = a.flat[i*c + k]; requires r*c == size")
    if isinstance(shape, ListV):
        if shape.items is None:
            raise Unsupported("symbolic shape")
        shape = tuple(shape.items)
    if len(a.shape) == 2 and len(shape) == 1 and shape[0] == -1:
        r, c = a.shape
        if order == "F":
            interp.trusted.add("numpy: reshape((-1,), order='F') of an r x c array walks columns first: out[i] = a[i % r][i // r]")
            if not isinstance(r, int) or r <= 0:
                raise Unsupported("column-major flattening with a symbolic row count")
            return NdV((z3.simplify(r * zint(c)),), lambda idx, a=a, r=r: a.fn((zint(idx[0]) % r, zint(idx[0]) / r)), a.dtype)
        return nd_method(interp, a, "flatten", [], {}, fr)
    if len(a.shape) == 1 and len(shape) == 2 and shape[0] == -1 and isinstance(shape[1], int) and shape[1] > 0:
        interp.trusted.add("numpy: reshape((-1, c)) of a 1-D array needs size % c == 0 and has size//c rows")
        c = shape[1]
        n = zint(a.shape[0])
        if not fr.spec and not interp.run.branch(n % c == 0):
            interp.py_raise("ValueError")
        return NdV((z3.simplify(n / c), c), lambda idx, a=a, c=c: a.fn((zint(idx[0]) * c + zint(idx[1]),)), a.dtype)
    if len(a.shape) != 1 or len(shape) != 2:
        raise Unsupported("reshape rank")
    r, c = shape
    n = a.shape[0]
    ok = zint(r) * zint(c) == zint(n)
    if not fr.spec:
        if not interp.run.branch(ok):
            interp.py_raise("ValueError")
    return NdV((r, c), lambda idx: a.fn((zint(idx[0]) * zint(c) + zint(idx[1]),)), a.dtype)


def nd_method(interp, a, name, args, kwargs, fr):
    if name == "flatten":
        interp.trusted.add("numpy: flatten(order='C') of an r x c array: out[j] = a[j // c][j % c]")
        if len(a.shape) == 1:
            return a
        r, c = a.shape
        if is_z3(c):
            interp.run.oblige(interp.label("flatten.cols-positive"), zint(c) > 0, kind="implicit")
            interp.run.assume(zint(c) > 0)
        return NdV((zint(r) * zint(c),), lambda idx: a.fn((zint(idx[0]) / zint(c), zint(idx[0]) % zint(c))), a.dtype)
    if name == "byteswap":
        interp.trusted.add("numpy: byteswap() reverses the memory bytes of every item")
        return NdV(a.shape, lambda idx, a=a: (lambda v: tuple(reversed(v)) if isinstance(v, tuple) else v)(a.fn(tuple(idx))), a.dtype)
    if name == "tobytes" and len(a.shape) == 1 and (dtype_width(a.dtype) or 1) > 1:
        w = dtype_width(a.dtype)
        j = z3.Int(fresh_name("j"))
        item = a.fn((j / w,))
        if not isinstance(item, tuple) or len(item) != w:
            raise Unsupported("tobytes: item representation does not match the dtype width")
        e = zint(item[w - 1])
        for k in range(w - 2, -1, -1):
            e = z3.If(j % w == k, zint(item[k]), e)
        n = zint(a.shape[0])
        return ListV(None, z3.simplify(n * w), z3.Lambda([j], e), "int", "bytes")
    if name == "tobytes":
        if len(a.shape) != 1:
            raise Unsupported("tobytes of nd array")
        j = z3.Int(fresh_name("j"))
        n = a.shape[0]
        return ListV(None, z3.simplify(zint(n)) if is_z3(n) else n, z3.Lambda([j], a.fn((j,))), "int", "bytes")
    if name == "reshape":
        return nd_reshape(interp, a, args[0] if len(args) == 1 else tuple(args), fr, order=kwargs.get("order", "C"))
    if name == "astype" and dtype_width(a.dtype) is not None and (dtype_width(a.dtype) > 1 or dtype_width(args[0] if args else None) == 1):
        tw = dtype_width(args[0] if args else None)
        if tw != dtype_width(a.dtype):
            raise Unsupported("astype between item widths")
        interp.trusted.add("numpy: astype between integer dtypes of the same width and byte order keeps every item's memory bytes")
        return NdV(a.shape, a.fn, args[0])
    if name == "astype":
        interp.trusted.add("numpy: astype is elementwise (out[i] = cast(in[i]); same length)")
        cast = z3.Function("np_astype", z3.IntSort(), z3.IntSort())
        return NdV(a.shape, lambda idx, a=a: cast(zint(a.fn(tuple(idx)))), args[0] if args else None)
    raise Unsupported(f"ndarray.{name}")
