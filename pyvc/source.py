"""Index of the real repository source (re-read with `ast` on every run).

Nothing is copied: functions are located by qualified name in the files under
$VERIF_REPO (default /repo); file, line span and SHA-256 of the function text are
recorded for the evidence.  A function that no longer exists is an *anchor lost*.
"""
import ast
import hashlib
import os
import re

REPO = os.environ.get("VERIF_REPO", "/repo")


class AnchorLost(Exception):
    pass


class FuncInfo:
    def __init__(self, module, qualname, node, cls, path, src_lines):
        self.module = module
        self.qualname = qualname
        self.node = node
        self.cls = cls                # ClassInfo or None
        self.path = path
        seg = "\n".join(src_lines[node.lineno - 1:node.end_lineno])
        self.sha = hashlib.sha256(seg.encode()).hexdigest()[:16]
        self.lines = (node.lineno, node.end_lineno)
        self.decorators = [ast.unparse(d) for d in node.decorator_list]

    @property
    def key(self):
        return f"{self.module}:{self.qualname}"

    def describe(self):
        return {"function": self.key, "file": os.path.relpath(self.path, REPO),
                "lines": list(self.lines), "sha256_16": self.sha}


class ClassInfo:
    def __init__(self, module, name, node):
        self.module = module
        self.name = name
        self.node = node
        self.bases = []            # names as written
        for b in node.bases:
            if isinstance(b, ast.Name):
                self.bases.append(b.id)
            elif isinstance(b, ast.Attribute):
                self.bases.append(b.attr)
            elif isinstance(b, ast.Subscript) and isinstance(b.value, ast.Name):
                self.bases.append(b.value.id)     # Generic[...]
        self.methods = {}          # name -> FuncInfo
        self.class_attrs = {}      # name -> ast expr (simple assignments in body)
        self.ann_fields = []       # [(name, default expr or None, annotation src)] dataclass fields in order
        self.is_dataclass = any("dataclass" in ast.unparse(d) for d in node.decorator_list)

    @property
    def key(self):
        return f"{self.module}:{self.name}"


class ModuleInfo:
    def __init__(self, name, path):
        self.name = name
        self.path = path
        with open(path, "r", encoding="utf-8") as f:
            self.text = f.read()
        self.lines = self.text.split("\n")
        self.tree = ast.parse(self.text, filename=path)
        self.functions = {}
        self.classes = {}
        self.assigns = {}     # module-level simple assignments: name -> ast expr
        self.imports = {}     # local name -> (module, original name)
        self.lambdas = {}     # lineno -> ast.Lambda
        for node in self.tree.body:
            self._top(node)
        for n in ast.walk(self.tree):
            if isinstance(n, ast.Lambda):
                self.lambdas.setdefault(n.lineno, n)

    def _top(self, node):
        if isinstance(node, (ast.FunctionDef,)):
            self.functions[node.name] = FuncInfo(self.name, node.name, node, None, self.path, self.lines)
        elif isinstance(node, ast.ClassDef):
            ci = ClassInfo(self.name, node.name, node)
            for sub in node.body:
                if isinstance(sub, ast.FunctionDef):
                    ci.methods[sub.name] = FuncInfo(self.name, f"{node.name}.{sub.name}", sub, ci,
                                                    self.path, self.lines)
                elif isinstance(sub, ast.Assign) and len(sub.targets) == 1 and isinstance(sub.targets[0], ast.Name):
                    ci.class_attrs[sub.targets[0].id] = sub.value
                elif isinstance(sub, ast.AnnAssign) and isinstance(sub.target, ast.Name):
                    ann = ast.unparse(sub.annotation)
                    if ann.startswith("ClassVar"):
                        if sub.value is not None:
                            ci.class_attrs[sub.target.id] = sub.value
                    else:
                        ci.ann_fields.append((sub.target.id, sub.value, ann))
            self.classes[node.name] = ci
        elif isinstance(node, ast.Assign) and len(node.targets) == 1 and isinstance(node.targets[0], ast.Name):
            self.assigns[node.targets[0].id] = node.value
        elif isinstance(node, ast.ImportFrom):
            mod = node.module or ""
            if node.level:
                base = self.name.split(".")
                base = base[:len(base) - node.level]
                mod = ".".join(base + ([mod] if mod else []))
            for a in node.names:
                self.imports[a.asname or a.name] = (mod, a.name)
        elif isinstance(node, ast.Import):
            for a in node.names:
                self.imports[a.asname or a.name] = (a.name, None)


class SourceIndex:
    def __init__(self, repo=None):
        self.repo = repo or REPO
        self.modules = {}

    def module(self, name):
        if name not in self.modules and name.startswith("pyx:"):
            # "pyx:<relative path>:<ClassName>": a plain-Python class extracted mechanically from a .pyx file
            _, rel, cls = name.split(":")
            path = os.path.join(self.repo, rel)
            if not os.path.exists(path):
                raise AnchorLost(f"{rel} not found")
            text, l0, l1 = extract_pyx_class(path, cls)
            m = ModuleInfo.__new__(ModuleInfo)
            m.name, m.path, m.text = name, path, text
            m.lines = text.split("\n")
            m.tree = ast.parse(text)
            m.functions, m.classes, m.assigns, m.imports, m.lambdas = {}, {}, {}, {}, {}
            for node in m.tree.body:
                m._top(node)
            m.pyx_span = (l0, l1)
            self.modules[name] = m
        if name not in self.modules and name.startswith("pyxfn:"):
            # "pyxfn:<relative path>:<f1>,<f2>": scalar `cdef` functions of a .pyx file translated mechanically (translate_cdef_function)
            _, rel, fns = name.split(":")
            path = os.path.join(self.repo, rel)
            if not os.path.exists(path):
                raise AnchorLost(f"{rel} not found")
            text = "\n\n".join(translate_cdef_function(path, fn) for fn in fns.split(","))
            m = ModuleInfo.__new__(ModuleInfo)
            m.name, m.path, m.text = name, path, text
            m.lines = text.split("\n")
            m.tree = ast.parse(text)
            m.functions, m.classes, m.assigns, m.imports, m.lambdas = {}, {}, {}, {}, {}
            for node in m.tree.body:
                m._top(node)
            self.modules[name] = m
        if name not in self.modules:
            rel = name.replace(".", "/")
            cands = [os.path.join(self.repo, rel + ".py"), os.path.join(self.repo, rel, "__init__.py")]
            for p in cands:
                if os.path.exists(p):
                    self.modules[name] = ModuleInfo(name, p)
                    break
            else:
                raise AnchorLost(f"module {name} not found under {self.repo}")
        return self.modules[name]

    def has_module(self, name):
        try:
            self.module(name)
            return True
        except (AnchorLost, SyntaxError):
            return False

    def func(self, key):
        mod, qn = key.rsplit(":", 1)
        m = self.module(mod)
        parts = qn.split(".")
        if len(parts) == 1:
            if parts[0] in m.functions:
                return m.functions[parts[0]]
        elif len(parts) == 2:
            c = m.classes.get(parts[0])
            if c and parts[1] in c.methods:
                return c.methods[parts[1]]
        raise AnchorLost(f"function {key} not found")

    def cls(self, key):
        mod, name = key.rsplit(":", 1)
        m = self.module(mod)
        if name in m.classes:
            return m.classes[name]
        raise AnchorLost(f"class {key} not found")

    def resolve_class_name(self, module, name):
        """Resolve a class *name* as seen from `module` to a ClassInfo (follows imports), or None."""
        seen = set()
        while (module, name) not in seen:
            seen.add((module, name))
            if not self.has_module(module):
                return None
            m = self.module(module)
            if name in m.classes:
                return m.classes[name]
            if name in m.imports:
                module, orig = m.imports[name]
                name = orig or name
                continue
            return None
        return None

    def mro(self, ci):
        """Linearisation good enough for the repo's hierarchies (depth-first, left to right,
        duplicates removed keeping the last occurrence as C3 would for these diamond-free trees)."""
        out = []

        def walk(c):
            out.append(c)
            for b in c.bases:
                bc = self.resolve_class_name(c.module, b)
                if bc is not None:
                    walk(bc)
        walk(ci)
        res = []
        for i, c in enumerate(out):
            if all(c.key != d.key for d in out[i + 1:]):
                res.append(c)
        return res

    def find_method(self, ci, name, after=None):
        """Method lookup along the MRO; with `after` (a ClassInfo) start after that class (super())."""
        chain = self.mro(ci)
        if after is not None:
            keys = [c.key for c in chain]
            if after.key in keys:
                chain = chain[keys.index(after.key) + 1:]
        for c in chain:
            if name in c.methods:
                return c.methods[name]
        return None

    def find_class_attr(self, ci, name):
        for c in self.mro(ci):
            if name in c.class_attrs:
                return c, c.class_attrs[name]
        return None, None

    def dataclass_fields(self, ci):
        """Fields of a @dataclass in definition order over the MRO (base classes first)."""
        fields = []
        names = {}
        for c in reversed(self.mro(ci)):
            if not c.is_dataclass:
                continue
            for (n, d, ann) in c.ann_fields:
                if n in names:
                    fields[names[n]] = (n, d, ann, c)
                else:
                    names[n] = len(fields)
                    fields.append((n, d, ann, c))
        return fields


def extract_pyx_class(path, class_name):
    """Mechanical extraction of a plain-Python class from a .pyx file: from the line
    `class <name>` to the next top-level statement.  Drops nothing inside the block."""
    with open(path, "r", encoding="utf-8") as f:
        lines = f.read().split("\n")
    start = None
    for i, l in enumerate(lines):
        if re.match(rf"class\s+{re.escape(class_name)}\b", l):
            start = i
            break
    if start is None:
        raise AnchorLost(f"class {class_name} not found in {path}")
    end = len(lines)
    for j in range(start + 1, len(lines)):
        l = lines[j]
        if l and not l[0].isspace() and not l.startswith("#"):
            end = j
            break
    text = "\n".join(lines[start:end])
    return text, start + 1, end


C_SCALARS = ("short", "int", "long", "double", "float")


def translate_cdef_function(path, fn_name):
    """Mechanical translation of ONE scalar `cdef` function of a .pyx file into Python text (re-done from the working tree on every run).
    What it does, and all it does:
      * header  `cdef <T> f(<T1> a, <T2> b):`      ->  `def f(a, b):`            (C types of the parameters are dropped: arguments are taken as
                                                                                   values of those types already)
      * `cdef <T> v = e`                           ->  `v = c_cast_<T>(e)`        (an initialised C local; v is remembered as having type T)
      * `v = e` for such a v                       ->  `v = c_cast_<T>(e)`        (C converts on assignment)
      * `<T> e` (cast, to the end of the line)     ->  `c_cast_<T>(e)`
      * `return e`                                 ->  `return c_cast_<T>(e)`     with T the declared return type
    Comments and blank lines are kept.  Anything else that is not plain Python (uninitialised `cdef` locals, pointers, memory views, typed loops)
    makes the function untranslatable: AnchorLost, never a guess.  `c_cast_*`, `cround` (libc round) and `trunc` are engine built-ins."""
    with open(path, "r", encoding="utf-8") as f:
        lines = f.read().split("\n")
    types = "|".join(C_SCALARS)
    head = None
    for i, l in enumerate(lines):
        mm = re.match(rf"cdef\s+({types})\s+{re.escape(fn_name)}\((.*)\)\s*:\s*$", l)
        if mm:
            head = (i, mm)
            break
    if head is None:
        raise AnchorLost(f"cdef function {fn_name} not found in {path} (or not of a scalar return type)")
    i0, mm = head
    ret_t = mm.group(1)
    params = []
    for part in [x.strip() for x in mm.group(2).split(",") if x.strip()]:
        pm = re.match(rf"({types})\s+(\w+)$", part)
        if not pm:
            raise AnchorLost(f"{fn_name}: parameter {part!r} is not a plain C scalar")
        params.append(pm.group(2))
    out = [f"def {fn_name}({', '.join(params)}):"]
    local_t = {}

    def casts(expr):
        cm = re.match(rf"^(.*?)<({types})>\s*(.*)$", expr)
        if cm:
            return cm.group(1) + f"c_cast_{cm.group(2)}(" + casts(cm.group(3)) + ")"
        return expr
    for l in lines[i0 + 1:]:
        if l and not l[0].isspace() and not l.startswith("#"):
            break
        body = l.split("#", 1)[0].rstrip()
        if not body.strip():
            out.append(l)
            continue
        ind = body[:len(body) - len(body.lstrip())]
        st = body.strip()
        dm = re.match(rf"cdef\s+({types})\s+(\w+)\s*=\s*(.+)$", st)
        if dm:
            local_t[dm.group(2)] = dm.group(1)
            out.append(f"{ind}{dm.group(2)} = c_cast_{dm.group(1)}({casts(dm.group(3))})")
            continue
        if st.startswith("cdef"):
            raise AnchorLost(f"{fn_name}: {st!r} is outside the translatable subset")
        am = re.match(r"(\w+)\s*=\s*(.+)$", st)
        if am and am.group(1) in local_t:
            out.append(f"{ind}{am.group(1)} = c_cast_{local_t[am.group(1)]}({casts(am.group(2))})")
            continue
        rm = re.match(r"return\s+(.+)$", st)
        if rm:
            out.append(f"{ind}return c_cast_{ret_t}({casts(rm.group(1))})")
            continue
        if "[" in st or "*" in st and "**" not in st and re.search(r"\w\s*\*\s*\w", st) is None or "&" in st:
            raise AnchorLost(f"{fn_name}: {st!r} is outside the translatable subset")
        out.append(ind + casts(st))
    while out and not out[-1].strip():
        out.pop()
    return "\n".join(out)
