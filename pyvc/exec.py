"""Statements, loop cuts, contract application, top-level function verification."""
import ast
import z3
from .values import *
from . import ops
from .ops import (fresh, list_len, list_get, list_set, list_append, list_concat, list_slice,
                  list_repeat, val_eq, truth, znot, zand, zor, zimplies, zite, zmin, zmax, to_symbolic, desc_of)
from .interp import Frame, parse_expr
from .evalexpr import EvalMixin
from .builtins_ import BuiltinMixin


def _has_alias(desc):
    return isinstance(desc, tuple) and desc[0] == "tuple" and any(isinstance(d, tuple) and d[0] == "alias" for d in desc[1])


def assigned_names(stmts):
    names = set()

    def tgt(t):
        if isinstance(t, ast.Name):
            names.add(t.id)
        elif isinstance(t, (ast.Tuple, ast.List)):
            for e in t.elts:
                tgt(e)
        elif isinstance(t, ast.Starred):
            tgt(t.value)

    for s in stmts:
        for n in ast.walk(s):
            if isinstance(n, ast.Assign):
                for t in n.targets:
                    tgt(t)
            elif isinstance(n, (ast.AugAssign, ast.AnnAssign)):
                tgt(n.target)
            elif isinstance(n, (ast.For, ast.comprehension)):
                if isinstance(n, ast.For):
                    tgt(n.target)
            elif isinstance(n, ast.NamedExpr):
                tgt(n.target)
            elif isinstance(n, ast.ExceptHandler) and n.name:
                names.add(n.name)
            elif isinstance(n, ast.With):
                for it in n.items:
                    if it.optional_vars is not None:
                        tgt(it.optional_vars)
    return names


def mutated_exprs(stmts):
    """Syntactic in-place mutations in a loop body: X.append(..), X[i] = .., X.a = .., X += .."""
    out = []
    for s in stmts:
        for n in ast.walk(s):
            if isinstance(n, ast.Call) and isinstance(n.func, ast.Attribute) and \
                    n.func.attr in ("append", "extend", "pop", "clear", "insert"):
                out.append(("list", n.func.value))
            elif isinstance(n, (ast.Assign, ast.AugAssign)):
                targets = n.targets if isinstance(n, ast.Assign) else [n.target]
                for t in targets:
                    for e in ([t] if not isinstance(t, (ast.Tuple, ast.List)) else t.elts):
                        if isinstance(e, ast.Subscript):
                            out.append(("list", e.value))
                        elif isinstance(e, ast.Attribute):
                            out.append(("attr", e))
    return out


class Interp(EvalMixin, BuiltinMixin):

    # ------------------------------------------------------------ statements
    def ex_block(self, stmts, fr):
        for s in stmts:
            self.ex(s, fr)

    def ex(self, node, fr):
        self.cur_line = getattr(node, "lineno", 0)
        m = getattr(self, "ex_" + type(node).__name__, None)
        if m is None:
            raise Unsupported(f"statement {type(node).__name__} at line {node.lineno}")
        m(node, fr)

    def ex_Expr(self, node, fr):
        if isinstance(node.value, ast.Constant):
            return
        self.ev(node.value, fr)

    def ex_Pass(self, node, fr):
        pass

    def ex_Delete(self, node, fr):
        for t in node.targets:
            for e in (t.elts if isinstance(t, ast.Tuple) else [t]):
                if isinstance(e, ast.Name):
                    fr.locals.pop(e.id, None)
                else:
                    raise Unsupported("del of non-name")

    def ex_Assign(self, node, fr):
        v = self.ev(node.value, fr)
        for t in node.targets:
            self.bind_target(t, v, fr)

    def ex_AnnAssign(self, node, fr):
        if node.value is not None:
            self.bind_target(node.target, self.ev(node.value, fr), fr)

    def ex_AugAssign(self, node, fr):
        t = node.target
        if isinstance(t, ast.Name):
            cur = self.ev(t, fr)
            rhs = self.ev(node.value, fr)
            if isinstance(cur, ListV) and cur.kind == "list" and isinstance(node.op, ast.Add):
                # list += iterable mutates in place
                self.log_write(cur, "*")
                cur.assign_from(list_concat(cur, self.as_list(rhs, fr)))
                return
            fr.locals[t.id] = self.binop(fr, node.op, cur, rhs)
        elif isinstance(t, ast.Attribute):
            obj = self.ev(t.value, fr)
            cur = self.get_attr(fr, obj, t.attr)
            rhs = self.ev(node.value, fr)
            if isinstance(cur, ListV) and cur.kind == "list" and isinstance(node.op, ast.Add):
                self.log_write(cur, "*")
                cur.assign_from(list_concat(cur, self.as_list(rhs, fr)))
                return
            self.set_attr(obj, t.attr, self.binop(fr, node.op, cur, rhs))
        elif isinstance(t, ast.Subscript):
            base = self.ev(t.value, fr)
            i = self.ev(t.slice, fr)
            cur = self.index_value(fr, base, i)
            rhs = self.ev(node.value, fr)
            self.store_index(fr, base, i, self.binop(fr, node.op, cur, rhs))
        else:
            raise Unsupported("augmented assignment target")

    def ex_If(self, node, fr):
        c = truth(self.ev(node.test, fr))
        if self.run.branch(c):
            self.ex_block(node.body, fr)
        else:
            self.ex_block(node.orelse, fr)

    def ex_Return(self, node, fr):
        raise ReturnEx(self.ev(node.value, fr) if node.value is not None else None)

    def ex_Break(self, node, fr):
        raise BreakEx()

    def ex_Continue(self, node, fr):
        raise ContinueEx()

    def ex_Raise(self, node, fr):
        if node.exc is None:
            cur = getattr(self, "handling", None)
            if cur is None:
                raise Unsupported("bare raise outside handler")
            raise PyRaise(cur.exc, cur.payload)
        v = self.ev(node.exc, fr)
        if isinstance(v, ClassRef):
            raise PyRaise(v.name, ExcV(v.name))
        if isinstance(v, ExcV):
            raise PyRaise(v.name, v)
        raise Unsupported(f"raise of {v!r}")

    def ex_Assert(self, node, fr):
        c = truth(self.ev(node.test, fr))
        if not self.run.branch(c):
            self.py_raise("AssertionError")

    def ex_Try(self, node, fr):
        if node.finalbody:
            raise Unsupported("try/finally")
        try:
            self.ex_block(node.body, fr)
        except PyRaise as e:
            for h in node.handlers:
                if self.handler_matches(h, e.exc, fr):
                    if h.name:
                        fr.locals[h.name] = e.payload or ExcV(e.exc)
                    saved = getattr(self, "handling", None)
                    self.handling = e
                    try:
                        self.ex_block(h.body, fr)
                    finally:
                        self.handling = saved
                    return
            raise
        else:
            self.ex_block(node.orelse, fr)

    def handler_matches(self, h, exc, fr):
        if h.type is None:
            return True
        t = self.ev(h.type, fr)
        ts = t if isinstance(t, tuple) else (t,)
        for c in ts:
            if isinstance(c, ClassRef):
                if self.is_subclass_exc(exc, c.name):
                    return True
            else:
                raise Unsupported(f"except clause with {c!r}")
        return False

    def ex_With(self, node, fr):
        # `with open(...) as f:` only - the context manager of an io object: __enter__ returns the object itself and __exit__ closes it
        # without suppressing an exception, so the statement runs its body with the name bound and lets every outcome through
        for item in node.items:
            ce = item.context_expr
            if not (isinstance(ce, ast.Call) and isinstance(ce.func, ast.Name) and ce.func.id == "open"):
                raise Unsupported("with statement over something else than open(...)")
            v = self.ev(ce, fr)
            self.trusted.add("with open(...) as f: the file object is its own context manager; closing it on exit suppresses nothing")
            if item.optional_vars is not None:
                self.bind_target(item.optional_vars, v, fr)
        self.ex_block(node.body, fr)

    def ex_FunctionDef(self, node, fr):
        from .source import FuncInfo
        m = self.index.module(fr.module)
        info = FuncInfo(fr.module, (fr.func.qualname + "." if fr.func else "") + node.name, node, None, m.path, m.lines)
        fr.locals[node.name] = FuncRef(info, closure=fr)

    def ex_Import(self, node, fr):
        pass

    def ex_ImportFrom(self, node, fr):
        pass

    # ------------------------------------------------------------ loops
    def loop_ordinal(self, node, fr):
        """Ordinal of this loop among the loops of the enclosing function, in source order."""
        fn = fr.func.node if fr.func else None
        if fn is None:
            return None
        k = 0
        for n in ast.walk(fn):
            pass
        loops = [n for n in ast.walk(fn) if isinstance(n, (ast.While, ast.For))]
        loops.sort(key=lambda n: (n.lineno, n.col_offset))
        for i, n in enumerate(loops):
            if n is node:
                return i
        return None

    def loop_spec(self, node, fr):
        if self.top is None or fr.func is None:
            return None
        con = self.top if self.depth == 0 else self.registry.get(fr.func.key + "#loops")
        if self.depth > 0:
            # loops inside inlined callees take their specs from a contract registered for that callee
            con = self.registry.get(fr.func.key)
            if con is None:
                return None
        return con.loops.get(self.loop_ordinal(node, fr))

    def ex_While(self, node, fr):
        if node.orelse:
            raise Unsupported("while/else")
        spec = self.loop_spec(node, fr)
        if spec is None or spec.unroll is not None:
            return self.unrolled_while(node, fr, spec.unroll if spec else None)
        self.cut_loop(node, fr, spec,
                      guard=lambda: truth(self.ev(node.test, fr)),
                      body=lambda: self.ex_block(node.body, fr),
                      body_stmts=node.body, extra_names=set())

    def unrolled_while(self, node, fr, bound):
        bound = bound or getattr(self.top, "default_unroll", 64)
        for k in range(bound + 1):
            c = truth(self.ev(node.test, fr))
            if not self.run.branch(c):
                return
            if k == bound:
                self.run.oblige(self.label(f"unwinding({bound})"), False, kind="unwind")
                raise PathEnd("unwind")
            try:
                self.ex_block(node.body, fr)
            except BreakEx:
                return
            except ContinueEx:
                continue

    def ex_For(self, node, fr):
        if node.orelse:
            raise Unsupported("for/else")
        it = self.ev(node.iter, fr)
        spec = self.loop_spec(node, fr)
        # zip / enumerate over lists
        seqs, mode = None, "plain"
        if isinstance(it, Opaque) and isinstance(it.what, tuple) and it.what[0] == "zip":
            seqs, mode = [self.as_list(x, fr) for x in it.what[1]], "zip"
        elif isinstance(it, Opaque) and isinstance(it.what, tuple) and it.what[0] == "enumerate":
            seqs, mode = [self.as_list(it.what[1], fr)], "enum"
        elif isinstance(it, IterV):
            return self.for_iterator(node, fr, it, spec)
        else:
            seqs = [self.as_list(it, fr)]
        concrete = all(s.items is not None for s in seqs) or \
            all(isinstance(list_len(s), int) for s in seqs)
        if concrete:
            # Python iterates a list by a LIVE index: an element removed or inserted by the body shifts what the next step sees
            k = -1
            while True:
                k += 1
                if k >= min(list_len(s) for s in seqs):
                    break
                if k > 100000:
                    raise EngineError("runaway concrete loop")
                cur = []
                for s in seqs:
                    if s.items is not None:
                        if k >= len(s.items):
                            return
                        cur.append(s.items[k])
                    else:
                        cur.append(list_get(s, k))
                val = cur[0] if mode == "plain" else ((k, cur[0]) if mode == "enum" else tuple(cur))
                self.bind_target(node.target, val, fr)
                try:
                    self.ex_block(node.body, fr)
                except BreakEx:
                    return
                except ContinueEx:
                    continue
            return
        # symbolic length: index loop, cut by invariant
        if spec is None:
            raise EngineError(f"loop at {fr.func.key if fr.func else '?'}:{node.lineno} over a symbolic list needs a loop contract")
        ordn = self.loop_ordinal(node, fr)
        idx = f"_i{ordn}"
        fr.locals[idx] = 0
        n = None
        for s in seqs:
            ln = zint(list_len(s))
            n = ln if n is None else zmin(n, ln)
        lens0 = [(s, list_len(s)) for s in seqs]

        def guard():
            return zint(fr.locals[idx]) < n

        def body():
            k = fr.locals[idx]
            cur = [list_get(s, k) for s in seqs]
            val = cur[0] if mode == "plain" else ((k, cur[0]) if mode == "enum" else tuple(cur))
            self.bind_target(node.target, val, fr)
            fr.locals[idx] = k + 1          # advance first: `continue` keeps the increment
            self.ex_block(node.body, fr)

        auto_inv = [("auto.index", f"0 <= {idx}")]
        self.cut_loop(node, fr, spec, guard, body, node.body, extra_names={idx} | assigned_names([node]),
                      auto_inv=auto_inv, auto_bound=n, idx=idx, iter_lists=seqs)

    def for_iterator(self, node, fr, it, spec):
        l = it.lst
        if l.items is not None and isinstance(it.pos, int):
            while it.pos < len(l.items):
                v = l.items[it.pos]
                it.pos += 1
                self.bind_target(node.target, v, fr)
                try:
                    self.ex_block(node.body, fr)
                except BreakEx:
                    return
                except ContinueEx:
                    continue
            return
        if spec is None:
            raise EngineError("iterator loop over symbolic list needs a loop contract")
        n = zint(list_len(l))
        ordn = self.loop_ordinal(node, fr)
        idx = f"_i{ordn}"

        def sync_in():
            fr.locals[idx] = it.pos

        sync_in()

        def guard():
            return zint(fr.locals[idx]) < n

        def body():
            k = fr.locals[idx]
            self.bind_target(node.target, list_get(l, k), fr)
            fr.locals[idx] = k + 1
            it.pos = k + 1
            self.ex_block(node.body, fr)

        self.cut_loop(node, fr, spec, guard, body, node.body, extra_names={idx} | assigned_names([node]),
                      auto_inv=[("auto.index", f"0 <= {idx}")], auto_bound=n, idx=idx, iter_lists=[l],
                      after_havoc=lambda: setattr(it, "pos", fr.locals[idx]))

    def reachable_objects(self):
        seen = {}

        def visit(v):
            if isinstance(v, (Obj, ListV, DictV, IterV)):
                if id(v) in seen:
                    return
                seen[id(v)] = v
                if isinstance(v, Obj):
                    for x in v.fields.values():
                        visit(x)
                elif isinstance(v, ListV) and v.items is not None:
                    for x in v.items:
                        visit(x)
                elif isinstance(v, DictV):
                    for x in v.d.values():
                        visit(x)
                elif isinstance(v, IterV):
                    visit(v.lst)
            elif isinstance(v, tuple):
                for x in v:
                    visit(x)
            elif isinstance(v, RecV):
                for x in v.fields.values():
                    visit(x)
            elif isinstance(v, OptV):
                visit(v.val)
        for f in self.frames:
            g = f
            while g is not None:
                for x in g.locals.values():
                    visit(x)
                g = g.parent
        return seen

    def havoc_value(self, v, base, declared=None):
        """Fresh value of the same shape (used for locals re-bound in a loop)."""
        if declared is not None:
            return fresh(declared, base, self.run)
        if isinstance(v, ListV):
            c = v.copy()
            to_symbolic(c)
            nv = fresh(("list", c.elem), base, self.run)
            nv.kind = v.kind
            return nv
        if isinstance(v, (Obj, DictV, FuncRef, LambdaV, BoundMethod, ClassRef, Opaque, IterV)):
            return v     # references re-bound to objects: handled through declared modifies
        if isinstance(v, tuple):
            return tuple(self.havoc_value(x, f"{base}.{i}") for i, x in enumerate(v))
        return fresh(desc_of(v), base, self.run)

    def havoc_list_inplace(self, l, base, declared=None):
        self.log_write(l, "*")
        if declared is not None:
            nv = fresh(declared, base, self.run)
        else:
            c = l.copy()
            to_symbolic(c)
            nv = fresh(("list", c.elem), base, self.run)
        kind = l.kind
        l.assign_from(nv)
        l.kind = kind

    def cut_loop(self, node, fr, spec, guard, body, body_stmts, extra_names, auto_inv=None, auto_bound=None,
                 idx=None, iter_lists=None, after_havoc=None):
        run = self.run
        ordn = self.loop_ordinal(node, fr)
        fkey = self.top.key if (self.depth == 0 and self.top is not None) else fr.func.key
        lab = lambda w: f"{fkey}@L{node.lineno}:loop{ordn}.{w}"
        sfr = Frame(fr.module, fr.cls, fr.func, True, parent=fr)
        sfr.defs = dict(self.top.defs) if self.top else {}
        if self.depth == 0:
            sfr.olds = getattr(self, "entry_olds", {})
        invs = list(auto_inv or []) + list(spec.invariants)
        if auto_bound is not None:
            invs.append(("auto.bound", None))

        def eval_inv(text):
            if text is None:
                return zint(fr.locals[idx]) <= auto_bound
            return zbool(truth(self.ev(parse_expr(text), sfr)))

        # element types of still-empty lists come from the loop contract
        for (lv, desc) in spec.havoc:
            if desc is not None and isinstance(desc, tuple) and desc[0] == "list":
                try:
                    tgt = self.ev(parse_expr(lv), sfr)
                    if isinstance(tgt, ListV) and tgt.elem is None and not tgt.items:
                        tgt.elem = desc[1]
                except UnresolvedName:
                    pass
        # 1. invariant on entry
        for (il, text) in invs:
            run.oblige(lab(f"{il}.entry"), eval_inv(text), kind="loop-entry")
        # 2. havoc the loop's write set
        names = (assigned_names(body_stmts) | extra_names)
        pre = self.reachable_objects()
        havoced = set()
        declared = {}
        for (lv, desc) in spec.havoc:
            declared[lv] = desc
        for kind, e in mutated_exprs(body_stmts):
            try:
                if kind == "list":
                    tgt = self.ev(e, sfr)
                    if isinstance(tgt, ListV) and id(tgt) in pre and (id(tgt), "*") not in havoced:
                        self.havoc_list_inplace(tgt, ast.unparse(e), declared.get(ast.unparse(e)))
                        havoced.add((id(tgt), "*"))
                    elif isinstance(tgt, DictV) and id(tgt) in pre:
                        raise Unsupported("dict mutated inside a cut loop")
                else:
                    o = self.ev(e.value, sfr)
                    if isinstance(o, Obj) and id(o) in pre and (id(o), e.attr) not in havoced:
                        cur = o.fields.get(e.attr)
                        if isinstance(cur, ListV):
                            continue
                        o.fields[e.attr] = self.havoc_value(cur, f"{ast.unparse(e)}", declared.get(ast.unparse(e)))
                        havoced.add((id(o), e.attr))
                        self.log_write(o, e.attr)
            except UnresolvedName:
                pass      # a local first created inside the loop body
            except Unsupported:
                raise
            except (KeyError, PyRaise):
                pass
        for (lv, desc) in spec.havoc:
            e = parse_expr(lv)
            if isinstance(e, ast.Attribute):
                o = self.ev(e.value, sfr)
                cur = o.fields.get(e.attr)
                if isinstance(cur, ListV):
                    if (id(cur), "*") not in havoced:
                        self.havoc_list_inplace(cur, lv, desc)
                        havoced.add((id(cur), "*"))
                elif (id(o), e.attr) not in havoced:
                    o.fields[e.attr] = self.havoc_value(cur, lv, desc)
                    havoced.add((id(o), e.attr))
                    self.log_write(o, e.attr)
            else:
                tgt = self.ev(e, sfr)
                if isinstance(tgt, ListV):
                    if (id(tgt), "*") not in havoced:
                        self.havoc_list_inplace(tgt, lv, desc)
                        havoced.add((id(tgt), "*"))
                elif isinstance(tgt, IterV):
                    tgt.pos = fresh("int", lv + ".pos", run)
                    havoced.add((id(tgt), "pos"))
                else:
                    raise Unsupported(f"loop modifies clause {lv!r} is not a heap location")
        for nme in sorted(names):
            if nme in fr.locals:
                cur = fr.locals[nme]
                if isinstance(cur, ListV) and (id(cur), "*") in havoced:
                    continue
                try:
                    nv = self.havoc_value(cur, nme, declared.get(nme))
                except Unsupported:
                    # a local holding a structured temporary (e.g. a match object): unusable until re-assigned
                    nv = Opaque(("havoced-local", nme))
                fr.locals[nme] = nv
            elif nme in declared and declared[nme] is not None:
                fr.locals[nme] = fresh(declared[nme], nme, run)
        if after_havoc:
            after_havoc()
        # iterated lists must not change length inside the loop
        for l in (iter_lists or []):
            if (id(l), "*") in havoced:
                raise Unsupported("loop body mutates the list it iterates over")
        # 3. assume the invariant
        for (il, text) in invs:
            run.assume(eval_inv(text))
        # measure before the body
        alt = run.choose([True, True], names=[f"loop{ordn}:iterate", f"loop{ordn}:exit"], prune=False)
        if alt == 0:
            g = guard()
            if not run.branch(g):
                raise PathEnd("guard false on iterate alternative")
            m0 = self.eval_measure(spec, sfr, auto_bound, idx, fr)
            # step clauses: prev(e) is e at the start of this iteration
            for (_sl, stext) in getattr(spec, "steps", []):
                for n in ast.walk(parse_expr(stext)):
                    if isinstance(n, ast.Call) and isinstance(n.func, ast.Name) and n.func.id == "prev":
                        pv = self.ev(n.args[0], sfr)
                        sfr.olds[id(n)] = pv.copy() if isinstance(pv, ListV) else pv

            def check_steps():
                for (sl, stext) in getattr(spec, "steps", []):
                    run.oblige(lab(f"step.{sl}"), zbool(truth(self.ev(parse_expr(stext), sfr))), kind="loop-preserve")
            log = []
            self.track.append(log)
            try:
                try:
                    body()
                except ContinueEx:
                    pass
                finally:
                    self.track.pop()
            except BreakEx:
                self.check_writes(log, pre, havoced, lab)
                check_steps()
                return
            self.check_writes(log, pre, havoced, lab)
            check_steps()
            for (il, text) in invs:
                run.oblige(lab(f"{il}.preserved"), eval_inv(text), kind="loop-preserve")
            m1 = self.eval_measure(spec, sfr, auto_bound, idx, fr)
            if m0 is not None:
                run.oblige(lab("decreases"), self.lex_decrease(m0, m1), kind="termination")
            else:
                run.oblige(lab("decreases.missing"), False, kind="termination")
            raise PathEnd("loop body end")
        else:
            g = guard()
            if run.branch(g):
                raise PathEnd("guard true on exit alternative")
            return

    def check_writes(self, log, pre, havoced, lab):
        for (o, f) in log:
            if id(o) in pre and (id(o), f) not in havoced and (id(o), "*") not in havoced:
                raise EngineError(f"{lab('frame')}: loop body writes {type(o).__name__}.{f} which the loop contract "
                                  f"does not list under modifies")

    def eval_measure(self, spec, sfr, auto_bound, idx, fr):
        if spec.decreases:
            out = []
            for t in spec.decreases:
                if t.startswith("grows:"):
                    v = self.ev(parse_expr(t[6:]), sfr)
                    if not isinstance(v, ListV):
                        raise Unsupported("grows: measure needs a list of booleans")
                    out.append(to_symbolic(v.copy()))
                else:
                    out.append(zint(self.ev(parse_expr(t), sfr)))
            return out
        if auto_bound is not None:
            return [auto_bound - zint(fr.locals[idx])]
        return None

    def lex_decrease(self, m0, m1):
        # lexicographic, every component bounded below by 0 before the step
        res = False
        eq_prefix = True
        for a, b in zip(m0, m1):
            if isinstance(a, ListV):
                # well-founded order on boolean arrays over a fixed finite index range: strict growth
                j = z3.Int(fresh_name("g"))
                n = zint(a.length)
                same_len = n == zint(b.length)
                mono = z3.ForAll([j], z3.Implies(z3.And(j >= 0, j < n, a.arr[j]), b.arr[j]))
                j2 = z3.Int(fresh_name("g"))
                new = z3.Exists([j2], z3.And(j2 >= 0, j2 < n, z3.Not(a.arr[j2]), b.arr[j2]))
                j3 = z3.Int(fresh_name("g"))
                eq = z3.And(same_len, z3.ForAll([j3], z3.Implies(z3.And(j3 >= 0, j3 < n), a.arr[j3] == b.arr[j3])))
                res = zor(res, zand(eq_prefix, z3.And(same_len, mono, new)))
                eq_prefix = zand(eq_prefix, eq)
                continue
            res = zor(res, zand(eq_prefix, zand(a >= 0, b < a)))
            eq_prefix = zand(eq_prefix, a == b)
        return res

    # ------------------------------------------------------------ contracts
    def spec_frame(self, con, bound, module, cls):
        sfr = Frame(module, cls, None, True)
        sfr.locals.update(bound)
        sfr.defs = dict(con.defs)
        return sfr

    def collect_olds(self, con, sfr, texts):
        texts = list(texts) + [t for (_, t) in con.defs.values() if "old(" in t]
        for text in texts:
            e = parse_expr(text)
            for n in ast.walk(e):
                if isinstance(n, ast.Call) and isinstance(n.func, ast.Name) and n.func.id == "old":
                    v = self.ev(n.args[0], sfr)
                    if isinstance(v, ListV):
                        v = v.copy()
                    sfr.olds[id(n)] = v

    def apply_contract(self, con, bound, fr, module, cls):
        run = self.run
        if con.assumed:
            self.trusted.add(f"assumed contract: {con.key}" + (f" — {con.note}" if con.note else ""))
        sfr = self.spec_frame(con, bound, module, cls)
        for (lbl, text) in con.requires_:
            g = zbool(truth(self.ev(parse_expr(text), sfr)))
            run.oblige(self.label(f"call {con.key}:{lbl}"), g, kind="call-pre")
            run.assume(g)
        self.collect_olds(con, sfr, [t for (_, t) in con.ensures_] + [t for (_, _, t) in getattr(con, "exc_ensures_", [])])
        # exceptional outcomes
        alts, names = [True], ["normal"]
        whens = []
        for k_, (exc, when, iff) in enumerate(con.raises_):
            if k_ in con.at_raise:
                w = z3.BoolVal(True)     # condition speaks about the callee's locals: at a call site it may raise at any time
            else:
                w = zbool(truth(self.ev(parse_expr(when), sfr)))
            whens.append((exc, w, iff))
        normal = zand(*[znot(w) for (exc, w, iff) in whens if iff])
        alts = [normal] + [w for (_, w, _) in whens]
        names = ["normal"] + [e for (e, _, _) in whens]
        k = run.choose(alts, names=names) if len(alts) > 1 else 0
        # havoc modifies
        for lv in (con.modifies_ or []):
            self.havoc_lvalue(lv, sfr)
        if k > 0:
            for (exc_name, _lbl, text) in getattr(con, "exc_ensures_", []):
                if self.is_subclass_exc(whens[k - 1][0], exc_name):
                    run.assume(zbool(truth(self.ev(parse_expr(text), sfr))))
            self.py_raise(whens[k - 1][0])
        obj_alias = {}
        if isinstance(con.returns_, tuple) and con.returns_[0] == "obj" and any(isinstance(d, tuple) and d[0] == "alias" for d in con.returns_[2].values()):
            # ("obj", cls, {field: ("alias", param)}): the new object KEEPS that argument in that field (by reference)
            obj_alias = {f: d[1] for f, d in con.returns_[2].items() if isinstance(d, tuple) and d[0] == "alias"}
            rdesc = (con.returns_[0], con.returns_[1], {f: (("drop",) if f in obj_alias else d) for f, d in con.returns_[2].items()})
            result = self.make_value(rdesc, "ret") if ":" in rdesc[1] else fresh(rdesc, "ret", run)
            for f, pname in obj_alias.items():
                result.fields[f] = bound[pname]
        elif con.returns_ is not None and ("'match'" in repr(con.returns_) or "'cdict'" in repr(con.returns_)):
            result = self.make_value(con.returns_, "ret")
        else:
            result = fresh(con.returns_, "ret", run) if con.returns_ is not None and not _has_alias(con.returns_) else None
        if con.returns_ is not None and _has_alias(con.returns_):
            # ("tuple", [...]) whose ("alias", param) components ARE the argument objects (returned by reference)
            result = tuple(bound[d[1]] if (isinstance(d, tuple) and d[0] == "alias") else fresh(d, f"ret.{i}", run)
                           for i, d in enumerate(con.returns_[1]))
        sfr.locals["result"] = result
        for (lbl, text) in con.ensures_:
            run.assume(zbool(truth(self.ev(parse_expr(text), sfr))))
        return result

    def havoc_lvalue(self, lv, sfr):
        e = parse_expr(lv)
        if isinstance(e, ast.Attribute):
            o = self.ev(e.value, sfr)
            if not isinstance(o, Obj):
                raise Unsupported(f"modifies {lv}: not an object field")
            cur = o.fields.get(e.attr)
            if isinstance(cur, ListV):
                self.havoc_list_inplace(cur, lv)
            else:
                self.log_write(o, e.attr)
                o.fields[e.attr] = self.havoc_value(cur, lv)
        else:
            tgt = self.ev(e, sfr)
            if isinstance(tgt, ListV):
                self.havoc_list_inplace(tgt, lv)
            else:
                raise Unsupported(f"modifies {lv}: not a heap location")

    # ------------------------------------------------------------ top level
    def make_self(self, desc):
        # ("self", "module:Class", {field: desc})
        _, clskey, fields = desc
        ci = self.index.cls(clskey)
        o = Obj(ci, {})
        for f, d in fields.items():
            o.fields[f] = self.make_value(d, "self." + f)
        return o

    def make_value(self, d, base):
        if isinstance(d, tuple) and d[0] == "self":
            return self.make_self(d)
        if isinstance(d, tuple) and d[0] == "obj" and ":" in d[1]:
            ci = self.index.cls(d[1])
            o = Obj(ci, {})
            for f, dd in d[2].items():
                o.fields[f] = self.make_value(dd, base + "." + f)
            return o
        if isinstance(d, tuple) and d[0] == "obj":
            o = Obj(None, {}, abstract=d[1])
            for f, dd in d[2].items():
                o.fields[f] = self.make_value(dd, base + "." + f)
            return o
        if isinstance(d, tuple) and d[0] == "shared":
            # ("shared", name): the same object as a previously created one
            return self.shared[d[1]]
        if isinstance(d, tuple) and d[0] == "named":
            v = self.make_value(d[2], base)
            self.shared[d[1]] = v
            return v
        if isinstance(d, tuple) and d[0] == "tuple":
            return tuple(self.make_value(x, f"{base}.{i}") for i, x in enumerate(d[1]))
        if isinstance(d, tuple) and d[0] == "clist":
            # concrete-length list of described values
            return ListV([self.make_value(x, f"{base}[{i}]") for i, x in enumerate(d[1])])
        if isinstance(d, tuple) and d[0] == "func":
            return FuncRef(self.index.func(d[1]))
        if isinstance(d, tuple) and d[0] == "cdict":
            # dict with the given concrete keys
            return DictV({k: self.make_value(dd, f"{base}[{k!r}]") for k, dd in d[1].items()})
        if isinstance(d, tuple) and d[0] == "cset":
            # a set holding len(d[1]) pairwise different symbolic elements of the described scalar types
            elems = [fresh(x, f"{base}{{{i}}}", self.run) for i, x in enumerate(d[1])]
            for i in range(len(elems)):
                for j in range(i):
                    self.run.assume(elems[i] != elems[j])
            return SetV({SymKey(e): True for e in elems})
        if isinstance(d, tuple) and d[0] == "match":
            # an abstract successful regex match with d[1] capture groups (fresh strings); .group(k) / .groups() read them
            m = MatchV(None, None, None)
            m.groups_map = {k: fresh("str", f"{base}.g{k}", self.run) for k in range(1, d[1] + 1)}
            return m
        if isinstance(d, tuple) and d[0] == "opt" and isinstance(d[1], tuple) and d[1][0] == "match":
            return OptV(fresh("bool", base + ".isnone", self.run), self.make_value(d[1], base))
        return fresh(d, base, self.run)

    def run_function(self, con, info, case=None):
        run = self.run
        self.shared = {}
        fr = Frame(info.module, cls=info.cls, func=info, spec=False)
        params = {}
        if con.self_desc is not None:
            params["self"] = self.make_value(con.self_desc, "self")
        for n, d in con.params.items():
            params[n] = self.make_value(d, n)
        # module-level bindings overridden by symbols (e.g. _DEFAULT_BUFFER_SIZE >= 1)
        self.bound_globals = {}
        for gname, (desc, ctext) in con.bind.items():
            v = self.make_value(desc, gname)
            self._live_cache[(info.module, gname)] = v
            self.bound_globals[gname] = v
        # defaults for parameters not described
        a = info.node.args
        names = [x.arg for x in a.posonlyargs + a.args]
        defaults = [None] * (len(names) - len(a.defaults)) + list(a.defaults)
        for n, dflt in zip(names, defaults):
            if n not in params:
                if dflt is not None:
                    params[n] = self.ev(dflt, Frame(info.module, cls=info.cls))
                else:
                    raise EngineError(f"contract for {con.key} does not describe parameter {n}")
        fr.locals.update(params)
        self.frames.append(fr)
        sfr = Frame(info.module, info.cls, info, True, parent=None)
        sfr.locals.update(params)
        sfr.defs = dict(con.defs)
        for gname, (desc, ctext) in con.bind.items():
            if ctext:
                run.assume(zbool(truth(self.ev(parse_expr(ctext), sfr))))
        for g, text in con.ghost_.items():
            sfr.locals[g] = self.ev(parse_expr(text), sfr)
            fr.locals.setdefault(g, sfr.locals[g])
        for (lbl, text) in con.requires_:
            run.assume(zbool(truth(self.ev(parse_expr(text), sfr))))
        if case is not None:
            run.assume(zbool(truth(self.ev(parse_expr(case[1]), sfr))))
        for (lbl, text) in con.lemma_hints:
            run.assume(zbool(truth(self.ev(parse_expr(text), sfr))))
        run.reached("requires")
        pre_when = {}
        for k, (exc_name, when, iff) in enumerate(con.raises_):
            if k not in con.at_raise:
                pre_when[k] = zbool(truth(self.ev(parse_expr(when), sfr)))
        self.collect_olds(con, sfr, [t for (_, t) in con.ensures_] + [t for (_, _, t) in getattr(con, "exc_ensures_", [])] +
                          [t for lp in con.loops.values() for (_, t) in lp.invariants])
        self.entry_olds = sfr.olds
        # entry snapshot for the frame check
        entry = self.snapshot_heap(params)
        outcome, value, exc = "return", None, None
        try:
            self.ex_block(info.node.body, fr)
        except ReturnEx as r:
            value = r.value
        except PyRaise as e:
            outcome, exc = "raise", e.exc
        except (BreakEx, ContinueEx):
            raise EngineError("break/continue escaped the function body")
        lab = lambda w: f"{con.key}:{w}"
        if outcome == "return":
            run.reached("return")
            sfr.locals["result"] = value
            sfr.parent = fr        # ghost access to the function's final locals (parameters shadow them)
            for k, (exc_name, when, iff) in enumerate(con.raises_):
                if iff:
                    w = pre_when[k] if k in pre_when else zbool(truth(self.ev(parse_expr(when), self._old_frame(sfr))))
                    run.oblige(lab(f"raises.{exc_name}.iff"), z3.Not(w), kind="post")
            for (lbl, text) in con.ensures_:
                g = zbool(truth(self.ev(parse_expr(text), sfr)))
                run.oblige(lab(lbl), g, kind="post")
            self.check_frame(con, sfr, entry, lab)
        else:
            run.reached("raise:" + exc)
            sfr.parent = fr        # ghost access to the function's locals at the raise point, as for a normal return
            for (exc_name, lbl, text) in getattr(con, "exc_ensures_", []):
                if self.is_subclass_exc(exc, exc_name):
                    run.oblige(lab(lbl), zbool(truth(self.ev(parse_expr(text), sfr))), kind="post")
            allowed = [(k, e, w) for k, (e, w, iff) in enumerate(con.raises_) if self.is_subclass_exc(exc, e)]
            if not allowed:
                run.oblige(lab(f"no-undeclared-exception.{exc}@L{self.cur_line}"), False, kind="exc")
            else:
                ws = [pre_when[k] if k in pre_when else zbool(truth(self.ev(parse_expr(w), self._old_frame(sfr))))
                      for (k, _, w) in allowed]
                run.oblige(lab(f"raises.{exc}.when"), z3.Or(ws), kind="exc")
        self.frames.pop()

    def _old_frame(self, sfr):
        """`when` clauses of raises: parameters keep their entry values; the function's locals at
        the raise point are visible too (ghost access, used to state *why* an error is legitimate)."""
        w = Frame(sfr.module, sfr.cls, sfr.func, True, parent=self.frames[-1] if self.frames else None)
        w.locals.update(sfr.locals)
        w.defs, w.olds = sfr.defs, sfr.olds
        return w

    def snapshot_heap(self, params):
        snap = []
        seen = set()

        def visit(v, path):
            if isinstance(v, Obj):
                if id(v) in seen:
                    return
                seen.add(id(v))
                for f, x in list(v.fields.items()):
                    if isinstance(x, (Obj, ListV)):
                        visit(x, f"{path}.{f}")
                        if isinstance(x, Obj):
                            snap.append((v, f, x, f"{path}.{f}"))
                    else:
                        snap.append((v, f, x, f"{path}.{f}"))
            elif isinstance(v, ListV):
                if id(v) in seen:
                    return
                seen.add(id(v))
                snap.append((v, "*", v.copy(), path))
            elif isinstance(v, tuple):
                for i, x in enumerate(v):
                    visit(x, f"{path}[{i}]")
        for n, v in params.items():
            visit(v, n)
        return snap

    def check_frame(self, con, sfr, entry, lab):
        if con.modifies_ is None:
            return
        allowed = set()
        for lv in con.modifies_:
            e = parse_expr(lv)
            if isinstance(e, ast.Attribute):
                o = self.ev(e.value, sfr)
                cur = o.fields.get(e.attr) if isinstance(o, Obj) else None
                if isinstance(cur, ListV):
                    allowed.add((id(cur), "*"))
                allowed.add((id(o), e.attr))
            else:
                tgt = self.ev(e, sfr)
                allowed.add((id(tgt), "*"))
        for (o, f, oldv, path) in entry:
            if (id(o), f) in allowed:
                continue
            if f == "*":
                if o.items is oldv.items and o.length is oldv.length and o.arr is oldv.arr:
                    continue
                if o.items is not None and oldv.items is not None and len(o.items) == len(oldv.items) and \
                        all(a is b for a, b in zip(o.items, oldv.items)):
                    continue
                self.run.oblige(lab(f"frame.{path}"), zbool(val_eq(o, oldv)), kind="frame")
            else:
                cur = o.fields.get(f)
                if cur is oldv:
                    continue
                if isinstance(cur, (Obj,)) or isinstance(oldv, Obj):
                    self.run.oblige(lab(f"frame.{path}"), cur is oldv, kind="frame")
                    continue
                try:
                    self.run.oblige(lab(f"frame.{path}"), zbool(val_eq(cur, oldv)), kind="frame")
                except Unsupported:
                    self.run.oblige(lab(f"frame.{path}"), False, kind="frame")
