"""String and regular-expression models over ASCII (DESIGN 2.4).

Patterns are read from the compiled pattern objects of the real modules (live dump) and translated
mechanically through `re._parser.parse` into z3 regular expressions.  `match` truth is EXACT
(membership in R . Sigma*); capture groups are uninterpreted functions of (pattern, text) constrained to
their group language (a sound over-approximation of which occurrence is captured)."""
import re
import z3
from .values import *

try:
    import re._parser as sre_parse
    import re._constants as sre_c
except ImportError:  # pragma: no cover
    import sre_parse
    import sre_constants as sre_c

ASCII_MAX = 127
_WORD = [c for c in range(128) if re.match(r"\w", chr(c))]
_SPACE = [c for c in range(128) if re.match(r"\s", chr(c))]
_DIGIT = [c for c in range(128) if re.match(r"\d", chr(c))]


def _chars_re(codes):
    """Union of single characters given as a set of code points, grouped into ranges."""
    codes = sorted(set(codes))
    if not codes:
        return z3.Empty(z3.ReSort(z3.StringSort()))
    parts, lo, prev = [], codes[0], codes[0]
    for c in codes[1:] + [None]:
        if c is not None and c == prev + 1:
            prev = c
            continue
        parts.append(z3.Range(chr(lo), chr(prev)) if lo != prev else z3.Re(chr(lo)))
        if c is not None:
            lo = prev = c
    return parts[0] if len(parts) == 1 else z3.Union(parts)


def _class_codes(items, ignorecase):
    codes = set()
    negate = False
    for op, av in items:
        if op == sre_c.NEGATE:
            negate = True
        elif op == sre_c.LITERAL:
            codes.add(av)
        elif op == sre_c.RANGE:
            codes.update(range(av[0], av[1] + 1))
        elif op == sre_c.CATEGORY:
            codes.update(_category(av))
        else:
            raise Unsupported(f"regex class item {op}")
    codes = {c for c in codes if c <= ASCII_MAX}
    if ignorecase:
        codes |= {ord(chr(c).swapcase()) for c in codes if chr(c).isalpha()}
    if negate:
        codes = set(range(0, ASCII_MAX + 1)) - codes
    return codes


def _category(av):
    table = {sre_c.CATEGORY_DIGIT: _DIGIT, sre_c.CATEGORY_SPACE: _SPACE, sre_c.CATEGORY_WORD: _WORD}
    neg = {sre_c.CATEGORY_NOT_DIGIT: _DIGIT, sre_c.CATEGORY_NOT_SPACE: _SPACE, sre_c.CATEGORY_NOT_WORD: _WORD}
    if av in table:
        return set(table[av])
    if av in neg:
        return set(range(128)) - set(neg[av])
    raise Unsupported(f"regex category {av}")


class Translated:
    def __init__(self, pattern, flags):
        self.pattern = pattern
        self.flags = flags
        self.groups = {}          # group number -> z3 re of the group's sub-pattern
        self.digit_groups = set() # groups of the form (\d+): int() of their text cannot fail
        self.anchored_end = False
        tree = sre_parse.parse(pattern, flags)
        items = list(tree)
        if items and items[-1][0] == sre_c.AT and items[-1][1] in (sre_c.AT_END, sre_c.AT_END_STRING):
            self.anchored_end = True
            items = items[:-1]
        self.ic = bool(flags & re.I)
        self.body = self.seq(items)

    def seq(self, items):
        parts = [self.one(op, av) for op, av in items]
        if not parts:
            return z3.Re("")
        return parts[0] if len(parts) == 1 else z3.Concat(parts)

    def one(self, op, av):
        if op == sre_c.LITERAL:
            ch = chr(av)
            if self.ic and ch.isalpha():
                return _chars_re({av, ord(ch.swapcase())})
            return z3.Re(ch)
        if op == sre_c.NOT_LITERAL:
            bad = {av} | ({ord(chr(av).swapcase())} if self.ic and chr(av).isalpha() else set())
            return _chars_re(set(range(128)) - bad)
        if op == sre_c.ANY:
            return _chars_re(set(range(128)) - {10})
        if op == sre_c.IN:
            return _chars_re(_class_codes(av, self.ic))
        if op == sre_c.CATEGORY:
            return _chars_re(_category(av))
        if op in (sre_c.MAX_REPEAT, sre_c.MIN_REPEAT):
            lo, hi, sub = av
            r = self.seq(list(sub))
            if hi == sre_c.MAXREPEAT:
                if lo == 0:
                    return z3.Star(r)
                if lo == 1:
                    return z3.Plus(r)
                return z3.Concat(z3.Loop(r, lo, lo), z3.Star(r))
            return z3.Loop(r, lo, hi)
        if op == sre_c.SUBPATTERN:
            group, add_flags, del_flags, sub = av
            r = self.seq(list(sub))
            if group is not None:
                self.groups[group] = r
                sl = list(sub)
                if len(sl) == 1 and sl[0][0] in (sre_c.MAX_REPEAT, sre_c.MIN_REPEAT) and sl[0][1][0] >= 1:
                    inner = list(sl[0][1][2])
                    if len(inner) == 1 and inner[0] == (sre_c.IN, [(sre_c.CATEGORY, sre_c.CATEGORY_DIGIT)]):
                        self.digit_groups.add(group)
            return r
        if op == sre_c.BRANCH:
            _, alts = av
            return z3.Union([self.seq(list(a)) for a in alts])
        if op == sre_c.AT and av in (sre_c.AT_BEGINNING, sre_c.AT_BEGINNING_STRING):
            return z3.Re("")
        raise Unsupported(f"regex construct {op} in {self.pattern!r}")

    def match_re(self):
        """Language of texts on which Pattern.match succeeds (anchored at 0, open at the end unless `$`)."""
        if self.anchored_end:
            return self.body
        return z3.Concat(self.body, z3.Star(_chars_re(range(128))))


_CACHE = {}


def translate(rx):
    key = (rx.pattern, rx.flags)
    if key not in _CACHE:
        _CACHE[key] = Translated(rx.pattern, rx.flags)
    return _CACHE[key]


def _fname(rx):
    import hashlib
    return hashlib.md5(f"{rx.pattern}|{rx.flags}".encode()).hexdigest()[:8]


def _flat_pieces(tr_obj):
    """Top-level items of the pattern as (group number or None, z3 re), or None when groups are nested."""
    tree = sre_parse.parse(tr_obj.pattern, tr_obj.flags)
    items = list(tree)
    if items and items[-1][0] == sre_c.AT and items[-1][1] in (sre_c.AT_END, sre_c.AT_END_STRING):
        items = items[:-1]
    pieces = []
    t2 = Translated.__new__(Translated)
    t2.pattern, t2.flags, t2.groups, t2.digit_groups, t2.ic = tr_obj.pattern, tr_obj.flags, {}, set(), tr_obj.ic
    for op, av in items:
        before = len(t2.groups)
        r = t2.one(op, av)
        if op == sre_c.SUBPATTERN and av[0] is not None:
            if len(t2.groups) - before != 1:
                return None            # nested groups
            pieces.append((av[0], r, (op, av)))
        else:
            if len(t2.groups) != before:
                return None
            pieces.append((None, r, (op, av)))
    return pieces


def _lazy_min_group(piece):
    """Is this piece a group of the form (.+?) / (.*?) ?  -> (is_lazy, min_len)"""
    op, av = piece[2]
    if op != sre_c.SUBPATTERN:
        return False, 0
    sub = list(av[3])
    if len(sub) == 1 and sub[0][0] == sre_c.MIN_REPEAT and list(sub[0][1][2]) == [(sre_c.ANY, None)]:
        return True, sub[0][1][0]
    return False, 0


def match_with_groups(interp, rx, text):
    """Exact match truth; on success the groups form SOME decomposition text = p1 ++ p2 ++ ... (each piece in its language),
    which the real (backtracking) groups do; for a leading lazy group `(.+?)`/`(.*?)` followed by a suffix-closed remainder the
    minimality of that group is added."""
    tr = translate(rx)
    ok = z3.InRe(text, tr.match_re())
    pieces = _flat_pieces(tr)
    if pieces is None:
        return ok, None
    run = interp.run
    parts, groups = [], {}
    for k, (g, r, raw) in enumerate(pieces):
        v = z3.String(fresh_name(f"re_piece{k}"))
        parts.append(v)
        run.assume(z3.Implies(ok, z3.InRe(v, r)))
        if g is not None:
            groups[g] = v
    tail = z3.String(fresh_name("re_tail"))
    if tr.anchored_end:
        run.assume(z3.Implies(ok, tail == z3.StringVal("")))
    whole = z3.Concat(parts + [tail]) if parts else tail
    run.assume(z3.Implies(ok, text == whole))
    al = interp.__dict__.get("alphabets", {}).get(text.sexpr())
    if al is not None:
        for v in parts:
            run.assume(z3.Implies(ok, z3.InRe(v, z3.Star(_chars_re(al)))))
            interp.alphabets[v.sexpr()] = al
    # minimality of a leading lazy group
    if pieces and pieces[0][0] is not None and tr.anchored_end:
        lazy, mn = _lazy_min_group(pieces[0])
        if lazy and len(pieces) >= 2:
            rest_re = z3.Concat([p[1] for p in pieces[1:]]) if len(pieces) > 2 else pieces[1][1]
            # is the remainder language suffix-closed?  (c.w in R  =>  w in R)   -- checked, not assumed
            c, w = z3.String(fresh_name("c")), z3.String(fresh_name("w"))
            sol = z3.Solver()
            sol.set("timeout", 10000)
            sol.add(z3.Length(c) == 1, z3.InRe(z3.Concat(c, w), rest_re), z3.Not(z3.InRe(w, rest_re)))
            if sol.check() == z3.unsat:
                g1 = parts[0]
                rest = z3.Concat(parts[1:] + [tail]) if len(parts) > 1 else tail
                last = z3.SubString(g1, z3.Length(g1) - 1, 1)
                run.assume(z3.Implies(z3.And(ok, z3.Length(g1) > mn), z3.Not(z3.InRe(z3.Concat(last, rest), rest_re))))
                # consequence in a form the solvers digest: characters c with c.R included in R cannot end a minimal group
                absorbing = []
                for code in range(128):
                    if code == 10:
                        continue
                    s2 = z3.Solver()
                    s2.set("timeout", 2000)
                    w2 = z3.String(fresh_name("w"))
                    s2.add(z3.InRe(w2, rest_re), z3.Not(z3.InRe(z3.Concat(z3.StringVal(chr(code)), w2), rest_re)))
                    if s2.check() == z3.unsat:
                        absorbing.append(code)
                if absorbing:
                    run.assume(z3.Implies(z3.And(ok, z3.Length(g1) > mn), z3.Not(z3.InRe(last, _chars_re(absorbing)))))
                interp.trusted.add("re: a leading lazy group followed by a suffix-closed remainder (closure checked by z3) is the SHORTEST admissible prefix")
    interp.trusted.add("re: Pattern.match(s) succeeds iff s is in R.Sigma*; on success the groups are the pieces of SOME decomposition "
                       "s = p1 ++ p2 ++ ... with each piece in its sub-pattern's language (ASCII)")
    return ok, groups


def regex_method(interp, recv, name, args, kwargs, fr):
    if name == "match" and getattr(interp.top, "regex_decomposition", False):
        text = zstr(args[0])
        ok, groups = match_with_groups(interp, recv, text)
        if groups is not None:
            m = MatchV(recv, text, translate(recv))
            m.groups_map = groups
            return OptV(z3.Not(ok), m)
    if name == "sub":
        return regex_sub(interp, recv, args[0], zstr(args[1]), fr)
    if name == "match":
        text = zstr(args[0])
        tr = translate(recv)
        interp.trusted.add("re: Pattern.match(s) succeeds iff s is in R.Sigma* (R translated from the compiled pattern, ASCII); "
                           "capture groups are functions of (pattern, s) lying in their group's language")
        ok = z3.InRe(text, tr.match_re())
        m = MatchV(recv, text, tr)
        # group languages hold whenever the match succeeds
        for g, r in tr.groups.items():
            gf = z3.Function(f"re_group_{_fname(recv)}_{g}", z3.StringSort(), z3.StringSort())
            interp.run.assume(z3.Implies(ok, z3.InRe(gf(text), r)))
            if g in tr.digit_groups:
                if not hasattr(interp, "digit_terms"):
                    interp.digit_terms = set()
                interp.digit_terms.add(gf(text).sexpr())
        return OptV(z3.Not(ok), m)
    if name in ("search", "fullmatch"):
        text = zstr(args[0])
        tr = translate(recv)
        anyc = z3.Star(_chars_re(range(128)))
        if name == "search":
            if "^" in recv.pattern or "\\A" in recv.pattern:
                raise Unsupported("regex search with a start anchor")
            lang = z3.Concat(anyc, tr.match_re())
        else:
            lang = tr.body
        interp.trusted.add(f"re: Pattern.{name}(s) succeeds iff s is in " + ("Sigma*.R.Sigma*" if name == "search" else "R") +
                           " (R translated from the compiled pattern, ASCII); capture groups are functions of (pattern, s) lying in their group's language")
        ok = z3.InRe(text, lang)
        m = MatchV(recv, text, tr)
        m.how = name
        for g, r in tr.groups.items():
            gf = z3.Function(f"re_group_{name}_{_fname(recv)}_{g}", z3.StringSort(), z3.StringSort())
            interp.run.assume(z3.Implies(ok, z3.InRe(gf(text), r)))
            if g in tr.digit_groups:
                if not hasattr(interp, "digit_terms"):
                    interp.digit_terms = set()
                interp.digit_terms.add(gf(text).sexpr())
        return OptV(z3.Not(ok), m)
    raise Unsupported(f"regex method {name}")


def regex_sub(interp, rx, repl, text, fr):
    """Pattern.sub(repl, s) for a pattern that is ONE character class repeated (`[..]+`): sound facts about the result:
    it consists of kept characters (those outside the class) and copies of `repl`; it equals s when s has no character of the class;
    it is empty only if s is."""
    if not isinstance(repl, str):
        raise Unsupported("regex sub with a symbolic replacement")
    tree = list(sre_parse.parse(rx.pattern, rx.flags))
    alternation = False
    if len(tree) == 1 and tree[0][0] == sre_c.SUBPATTERN:
        tree = list(tree[0][1][3])          # ( ... ): the group itself does not matter for sub with a constant replacement
    if len(tree) == 1 and tree[0][0] == sre_c.BRANCH:
        # `[class]+ | other`: the FIRST alternative is tried first at every position, so every character of the class is replaced whatever
        # the other alternatives are; they may replace further characters (sound facts below are restricted accordingly)
        alternation = True
        tree = list(tree[0][1][1][0])
    if not (len(tree) == 1 and tree[0][0] in (sre_c.MAX_REPEAT, sre_c.MIN_REPEAT) and tree[0][1][0] >= 1
            and len(list(tree[0][1][2])) == 1 and list(tree[0][1][2])[0][0] == sre_c.IN):
        raise Unsupported(f"regex sub for pattern {rx.pattern!r} (only `[class]+` and `[class]+|...` are modelled)")
    if alternation and not repl:
        raise Unsupported("regex sub of an alternation with an empty replacement")
    codes = _class_codes(list(tree[0][1][2])[0][1], bool(rx.flags & re.I))
    kept = _chars_re(set(range(128)) - codes)
    out = z3.String(fresh_name("sub"))
    unit = z3.Union(kept, z3.Re(repl)) if repl else kept
    run = interp.run
    run.assume(z3.InRe(out, z3.Star(unit)))
    # alphabet bookkeeping: every substring / piece of `out` is over the same characters (sound; helps the string solvers)
    alpha = (set(range(128)) - codes) | {ord(ch) for ch in repl}
    interp.__dict__.setdefault("alphabets", {})[out.sexpr()] = alpha
    if not alternation:
        run.assume(z3.Implies(z3.InRe(text, z3.Star(kept)), out == text))
    run.assume(z3.Length(out) <= z3.Length(text) * max(1, len(repl)))
    run.assume((z3.Length(out) == 0) == (z3.Length(text) == 0) if repl else z3.Length(out) <= z3.Length(text))
    if alternation:
        interp.trusted.add("re: Pattern.sub(r, s) for `[class]+|other`: every character of the class is replaced (first alternative wins at every position); the result is made of "
                           "characters of s outside the class and copies of r")
        return out
    interp.trusted.add("re: Pattern.sub(r, s) for a `[class]+` pattern: the result is made of the characters of s outside the class and copies of r, "
                       "equals s when s has no character of the class, and is empty only if s is (r non-empty)")
    return out


def match_method(interp, m, name, args, kwargs, fr):
    gm = getattr(m, "groups_map", None)
    if gm is not None:
        if name == "groups":
            return tuple(gm[g] for g in sorted(gm))
        if name == "group" and args and args[0] in gm:
            return gm[args[0]]

    def grp(g):
        how = getattr(m, "how", None)
        gf = z3.Function(f"re_group_{how + '_' if how else ''}{_fname(m.rx)}_{g}", z3.StringSort(), z3.StringSort())
        return gf(m.text)
    if name == "groups":
        return tuple(grp(g) for g in sorted(m.tr.groups))
    if name == "group":
        g = args[0] if args else 0
        if g == 0:
            raise Unsupported("match.group(0)")
        return grp(g)
    raise Unsupported(f"match method {name}")


def str_method(interp, recv, name, args, kwargs, fr):
    if isinstance(recv, str) and all(not is_z3(a) for a in args):
        if name in ("upper", "lower", "strip", "title", "replace", "startswith", "endswith", "encode", "split",
                    "lstrip", "rstrip", "join", "isdigit"):
            if name == "encode":
                return ListV(list(recv.encode(*args)), elem="int", kind="bytes")
            if name == "join":
                l = interp.as_list(args[0], fr)
                if l.items is not None and all(isinstance(x, str) for x in l.items):
                    return recv.join(l.items)
            else:
                r = getattr(recv, name)(*args)
                if isinstance(r, list):
                    return ListV(r)
                return r
    if name == "join":
        l = interp.as_list(args[0], fr)
        if l.items is None:
            raise Unsupported("join over symbolic list")
        parts = []
        for i, x in enumerate(l.items):
            if i:
                parts.append(zstr(recv))
            parts.append(zstr(x))
        if not parts:
            return ""
        return z3.Concat(parts) if len(parts) > 1 else parts[0]
    if name in ("startswith", "endswith") and len(args) == 1 and not kwargs:
        # exact: z3 str.prefixof / str.suffixof; a tuple argument is the disjunction, as in Python
        alts = list(args[0]) if isinstance(args[0], tuple) else [args[0]]
        op = z3.PrefixOf if name == "startswith" else z3.SuffixOf
        return z3.Or([op(zstr(a), zstr(recv)) for a in alts]) if len(alts) != 1 else op(zstr(alts[0]), zstr(recv))
    if name in ("lower", "upper", "strip"):
        f = z3.Function("py_str_" + name, z3.StringSort(), z3.StringSort())
        interp.trusted.add(f"engine: str.{name} is an uninterpreted function String->String"
                           + (" with strip(strip(s)) == strip(s)" if name == "strip" else ""))
        r = f(zstr(recv))
        if name == "strip":
            interp.run.assume(f(r) == r)      # idempotence (true of str.strip)
            if getattr(interp.top, "regex_decomposition", False):
                # exact: s = a ++ strip(s) ++ b with a, b blank and strip(s) without blank edges (ASCII blanks as measured)
                ws = _chars_re(_SPACE)
                nows = _chars_re(set(range(128)) - set(_SPACE))
                a, b = z3.String(fresh_name("lead")), z3.String(fresh_name("trail"))
                run = interp.run
                run.assume(zstr(recv) == z3.Concat(a, r, b))
                run.assume(r == z3.SubString(zstr(recv), z3.Length(a), z3.Length(r)))
                al = interp.__dict__.get("alphabets", {}).get(zstr(recv).sexpr())
                if al is not None:
                    run.assume(z3.InRe(r, z3.Star(_chars_re(al))))
                    interp.alphabets[r.sexpr()] = al
                run.assume(z3.InRe(a, z3.Star(ws)))
                run.assume(z3.InRe(b, z3.Star(ws)))
                anyc = z3.Star(_chars_re(range(128)))
                run.assume(z3.InRe(r, z3.Union(z3.Re(""), nows, z3.Concat(nows, anyc, nows))))
        return r
    if name in ("rstrip", "lstrip") and not args and not kwargs:
        # str.rstrip() / lstrip() without an argument: uninterpreted, idempotent, never longer than the subject, a prefix / suffix of it, and the
        # identity on a string whose last / first character is not a blank (ASCII blanks as measured)
        f = z3.Function("py_str_" + name, z3.StringSort(), z3.StringSort())
        interp.trusted.add(f"engine: str.{name}() is an uninterpreted function String->String: idempotent, a {'prefix' if name == 'rstrip' else 'suffix'} of its subject, "
                           "the identity when the subject's edge character is not a blank")
        sv = zstr(recv)
        r = f(sv)
        run = interp.run
        run.assume(f(r) == r)
        run.assume(z3.PrefixOf(r, sv) if name == "rstrip" else z3.SuffixOf(r, sv))
        nows = _chars_re(set(range(128)) - set(_SPACE))
        anyc = z3.Star(_chars_re(range(128)))
        edge_ok = z3.InRe(sv, z3.Concat(anyc, nows)) if name == "rstrip" else z3.InRe(sv, z3.Concat(nows, anyc))
        run.assume(z3.Implies(z3.Or(edge_ok, z3.Length(sv) == 0), r == sv))
        return r
    raise Unsupported(f"str.{name}")
