"""String and regex models (filled in for the naming / cue-sheet properties)."""
import z3
from .values import *


def str_method(interp, recv, name, args, kwargs, fr):
    if isinstance(recv, str) and all(not is_z3(a) for a in args):
        if name in ("upper", "lower", "strip", "title", "replace", "startswith", "endswith", "encode", "split",
                    "lstrip", "rstrip", "join", "isdigit"):
            if name == "encode":
                return ListV(list(recv.encode(*args)), elem="int", kind="bytes")
            if name == "join":
                l = interp.as_list(args[0], fr)
                if l.items is not None and all(isinstance(x, str) for x in l.items):
                    return recv.join(l.items)
            else:
                r = getattr(recv, name)(*args)
                if isinstance(r, list):
                    return ListV(r)
                return r
    if name == "join":
        l = interp.as_list(args[0], fr)
        if l.items is None:
            raise Unsupported("join over symbolic list")
        parts = []
        for i, x in enumerate(l.items):
            if i:
                parts.append(zstr(recv))
            parts.append(zstr(x))
        if not parts:
            return ""
        return z3.Concat(parts) if len(parts) > 1 else parts[0]
    if name in ("lower", "upper", "strip"):
        # uninterpreted total functions on strings (sound: no property of them is assumed
        # beyond functionality) unless a string theory model is installed by strings_ext
        f = z3.Function("py_str_" + name, z3.StringSort(), z3.StringSort())
        interp.trusted.add(f"engine: str.{name} is an uninterpreted function String->String")
        return f(zstr(recv))
    raise Unsupported(f"str.{name}")


def regex_method(interp, recv, name, args, kwargs, fr):
    raise Unsupported(f"regex method {name}")
