"""Ground-instantiation back end for quantified VCs over integers, arrays and uninterpreted functions.

The VC (hypotheses and negated goal) is brought into skolemised negation normal form (z3's `snf` tactic: every remaining quantifier is a
universal one in positive position), then every universal subformula is REPLACED by the conjunction of its instances at the ground integer terms
that occur in the VC as array indices or function arguments (shifted by the constant offsets under which the bound variable itself is used as
an index: `a[k + 1]` instantiates k with t - 1).  The terms of one round's instances feed the next round.  The result is quantifier-free and
WEAKER than the VC (a universal hypothesis implies each of its instances), so

    unsat of the instantiated formula  =>  unsat of the VC            (sound: `unsat` discharges)
    sat of the instantiated formula    =>  nothing                    (never reported as a refutation)

Why it exists: z3's own quantifier engines (E-matching + MBQI) decide some of the decoder VCs in a second under one random seed and not in
minutes under another; this procedure is deterministic, needs no seed, and its only solver call is a quantifier-free one.
"""
import itertools
import z3

MAX_TERMS = 250
MAX_INSTANCES = 150000


def _is_int(e):
    return z3.is_expr(e) and e.sort().kind() == z3.Z3_INT_SORT


def _has_var(e, cache):
    k = e.get_id()
    if k in cache:
        return cache[k][1]
    if z3.is_var(e):
        r = True
    elif z3.is_quantifier(e):
        r = True            # conservatively: never take terms out of a quantifier body as ground
    else:
        r = any(_has_var(c, cache) for c in e.children())
    cache[k] = (e, r)       # the key is z3's AST id: keep the AST alive, or the id could be given to another term
    return r


def _index_positions(e):
    """Children of e that are index-like: select/store indices and arguments of uninterpreted functions."""
    if not z3.is_app(e):
        return []
    k = e.decl().kind()
    if k == z3.Z3_OP_SELECT:
        return list(e.children()[1:])
    if k == z3.Z3_OP_STORE:
        return list(e.children()[1:-1])
    if k == z3.Z3_OP_UNINTERPRETED and e.num_args() > 0:
        return list(e.children())
    return []


def ground_terms(fmls):
    """Ground Int terms in index position, plus Int constants that are skolem / free symbols compared with something."""
    seen, out, gcache = {}, {}, {}

    def visit(e):
        if e.get_id() in seen:
            return
        seen[e.get_id()] = e
        if z3.is_quantifier(e):
            visit_body(e.body())
            return
        for c in _index_positions(e):
            if _is_int(c) and not _has_var(c, gcache):
                out.setdefault(c.get_id(), c)
        for c in e.children():
            visit(c)

    def visit_body(e):
        # inside a quantifier: ground subterms in index position still count
        if e.get_id() in seen:
            return
        seen[e.get_id()] = e
        if z3.is_quantifier(e):
            visit_body(e.body())
            return
        for c in _index_positions(e):
            if _is_int(c) and not _has_var(c, gcache):
                out.setdefault(c.get_id(), c)
        for c in e.children():
            visit_body(c)
    for f in fmls:
        visit(f)
    return list(out.values())


def _offsets(body, nvars):
    """For each de-Bruijn variable: the constant offsets c such that (var + c) is used in index position."""
    offs = [set([0]) for _ in range(nvars)]
    seen = {}

    def lin(e):
        # e == var_i + c ?
        if z3.is_var(e):
            return z3.get_var_index(e), 0
        if z3.is_app(e) and e.decl().kind() == z3.Z3_OP_ADD and e.num_args() == 2:
            a, b = e.children()
            if z3.is_var(a) and z3.is_int_value(b):
                return z3.get_var_index(a), b.as_long()
            if z3.is_var(b) and z3.is_int_value(a):
                return z3.get_var_index(b), a.as_long()
        if z3.is_app(e) and e.decl().kind() == z3.Z3_OP_SUB and e.num_args() == 2:
            a, b = e.children()
            if z3.is_var(a) and z3.is_int_value(b):
                return z3.get_var_index(a), -b.as_long()
        return None

    def visit(e, depth):
        if (e.get_id(), depth) in seen:
            return
        seen[(e.get_id(), depth)] = e
        if z3.is_quantifier(e):
            visit(e.body(), depth + e.num_vars())
            return
        for c in _index_positions(e):
            r = lin(c)
            if r is not None:
                i, k = r
                i -= depth
                if 0 <= i < nvars:
                    offs[i].add(k)
        for c in e.children():
            visit(c, depth)
    visit(body, 0)
    return offs


class TooBig(Exception):
    pass


def instantiate(f, terms, budget):
    """Replace every universal quantifier (positive position, NNF input) by the conjunction of its instances.  Works on the quantifier BODIES
    (nested quantifiers are eliminated inside the body first, the enclosing variables staying de-Bruijn variables), so the Python-side walk is done
    once per quantifier and each instance costs one substitution."""
    cache = {}
    ctx = f.ctx
    int_sort = z3.IntSort(ctx)

    def go(e, depth):
        """e lives under `depth` enclosing bound variables; returns (quantifier-free formula with the same free variables, number of instances)."""
        k = (e.get_id(), depth)
        if k in cache:
            return cache[k][1]
        if z3.is_quantifier(e):
            if not e.is_forall():
                raise TooBig("existential quantifier left after skolemisation")
            n = e.num_vars()
            if any(e.var_sort(i).kind() != z3.Z3_INT_SORT for i in range(n)):
                raise TooBig("non-integer bound variable")
            body = e.body()
            offs = _offsets(body, n)
            body1, inner = go(body, depth + n)
            cands = []
            for v in range(n):          # variable v of the binder has de-Bruijn index n-1-v in the body
                idx = n - 1 - v
                cs, ids = [], set()
                for t in terms:
                    for c in sorted(offs[idx]):
                        u = z3.simplify(t - c) if c else t
                        if u.get_id() not in ids:
                            ids.add(u.get_id())
                            cs.append(u)
                cands.append(cs)
            total = max(1, inner)
            for cs in cands:
                total *= max(1, len(cs))
            if total > budget[0]:
                raise TooBig("instance budget exhausted")
            outer = [z3.Var(j, int_sort) for j in range(depth)]     # the enclosing variables move down by n places
            insts = [z3.substitute_vars(body1, *(list(reversed(combo)) + outer)) for combo in itertools.product(*cands)]
            r = (z3.And(*insts) if insts else z3.BoolVal(True, ctx)), total
        elif z3.is_app(e) and e.num_args() > 0 and e.sort().kind() == z3.Z3_BOOL_SORT and \
                e.decl().kind() in (z3.Z3_OP_AND, z3.Z3_OP_OR) and _contains_quantifier(e):
            ch = [go(c, depth) for c in e.children()]
            fs = [c[0] for c in ch]
            r = (z3.And(*fs) if e.decl().kind() == z3.Z3_OP_AND else z3.Or(*fs)), sum(c[1] for c in ch)
        else:
            if _contains_quantifier(e):
                raise TooBig("quantifier below a non-monotone connective after NNF")
            r = (e, 0)
        cache[k] = (e, r)   # keeps e alive: an AST id is only unique among live terms
        return r
    g, n = go(f, 0)
    budget[0] -= n
    if budget[0] < 0:
        raise TooBig("instance budget exhausted")
    return g


_QC = {}


def _contains_quantifier(e):
    k = e.get_id()
    if k in _QC:
        return _QC[k][1]
    r = z3.is_quantifier(e) or any(_contains_quantifier(c) for c in e.children())
    _QC[k] = (e, r)
    return r


def solve(smt2, rounds=3, rlimit=None, timeout_ms=None):
    """Returns ('unsat' | 'unknown', info)."""
    _QC.clear()
    ctx = z3.Context()          # fresh context: AST numbering, hence the solver's behaviour, does not depend on the history of the process
    s0 = z3.Solver(ctx=ctx)
    s0.from_string(smt2)
    g = z3.Goal(ctx=ctx)
    for a in s0.assertions():
        g.add(z3.simplify(a))       # beta-reduces the array lambdas the engine prints for list concatenations
    try:
        sn = z3.Then(z3.Tactic("simplify", ctx), z3.Tactic("snf", ctx), ctx=ctx)(g)
    except z3.Z3Exception as e:
        return "unknown", f"ginst: snf failed: {e}"
    if len(sn) != 1:
        return "unknown", "ginst: snf split the goal"
    fmls = [sn[0][i] for i in range(len(sn[0]))]
    ground = [f for f in fmls if not _contains_quantifier(f)]
    quant = [f for f in fmls if _contains_quantifier(f)]
    cur = list(fmls)
    info = ""
    for rnd in range(1, rounds + 1):
        terms = ground_terms(cur)
        if len(terms) > MAX_TERMS:
            return "unknown", f"ginst: {len(terms)} index terms in round {rnd} (cap {MAX_TERMS})" + info
        if not terms:
            terms = [z3.IntVal(0, ctx)]
        budget = [MAX_INSTANCES]
        try:
            inst = [instantiate(f, terms, budget) for f in quant]
        except TooBig as e:
            return "unknown", f"ginst: {e} in round {rnd}" + info
        s = z3.Solver(ctx=ctx)
        if rlimit:
            s.set("rlimit", int(rlimit))
        if timeout_ms:
            s.set("timeout", int(timeout_ms))
        for f in ground + inst:
            s.add(f)
        r = s.check()
        info += f" | round {rnd}: {len(terms)} terms, {MAX_INSTANCES - budget[0]} instances -> {r}"
        if r == z3.unsat:
            return "unsat", "ginst" + info
        cur = ground + inst
    return "unknown", "ginst" + info


if __name__ == "__main__":
    import sys
    import time
    for p in sys.argv[1:]:
        t0 = time.time()
        print(p, solve(open(p).read(), timeout_ms=60000), round(time.time() - t0, 2))
