"""Driver: generate VCs for one contract from the current /repo source, discharge, extract models."""
import json
import os
import subprocess
import time
import traceback
import z3

from .source import SourceIndex, AnchorLost, REPO
from .contract import REGISTRY
from .run import Explorer
from .exec import Interp
from .values import PathEnd, EngineError, Unsupported, is_z3
from . import solve

VENV_PY = "/venv/bin/python"
HERE = os.path.dirname(os.path.dirname(os.path.abspath(__file__)))

_LIVE = None


def live_dump(refresh=False):
    global _LIVE
    if _LIVE is None or refresh:
        env = dict(os.environ, VERIF_REPO=REPO)
        p = subprocess.run([VENV_PY, os.path.join(HERE, "drivers", "dump_live.py")], capture_output=True,
                           text=True, env=env, timeout=300)
        if p.returncode != 0:
            raise EngineError("live dump failed: " + p.stderr[-2000:])
        _LIVE = json.loads(p.stdout)
    return _LIVE


class FunctionReport:
    def __init__(self, key):
        self.key = key
        self.info = None
        self.obligations = []
        self.status = "ok"        # ok | undecided | anchor-lost
        self.reason = ""
        self.paths = 0
        self.cover = {}
        self.trusted = set()
        self.gen_time = 0.0
        self.variant = None

    def labels(self):
        out = {}
        for ob in self.obligations:
            out.setdefault(ob.label, []).append(ob)
        return out

    def summary(self):
        labs = self.labels()
        res = {}
        for l, obs in labs.items():
            sts = {o.status for o in obs}
            if "refuted" in sts:
                res[l] = "refuted"
            elif "unknown" in sts:
                res[l] = "unknown"
            else:
                res[l] = "discharged"
        return res


def generate(con, index=None, live=None, canary=False):
    """Symbolically execute the function under contract `con`; returns a FunctionReport with VCs."""
    index = index or SourceIndex()
    live = live or live_dump()
    rep = FunctionReport(con.key)
    t0 = time.time()
    try:
        if getattr(con, "lemma_src", None):
            # a lemma over real functions: a tiny harness body (in /verif) that only *calls* repo code
            import ast as _ast
            from .source import FuncInfo
            m = index.module(con.lemma_module)
            tree = _ast.parse(con.lemma_src)
            node = tree.body[0]
            info = FuncInfo(con.lemma_module, "lemma_" + node.name, node, None, "<lemma>", con.lemma_src.split("\n"))
            for dep in getattr(con, "lemma_deps", []):
                index.func(dep)      # anchors must exist
        else:
            fkey = getattr(con, "source_key", None) or con.key.split("#")[0]
            info = index.func(fkey)
    except AnchorLost as e:
        rep.status, rep.reason = "anchor-lost", str(e)
        return rep
    except SyntaxError as e:
        rep.status, rep.reason = "anchor-lost", f"syntax error in source: {e}"
        return rep
    rep.info = info
    cases = con.cases or [None]
    unsupported = []
    try:
        for case in cases:
            ex = Explorer(con.key + (f"[{case[0]}]" if case else ""), max_paths=con.max_paths)
            while True:
                run = ex.next_run()
                if run is None:
                    break
                it = Interp(index, live, REGISTRY, run, con)
                try:
                    it.run_function(con, info, case)
                    if canary and run.recording():
                        run.oblige(f"{con.key}:canary", False, kind="canary")
                except PathEnd:
                    pass
                except Unsupported as e:
                    # only THIS path left the supported subset: the obligations of the other paths are still generated and
                    # decided (a refutation on a fully supported path stands); the function as a whole stays undecided
                    unsupported.append(str(e))
                rep.trusted |= it.trusted
            for ob in ex.obligations:
                if case:
                    ob.label = ob.label + f"[{case[0]}]"
            rep.obligations += ex.obligations
            rep.paths += ex.paths
            rep.cover.update(ex.cover)
    except EngineError as e:
        rep.status, rep.reason = "undecided", f"{type(e).__name__}: {e}"
    except RecursionError as e:
        rep.status, rep.reason = "undecided", "recursion limit in engine"
    except Exception as e:  # noqa  -- an engine defect on unforeseen syntax must degrade to "undecided", never to an alarm
        rep.status, rep.reason = "undecided", f"engine failure {type(e).__name__}: {e} @ {traceback.format_exc().splitlines()[-3].strip()[:120]}"
        rep.obligations = [ob for ob in rep.obligations]
        if os.environ.get("VERIF_TRACE"):
            traceback.print_exc()
    if unsupported and rep.status == "ok":
        rep.status = "undecided"
        rep.reason = f"Unsupported on {len(unsupported)} of {rep.paths} paths: {unsupported[0]}"
    if rep.status == "ok" and rep.paths > 0 and not any(k == "return" or str(k).startswith("raise:") for k in rep.cover):
        # every explored path ended in a contradiction of the ASSUMPTIONS (a requires / callee contract that excludes everything):
        # nothing was proved about any execution - vacuous, not "ok"
        rep.status = "undecided"
        rep.reason = f"vacuous: none of the {rep.paths} paths reaches a return or a raise (contradictory assumptions)"
    rep.gen_time = time.time() - t0
    return rep


def verify(con, **kw):
    rep = generate(con, **kw)
    solve.discharge(rep.obligations)
    return rep


def model_for(ob, timeout_ms=30000):
    """Re-solve a refuted obligation in-process to read a counter-model (dict name -> python value)."""
    s = z3.Solver()
    s.set("timeout", timeout_ms)
    for p in ob.pc:
        s.add(p)
    s.add(z3.Not(ob.goal))
    if s.check() != z3.sat:
        return None
    return s.model()
