"""Symbolic value domain of the pyvc executor."""
import itertools
import z3

_counter = itertools.count()


def fresh_name(base):
    import pyvc.values as _self
    return f"{base}!{next(_self._counter)}"


class EngineError(Exception):
    """The engine cannot decide (unsupported construct, missing contract ...): undecided, never a violation."""


class Unsupported(EngineError):
    pass


class UnresolvedName(Unsupported):
    pass


class PathEnd(Exception):
    pass


class PyRaise(Exception):
    def __init__(self, exc, payload=None):
        super().__init__(exc)
        self.exc = exc
        self.payload = payload


class ReturnEx(Exception):
    def __init__(self, value):
        self.value = value


class BreakEx(Exception):
    pass


class ContinueEx(Exception):
    pass


def is_z3(v):
    return isinstance(v, z3.ExprRef)


def is_int(v):
    return (isinstance(v, int) and not isinstance(v, bool)) or (is_z3(v) and z3.is_int(v))


def is_boolv(v):
    return isinstance(v, bool) or (is_z3(v) and z3.is_bool(v))


def is_strv(v):
    return isinstance(v, str) or (is_z3(v) and z3.is_string(v))


def is_real(v):
    return isinstance(v, float) or (is_z3(v) and z3.is_real(v))


def zint(v):
    if isinstance(v, bool):
        return z3.IntVal(1 if v else 0)
    if isinstance(v, int):
        return z3.IntVal(v)
    if is_z3(v) and z3.is_bool(v):
        return z3.If(v, z3.IntVal(1), z3.IntVal(0))
    return v


def zbool(v):
    if isinstance(v, bool):
        return z3.BoolVal(v)
    return v


def zstr(v):
    if isinstance(v, str):
        return z3.StringVal(v)
    return v


def zval(v):
    if isinstance(v, bool):
        return z3.BoolVal(v)
    if isinstance(v, int):
        return z3.IntVal(v)
    if isinstance(v, str):
        return z3.StringVal(v)
    if isinstance(v, float):
        return z3.RealVal(repr(v))
    return v


def sort_of(desc):
    if desc == "opaque":
        return z3.IntSort()
    if desc in ("int", "byte"):
        return z3.IntSort()
    if desc == "bool":
        return z3.BoolSort()
    if desc == "str":
        return z3.StringSort()
    if desc == "real":
        return z3.RealSort()
    raise Unsupported(f"no z3 sort for {desc!r}")


class ListV:
    """A Python list/bytes/tuple-like sequence.  Either concrete (`items` is a Python list of
    values) or symbolic (`length` z3/py int, `arr` a z3 array or, for records, a dict of arrays)."""

    def __init__(self, items=None, length=None, arr=None, elem=None, kind="list"):
        self.items = items
        self.length = length
        self.arr = arr
        self.elem = elem
        self.kind = kind      # list | bytes | tuple

    def is_concrete(self):
        return self.items is not None

    def copy(self):
        return ListV(None if self.items is None else list(self.items), self.length, self.arr, self.elem, self.kind)

    def assign_from(self, other):
        self.items = None if other.items is None else list(other.items)
        self.length, self.arr, self.elem = other.length, other.arr, other.elem

    def __repr__(self):
        if self.items is not None:
            return f"ListV({self.items})"
        return f"ListV(len={self.length}, elem={self.elem})"


class RecV:
    """Immutable value record (dataclass instance treated by value; see DESIGN D.5)."""

    def __init__(self, cls, fields, desc=None):
        self.cls = cls
        self.fields = fields
        self.desc = desc

    def __repr__(self):
        return f"RecV({self.cls}, {self.fields})"


class Obj:
    """Mutable heap object with concrete identity."""

    def __init__(self, cls, fields=None, abstract=None):
        self.cls = cls              # ClassInfo or None
        self.abstract = abstract    # name of an abstract (contract-only) class, e.g. "ROF"
        self.fields = fields or {}

    @property
    def clsname(self):
        return self.abstract or (self.cls.name if self.cls else "?")

    def __repr__(self):
        return f"Obj<{self.clsname}>"


class OptV:
    """Optional value: `isnone` (bool / z3 Bool) and the value when present."""

    def __init__(self, isnone, val):
        self.isnone = isnone
        self.val = val


class SymKey:
    """A symbolic (z3 term) key of a DictV / SetV.  Hashable by identity.  INVARIANT kept by the store operations: the keys of
    one dict are pairwise different under the current path condition (every store of a symbolic key splits the path on
    'equals an existing key' / 'new key'), so len() and iteration are exact."""
    __slots__ = ("term",)

    def __init__(self, term):
        self.term = term

    def __repr__(self):
        return f"SymKey({self.term})"


def key_value(k):
    return k.term if isinstance(k, SymKey) else k


class DictV:
    """Dict in insertion order; keys are concrete hashable Python values or SymKey wrappers of z3 terms."""

    def __init__(self, d=None):
        self.d = dict(d or {})

    def symbolic(self):
        return any(isinstance(k, SymKey) for k in self.d)

    def keys(self):
        return [key_value(k) for k in self.d]

    def items(self):
        return [(key_value(k), v) for k, v in self.d.items()]


class SetV(DictV):
    """Set = DictV whose values are True."""


class FuncRef:
    def __init__(self, info, closure=None):
        self.info = info          # source.FuncInfo
        self.closure = closure


class LambdaV:
    def __init__(self, node, frame):
        self.node = node
        self.frame = frame


class BoundMethod:
    def __init__(self, recv, func):
        self.recv = recv
        self.func = func          # FuncInfo, or a string naming an abstract method


class ClassRef:
    def __init__(self, key, info=None, exc_bases=None, enum=None):
        self.key = key            # "module:Name"
        self.info = info
        self.exc_bases = exc_bases
        self.enum = enum          # dict with members for Enum classes

    @property
    def name(self):
        return self.key.split(":")[-1]


class EnumMember:
    """Member of a non-int Enum; hashable so it can key a DictV."""

    def __init__(self, name, value):
        self.name = name
        self.value = value

    def __eq__(self, o):
        return isinstance(o, EnumMember) and o.name == self.name

    def __hash__(self):
        return hash(("EnumMember", self.name))

    def __repr__(self):
        return self.name


class ExcV:
    def __init__(self, name, args=()):
        self.name = name
        self.args = args


class IterV:
    def __init__(self, lst, pos=0):
        self.lst = lst
        self.pos = pos


class RegexV:
    def __init__(self, pattern, flags):
        self.pattern = pattern
        self.flags = flags


class NdV:
    """numpy array model: shape (tuple of ints) and an index function tuple -> value."""

    def __init__(self, shape, fn, dtype=None):
        self.shape = shape
        self.fn = fn
        self.dtype = dtype


class ModuleV:
    def __init__(self, name):
        self.name = name


class Opaque:
    def __init__(self, what):
        self.what = what

    def __repr__(self):
        return f"Opaque({self.what})"


class MatchV:
    """A successful re match object: pattern, subject text and the translated pattern."""

    def __init__(self, rx, text, tr):
        self.rx, self.text, self.tr = rx, text, tr
