"""Symbolic interpreter for the Python subset (expressions).  Statements are in exec.py."""
import ast
import z3
from .values import *
from . import ops
from .ops import (fresh, list_len, list_get, list_set, list_append, list_concat, list_slice,
                  list_repeat, val_eq, truth, znot, zand, zor, zimplies, zite, zmin, zmax, to_symbolic, desc_of)

BUILTIN_EXC = {
    "BaseException": [], "Exception": ["BaseException"],
    "LookupError": ["Exception"], "IndexError": ["LookupError", "Exception"],
    "KeyError": ["LookupError", "Exception"], "StopIteration": ["Exception"],
    "ValueError": ["Exception"], "TypeError": ["Exception"], "ArithmeticError": ["Exception"],
    "ZeroDivisionError": ["ArithmeticError", "Exception"], "RuntimeError": ["Exception"],
    "NotImplementedError": ["RuntimeError", "Exception"], "AttributeError": ["Exception"],
    "UnicodeError": ["ValueError", "Exception"], "UnicodeDecodeError": ["UnicodeError", "ValueError", "Exception"],
    "AssertionError": ["Exception"], "OSError": ["Exception"], "EOFError": ["Exception"],
    "re.error": ["Exception"], "error": ["Exception"],
}


class Frame:
    def __init__(self, module, cls=None, func=None, spec=False, parent=None):
        self.locals = {}
        self.module = module
        self.cls = cls
        self.func = func
        self.spec = spec
        self.olds = {}
        self.defs = {}
        self.parent = parent      # enclosing frame for closures (lambdas, nested defs)

    def lookup(self, name):
        f = self
        while f is not None:
            if name in f.locals:
                return True, f.locals[name]
            f = f.parent
        return False, None


_PARSE_CACHE = {}


def parse_expr(text):
    if text not in _PARSE_CACHE:
        _PARSE_CACHE[text] = ast.parse(text.strip(), mode="eval").body
    return _PARSE_CACHE[text]


class InterpBase:
    def __init__(self, index, live, registry, run, top_contract):
        self.index = index
        self.live = live
        self.registry = registry
        self.run = run
        self.top = top_contract
        self.depth = 0
        self.frames = []
        self.track = []           # stack of write logs (loop bodies)
        self.exc_parents = dict(BUILTIN_EXC)
        self.events = []
        self._live_cache = {}
        self.trusted = set()      # names of assumed contracts / models used on this run
        for mod, names in live["modules"].items():
            for k, v in names.items():
                if isinstance(v, dict) and "exc_bases" in v:
                    self.exc_parents[v["__class__"].split(":")[-1].split(".")[-1]] = list(v["exc_bases"])

    # ------------------------------------------------------------ names
    def decode_live(self, v, module):
        if not isinstance(v, dict):
            return v
        if "__member__" in v:
            if v["value"] is not None and self._enum_is_int(v["__member__"].split(".")[0]):
                return v["value"]
            return EnumMember(v["__member__"], v["value"])
        if "__float__" in v:
            return float(v["__float__"])
        if "__bytes__" in v:
            return ListV(list(bytes.fromhex(v["__bytes__"])), elem="int", kind="bytes")
        if "__regex__" in v:
            return RegexV(v["__regex__"], v["flags"])
        if "__enum__" in v:
            return ClassRef(v["module"] + ":" + v["__enum__"], enum=v)
        if "__class__" in v:
            key = v["__class__"]
            info = None
            mod, name = key.split(":")
            if mod.startswith("smpl_extract") and "." not in name:
                try:
                    info = self.index.cls(key)
                except Exception:
                    info = None
            return ClassRef(key, info=info, exc_bases=v.get("exc_bases"))
        if "__func__" in v:
            key = v["__func__"]
            mod = key.split(":")[0]
            if mod.startswith("smpl_extract"):
                try:
                    return FuncRef(self.index.func(key))
                except Exception:
                    return Opaque(key)
            return Opaque(key)
        if "__lambda__" in v:
            path = v["__lambda__"]
            for m in list(self.index.modules.values()):
                if m.path == path and v["lineno"] in m.lambdas:
                    return LambdaV(m.lambdas[v["lineno"]], Frame(m.name))
            # module may not be loaded yet
            rel = path.replace(self.index.repo + "/", "").replace(".py", "").replace("/", ".")
            if self.index.has_module(rel):
                m = self.index.module(rel)
                if v["lineno"] in m.lambdas:
                    return LambdaV(m.lambdas[v["lineno"]], Frame(m.name))
            return Opaque("lambda")
        if "__dict__" in v:
            d = {}
            for k, x in v["__dict__"]:
                kk = self.decode_live(k, module)
                d[kk] = self.decode_live(x, module)
            return DictV(d)
        if "__seq__" in v:
            items = [self.decode_live(x, module) for x in v["__seq__"]]
            return tuple(items) if v.get("tuple") else ListV(items)
        if "__module__" in v:
            return ModuleV(v["__module__"])
        if "__opaque__" in v:
            return Opaque(v["__opaque__"])
        return Opaque(str(v))

    def _enum_is_int(self, enum_name):
        for mod, names in self.live["modules"].items():
            e = names.get(enum_name)
            if isinstance(e, dict) and "__enum__" in e:
                return bool(e.get("int"))
        return True

    def global_lookup(self, module, name):
        key = (module, name)
        if key in self._live_cache:
            return self._live_cache[key]
        if self.top is not None and name in self.top.bind and name in getattr(self, "bound_globals", {}):
            return self.bound_globals[name]      # module constant bound to a symbol by the contract (any module)
        mod = self.live["modules"].get(module)
        if mod is not None and name in mod:
            v = self.decode_live(mod[name], module)
            self._live_cache[key] = v
            return v
        raise KeyError(name)

    # ------------------------------------------------------------ helpers
    def py_raise(self, name, payload=None):
        raise PyRaise(name, payload)

    def is_subclass_exc(self, name, handler):
        if name == handler:
            return True
        return handler in self.exc_parents.get(name, ["Exception", "BaseException"])

    def log_write(self, obj, field):
        for log in self.track:
            log.append((obj, field))

    def set_attr(self, obj, name, v):
        if isinstance(obj, RecV):
            raise Unsupported(f"attribute store on value record {obj.cls}.{name}")
        if not isinstance(obj, Obj):
            raise Unsupported(f"attribute store on {obj!r}")
        self.log_write(obj, name)
        obj.fields[name] = v

    def index_value(self, fr, seq, i):
        """seq[i] with Python semantics (negative indices, IndexError) in code mode."""
        if isinstance(seq, tuple):
            seq = ListV(list(seq), kind="tuple")
        if isinstance(seq, DictV):
            return self.dict_get(fr, seq, i, raise_key=True)
        if isinstance(seq, (Obj, RecV)) and isinstance(i, str):
            # construct.Container: container["field"] is container.field
            if i in seq.fields:
                return seq.fields[i]
            self.py_raise("KeyError")
        if isinstance(seq, NdV):
            return self.nd_index(seq, i)
        if is_z3(seq) and z3.is_string(seq) or isinstance(seq, str):
            s = zstr(seq)
            n = z3.Length(s)
            if isinstance(i, int) and i < 0:
                idx = n + i
            else:
                idx = zint(i)
            if not fr.spec:
                if not self.run.branch(z3.And(idx >= 0, idx < n)):
                    self.py_raise("IndexError")
            return z3.SubString(s, idx, 1)
        if not isinstance(seq, ListV):
            raise Unsupported(f"indexing {seq!r}")
        n = list_len(seq)
        if isinstance(i, int) and isinstance(n, int):
            if -n <= i < n:
                return list_get(seq, i % n if n else i)
            if fr.spec:
                # out-of-range index in a specification denotes an arbitrary value (guards decide)
                if seq.items is not None and any(isinstance(x, Obj) for x in seq.items):
                    return Obj(None, {}, abstract="<no such element>")       # an object different from every existing one
                c = to_symbolic(seq.copy())
                return list_get(c, i if i >= 0 else i + n)
            self.py_raise("IndexError")
        if fr.spec:
            if isinstance(i, int) and i < 0:
                return list_get(seq, zint(n) + i)
            return list_get(seq, i)
        zi, zn = zint(i), zint(n)
        k = self.run.choose([z3.And(zi >= 0, zi < zn), z3.And(zi < 0, zi >= -zn),
                             z3.Or(zi >= zn, zi < -zn)], names=["idx", "negidx", "IndexError"])
        if k == 0:
            return list_get(seq, i)
        if k == 1:
            return list_get(seq, zn + zi)
        self.py_raise("IndexError")

    def store_index(self, fr, seq, i, v):
        if isinstance(seq, DictV):
            self.log_write(seq, "*")
            self.dict_store(fr, seq, i, v)
            return
        if not isinstance(seq, ListV):
            raise Unsupported(f"index store on {seq!r}")
        n = list_len(seq)
        self.log_write(seq, "*")
        if isinstance(i, int) and isinstance(n, int):
            if -n <= i < n:
                list_set(seq, i % n, v)
                return
            self.py_raise("IndexError")
        zi, zn = zint(i), zint(n)
        k = self.run.choose([z3.And(zi >= 0, zi < zn), z3.And(zi < 0, zi >= -zn),
                             z3.Or(zi >= zn, zi < -zn)], names=["idx", "negidx", "IndexError"])
        if k == 0:
            list_set(seq, i, v)
        elif k == 1:
            list_set(seq, zn + zi, v)
        else:
            self.py_raise("IndexError")

    def dict_store(self, fr, d, key, v):
        """d[key] = v.  A symbolic key (or any key when the dict already holds symbolic keys) splits the path:
        'equals existing key k' (replace) for each k, or 'new key' (append) - keeping the keys pairwise different."""
        if isinstance(key, ListV):
            raise Unsupported("unhashable key")
        sym = is_z3(key) or (isinstance(key, tuple) and any(is_z3(x) for x in key))
        if not sym and not d.symbolic():
            d.d[key] = v
            return
        if fr.spec:
            raise Unsupported("dict store in a specification")
        keys = list(d.d.keys())
        conds = [zbool(val_eq(k, key)) for k in keys]
        new = z3.Not(z3.Or(conds)) if conds else z3.BoolVal(True)
        idx = self.run.choose(conds + [new], names=[f"key={k!r}" for k in keys] + ["new-key"])
        if idx < len(keys):
            d.d[keys[idx]] = v
        else:
            d.d[SymKey(key) if sym else key] = v

    def dict_remove(self, fr, d, key, must_exist=False):
        keys = list(d.d.keys())
        if not is_z3(key) and not d.symbolic():
            if key in d.d:
                del d.d[key]
            elif must_exist:
                self.py_raise("KeyError")
            return
        conds = [zbool(val_eq(k, key)) for k in keys]
        miss = z3.Not(z3.Or(conds)) if conds else z3.BoolVal(True)
        idx = self.run.choose(conds + [miss], names=[f"key={k!r}" for k in keys] + ["miss"])
        if idx < len(keys):
            del d.d[keys[idx]]
        elif must_exist:
            self.py_raise("KeyError")

    def dict_get(self, fr, d, key, raise_key=False, default=None):
        if not is_z3(key) and not d.symbolic():
            if isinstance(key, ListV):
                raise Unsupported("unhashable key")
            if isinstance(key, tuple) and any(is_z3(x) for x in key):
                # tuple key with symbolic parts: compare component-wise
                pass
            else:
                if key in d.d:
                    return d.d[key]
                if raise_key:
                    self.py_raise("KeyError")
                return default
        # symbolic key: chain over concrete keys
        conds = []
        keys = list(d.d.keys())
        for k in keys:
            conds.append(zbool(val_eq(k, key)))
        miss = z3.Not(z3.Or(conds)) if conds else z3.BoolVal(True)
        if fr.spec:
            res = None
            for k, c in reversed(list(zip(keys, conds))):
                res = d.d[k] if res is None else zite(c, d.d[k], res)
            return res
        names = [f"key={k!r}" for k in keys] + ["miss"]
        # disjoint alternatives in insertion order
        alts = []
        prev = []
        for c in conds:
            alts.append(z3.And([c] + [z3.Not(p) for p in prev]) if prev else c)
            prev.append(c)
        alts.append(miss)
        idx = self.run.choose(alts, names=names)
        if idx < len(keys):
            return d.d[keys[idx]]
        if raise_key:
            self.py_raise("KeyError")
        return default

    def nd_index(self, a, i):
        if isinstance(i, tuple):
            return a.fn(tuple(i))
        if len(a.shape) == 1:
            return a.fn((i,))
        rest = a.shape[1:]
        return NdV(rest, lambda idx, i=i: a.fn((i,) + tuple(idx)), a.dtype)

    # ------------------------------------------------------------ arithmetic
    def binop(self, fr, op, a, b):
        if isinstance(a, OptV) or isinstance(b, OptV):
            raise Unsupported("arithmetic on Optional")
        if isinstance(a, float) or isinstance(b, float) or is_real(a) or is_real(b):
            return self.real_binop(fr, op, a, b)
        if isinstance(op, ast.Add):
            if isinstance(a, ListV) and isinstance(b, ListV):
                return list_concat(a, b)
            if isinstance(a, tuple) and isinstance(b, tuple):
                return a + b
            if is_strv(a) and is_strv(b):
                if isinstance(a, str) and isinstance(b, str):
                    return a + b
                return z3.Concat(zstr(a), zstr(b))
            if isinstance(a, ListV) or isinstance(b, ListV):
                raise Unsupported("list + non-list")
            return self._arith(lambda x, y: x + y, a, b)
        if isinstance(op, ast.Sub):
            return self._arith(lambda x, y: x - y, a, b)
        if isinstance(op, ast.Mult):
            if isinstance(a, ListV) and is_int(b):
                return list_repeat(a, b)
            if isinstance(b, ListV) and is_int(a):
                return list_repeat(b, a)
            if isinstance(a, str) and isinstance(b, int):
                return a * b
            if isinstance(a, tuple) and isinstance(b, int):
                return a * b
            return self._arith(lambda x, y: x * y, a, b)
        if isinstance(op, (ast.FloorDiv, ast.Mod)):
            if not is_z3(a) and not is_z3(b):
                if b == 0:
                    self.py_raise("ZeroDivisionError")
                return a // b if isinstance(op, ast.FloorDiv) else a % b
            za, zb = zint(a), zint(b)
            if is_z3(b):
                if not fr.spec:
                    # SMT-LIB div/mod agree with Python floor semantics for a positive divisor
                    self.run.oblige(self.label("divisor-positive"), zb > 0, kind="implicit")
                    self.run.assume(zb > 0)
            elif b <= 0:
                if b == 0:
                    self.py_raise("ZeroDivisionError")
                # negative constant divisor: floor semantics via negation
                if isinstance(op, ast.FloorDiv):
                    return (-za) / z3.IntVal(-b)
                return -((-za) % z3.IntVal(-b))
            return za / zb if isinstance(op, ast.FloorDiv) else za % zb
        if isinstance(op, ast.Div):
            return self.real_binop(fr, op, a, b)
        if isinstance(op, ast.Pow):
            if not is_z3(a) and not is_z3(b):
                return a ** b
            if isinstance(b, int) and b >= 0:
                r = 1
                for _ in range(b):
                    r = r * zint(a)
                return r
            raise Unsupported("symbolic power")
        if isinstance(op, (ast.BitAnd, ast.BitOr, ast.RShift, ast.LShift, ast.BitXor)):
            if not is_z3(a) and not is_z3(b):
                return {ast.BitAnd: lambda: a & b, ast.BitOr: lambda: a | b, ast.RShift: lambda: a >> b,
                        ast.LShift: lambda: a << b, ast.BitXor: lambda: a ^ b}[type(op)]()
            if isinstance(op, ast.RShift) and isinstance(b, int) and b >= 0:
                return zint(a) / z3.IntVal(2 ** b)     # floor division by a positive power of two
            if isinstance(op, ast.LShift) and isinstance(b, int) and b >= 0:
                return zint(a) * (2 ** b)
            if isinstance(op, ast.BitAnd) and isinstance(b, int) and b >= 0 and (b & (b + 1)) == 0:
                return zint(a) % z3.IntVal(b + 1)      # x & (2^k - 1) == x mod 2^k  (floor mod)
            if isinstance(op, ast.BitAnd) and isinstance(a, int) and a >= 0 and (a & (a + 1)) == 0:
                return zint(b) % z3.IntVal(a + 1)
            raise Unsupported(f"bit operation {type(op).__name__} on symbolic operands")
        raise Unsupported(f"binop {type(op).__name__}")

    def _arith(self, f, a, b):
        if not is_z3(a) and not is_z3(b):
            return f(a, b)
        return f(zint(a), zint(b))

    def real_binop(self, fr, op, a, b):
        def r(v):
            if isinstance(v, bool):
                v = int(v)
            if isinstance(v, int):
                return z3.RealVal(v)
            if isinstance(v, float):
                return z3.RealVal(repr(v)) if v == v and abs(v) != float("inf") else v
            if is_z3(v) and z3.is_int(v):
                return z3.ToReal(v)
            return v
        if not is_z3(a) and not is_z3(b):
            try:
                return {ast.Add: lambda: a + b, ast.Sub: lambda: a - b, ast.Mult: lambda: a * b,
                        ast.Div: lambda: a / b, ast.FloorDiv: lambda: a // b, ast.Mod: lambda: a % b,
                        ast.Pow: lambda: a ** b}[type(op)]()
            except ZeroDivisionError:
                self.py_raise("ZeroDivisionError")
        ra, rb = r(a), r(b)
        if isinstance(op, ast.Add):
            return ra + rb
        if isinstance(op, ast.Sub):
            return ra - rb
        if isinstance(op, ast.Mult):
            return ra * rb
        if isinstance(op, ast.Div):
            if not fr.spec:
                if not self.run.branch(rb != 0):
                    self.py_raise("ZeroDivisionError")
            return ra / rb
        raise Unsupported(f"real binop {type(op).__name__} (exact reals stand in for floats)")

    def compare(self, fr, op, a, b):
        if isinstance(op, (ast.Eq, ast.NotEq)):
            e = None
            if isinstance(a, (RecV, Obj)) and not fr.spec:
                ci = a.cls if isinstance(a, Obj) else self._class_by_name(fr, a.cls)
                fn = self.index.find_method(ci, "__eq__") if ci is not None else None
                if fn is not None:
                    e = truth(self.call_function(fn, [a, b], {}, fr))
            if e is None:
                e = val_eq(a, b)
            return e if isinstance(op, ast.Eq) else znot(e)
        if isinstance(op, (ast.Is, ast.IsNot)):
            if isinstance(a, OptV) and b is None:
                e = a.isnone
            elif isinstance(b, OptV) and a is None:
                e = b.isnone
            elif a is None or b is None:
                e = (a is None and b is None)
            elif isinstance(a, (Obj, ListV, DictV)) or isinstance(b, (Obj, ListV, DictV)):
                e = a is b
            else:
                e = val_eq(a, b)
            return e if isinstance(op, ast.Is) else znot(e)
        if isinstance(op, (ast.In, ast.NotIn)):
            e = self.contains(fr, b, a)
            return e if isinstance(op, ast.In) else znot(e)
        if isinstance(a, OptV) or isinstance(b, OptV):
            raise Unsupported("ordering on Optional")
        if isinstance(a, ListV) or isinstance(b, ListV) or isinstance(a, tuple) or isinstance(b, tuple):
            raise Unsupported("ordering on sequences")
        if not is_z3(a) and not is_z3(b):
            return {ast.Lt: a < b, ast.LtE: a <= b, ast.Gt: a > b, ast.GtE: a >= b}[type(op)]
        if is_strv(a) or is_strv(b):
            raise Unsupported("string ordering")
        za, zb = zval(a), zval(b)
        if z3.is_bool(za):
            za = zint(za)
        if z3.is_bool(zb):
            zb = zint(zb)
        if z3.is_real(za) != z3.is_real(zb):
            za = z3.ToReal(za) if z3.is_int(za) else za
            zb = z3.ToReal(zb) if z3.is_int(zb) else zb
        return {ast.Lt: za < zb, ast.LtE: za <= zb, ast.Gt: za > zb, ast.GtE: za >= zb}[type(op)]

    def contains(self, fr, container, x):
        if isinstance(container, tuple):
            container = ListV(list(container), kind="tuple")
        if isinstance(container, DictV):
            if not container.symbolic() and not is_z3(x) and not (isinstance(x, tuple) and any(is_z3(t) for t in x)):
                return x in container.d
            return zor(*[val_eq(k, x) for k in container.d])
        if isinstance(container, ListV):
            if container.items is not None:
                return zor(*[val_eq(it, x) for it in container.items])
            j = z3.Int(fresh_name("j"))
            el = list_get(container, j)
            return z3.Exists([j], z3.And(j >= 0, j < zint(container.length), zbool(val_eq(el, x))))
        if is_strv(container) and is_strv(x):
            if isinstance(container, str) and isinstance(x, str):
                return x in container
            return z3.Contains(zstr(container), zstr(x))
        raise Unsupported(f"'in' on {container!r}")

    def label(self, what):
        fr = self.frames[-1] if self.frames else None
        where = fr.func.key if fr and fr.func else "?"
        line = getattr(self, "cur_line", 0)
        return f"{where}@L{line}:{what}"
