"""Property-level check: VCs from the current tree, vacuity guards, counter-model replay on the
real code, bounded stand-ins, known findings, evidence.   Exit codes: 0 held / 1 violation / 3 checker error."""
import glob
import importlib
import json
import os
import subprocess
import sys
import time
import traceback

import z3

from . import verify, solve
from .contract import REGISTRY
from .source import SourceIndex, REPO
from .values import ListV, RecV, Obj, OptV, is_z3

HERE = os.path.dirname(os.path.dirname(os.path.abspath(__file__)))
VENV_PY = "/venv/bin/python"
EVID = os.environ.get("VERIF_EVIDENCE_DIR") or os.path.join(HERE, "evidence")
REPLAY_DIR = os.path.join(EVID, "replay")


def norm_label(l):
    import re
    return re.sub(r"@L\d+", "", l)


def load_contracts():
    mods = {}
    for p in sorted(glob.glob(os.path.join(HERE, "contracts", "*.py"))):
        name = os.path.basename(p)[:-3]
        if name.startswith("_"):
            continue
        m = importlib.import_module("contracts." + name)
        mods[name] = m
    owner = {}
    for name, m in mods.items():
        for key in getattr(m, "CONCRETE", {}):
            owner[key] = "contracts." + name
    return mods, owner


def model_value(model, v, cap=64):
    if v is None or isinstance(v, (bool, int, str, float)):
        return v
    if is_z3(v):
        r = model.eval(v, model_completion=True)
        if z3.is_int_value(r):
            return r.as_long()
        if z3.is_true(r):
            return True
        if z3.is_false(r):
            return False
        if z3.is_string_value(r):
            return r.as_string()
        if z3.is_rational_value(r):
            return float(r.numerator_as_long()) / float(r.denominator_as_long())
        return str(r)
    if isinstance(v, ListV):
        if v.items is not None:
            return [model_value(model, x, cap) for x in v.items]
        n = model_value(model, v.length)
        if not isinstance(n, int):
            return None
        n = max(0, min(n, cap))
        from .ops import list_get
        return [model_value(model, list_get(v, i), cap) for i in range(n)]
    if isinstance(v, RecV):
        return {f: model_value(model, x, cap) for f, x in v.fields.items()}
    if isinstance(v, Obj):
        return {f: model_value(model, x, cap) for f, x in v.fields.items()}
    if isinstance(v, OptV):
        if model_value(model, v.isnone):
            return None
        return model_value(model, v.val, cap)
    if isinstance(v, tuple):
        return [model_value(model, x, cap) for x in v]
    return None


def run_driver(job, timeout=900):
    env = dict(os.environ, VERIF_REPO=REPO, PYTHONHASHSEED="0")
    p = subprocess.run([VENV_PY, os.path.join(HERE, "drivers", "runner.py")], input=json.dumps(job),
                       capture_output=True, text=True, env=env, timeout=timeout)
    if p.returncode != 0:
        raise RuntimeError("driver failed: " + p.stderr[-3000:])
    return json.loads(p.stdout)


class PropertyCheck:
    def __init__(self, pid, spec, tier, seed):
        self.pid = pid
        self.spec = spec
        self.tier = tier
        self.seed = seed
        self.lines = []
        self.violations = []      # dicts: {what, obligation, replay, confirmed}
        self.known = []
        self.undecided = []
        self.reports = []
        self.bounded = []
        self.canaries = {"expected": 0, "refuted": 0}
        self.backends = {}
        self.checker_errors = []
        self.t0 = time.time()

    def say(self, s):
        print(s, flush=True)
        self.lines.append(s)

    # -------------------------------------------------------- known findings
    def load_known(self):
        p = os.path.join(HERE, "known_findings.json")
        if not os.path.exists(p):
            return []
        return [e for e in json.load(open(p)).get("findings", []) if e.get("property") == self.pid
                and e.get("status") == "known"]

    def match_known(self, viol):
        for e in self.known_entries:
            m = e.get("match", {})
            if m.get("function") and m["function"] != viol.get("function"):
                continue
            if m.get("failed_any") and not any(any(f.startswith(x) for x in m["failed_any"]) for f in viol.get("failed", [])):
                continue
            pred = m.get("input_predicate")
            if pred:
                try:
                    if not eval(pred, {"inputs": viol.get("inputs"), "json": json}):
                        continue
                except Exception:
                    continue
            return e
        return None

    # -------------------------------------------------------- main
    def run(self):
        mods, owner = load_contracts()
        self.owner = owner
        self.known_entries = self.load_known()
        index = SourceIndex()
        try:
            live = verify.live_dump()
        except Exception as e:
            self.checker_errors.append("live dump: " + repr(e))
            return self.finish()
        if live["meta"]["import_errors"]:
            self.say(f"NOTE import errors in live dump: {live['meta']['import_errors']}")
        baseline = self.load_baseline()
        keys = list(self.spec.get("contracts", []))
        if self.tier != "quick":
            keys += self.spec.get("contracts_thorough", [])      # same obligations at larger sizes: slow to generate
        total_obl = 0
        for key in keys:
            con = REGISTRY.get(key)
            if con is None:
                self.checker_errors.append(f"no contract registered for {key}")
                continue
            try:
                rep = verify.generate(con, index=index, live=live, canary=True)
            except Exception as e:
                self.checker_errors.append(f"{key}: engine crash {e!r}\n{traceback.format_exc()[-1500:]}")
                continue
            self.reports.append(rep)
        allobs = [ob for rep in self.reports for ob in rep.obligations]
        solve.discharge(allobs)
        for rep in self.reports:
            self.judge_report(rep, baseline)
        self.extra = []
        if self.spec.get("layouts"):
            # live construct declarations against the independent layout tables
            try:
                from . import layout
                from contracts import layouts as _lt
                tabs = {k: _lt.TABLES[k] for k in self.spec["layouts"]}
                shp = {k: _lt.SHAPES[k] for k in getattr(_lt, "SHAPES_BY_PROPERTY", {}).get(self.pid, [])}
                self.extra = layout.check_layouts(tabs, REPO, shapes=shp)
            except Exception as e:
                self.checker_errors.append(f"layout check: {e!r}")
            for x in self.extra:
                if x["status"] == "refuted":
                    path = self.write_replay("layout", x["label"], None, None,
                                             note="the live construct declaration disagrees with the independent layout table: " + x["detail"])
                    self.violations.append({"function": "layout", "obligation": x["label"], "replay": path, "confirmed": False})
                    self.say(f"VIOLATION property={self.pid} replay={path} obligation={x['label']} ({x['detail']}) no-failing-input-found")
                elif x["status"] == "unknown":
                    self.undecided.append({"function": "layout", "obligation": x["label"], "why": x["detail"]})
                    self.say(f"UNDECIDED obligation={x['label']} reason={x['detail'][:120]}")
        if self.spec.get("post_scan") == "no_cursor_precondition":
            # C11: no view contract may assume anything about the shared substream's cursor
            bad = []
            for key in keys:
                con = REGISTRY.get(key)
                for (lbl, text) in (con.requires_ if con else []):
                    if "substream.cur" in text or ".cur" in text.replace("self.substream.content", ""):
                        bad.append(f"{key}:{lbl}")
            self.scan = {"no_cursor_precondition": {"contracts_scanned": len(keys), "offending": bad}}
            if bad:
                self.checker_errors.append("contracts assume a substream cursor: " + ", ".join(bad))
        if self.spec.get("post_scan") == "while_loop_census":
            # C13: every `while` loop of the package is either inside a function under a termination obligation of this check
            # (measure, or full unrolling of a fixed shape) or listed as not covered; a loop in a function that has neither is reported
            import ast as _ast
            covered = set()
            for key in keys:
                con = REGISTRY.get(key)
                if con is not None and not getattr(con, "lemma_src", None):
                    covered.add((getattr(con, "source_key", None) or key.split("#")[0].split("[")[0]))
                    covered.update(getattr(con, "also_covers", []))       # functions inlined into this proof (no contract of their own)
            census, uncovered = [], []
            pkg = os.path.join(REPO, "smpl_extract")
            for d, _dirs, fs in os.walk(pkg):
                for fn in fs:
                    if not fn.endswith(".py"):
                        continue
                    path = os.path.join(d, fn)
                    mod = os.path.relpath(path, REPO)[:-3].replace(os.sep, ".")
                    try:
                        tree = _ast.parse(open(path, encoding="utf-8").read())
                    except SyntaxError:
                        continue

                    def visit(node, qual):
                        for ch in _ast.iter_child_nodes(node):
                            if isinstance(ch, _ast.ClassDef):
                                visit(ch, qual + [ch.name])
                            elif isinstance(ch, (_ast.FunctionDef, _ast.AsyncFunctionDef)):
                                fkey = f"{mod}:{'.'.join(qual + [ch.name])}"
                                for w in _ast.walk(ch):
                                    if isinstance(w, _ast.While):
                                        ok = fkey in covered
                                        census.append({"function": fkey, "line": w.lineno, "under_termination_obligation": ok})
                                        if not ok:
                                            uncovered.append(f"{fkey}@L{w.lineno}")
                                visit(ch, qual + [ch.name])
                    visit(tree, [])
            accepted = set(self.spec.get("while_loops_not_covered", []))
            new = [u for u in uncovered if u.split("@")[0] not in accepted]
            self.scan = dict(getattr(self, "scan", {}) or {})
            self.scan["while_loop_census"] = {"loops": len(census), "under_obligation": sum(1 for c in census if c["under_termination_obligation"]),
                                              "not_covered": uncovered, "detail": census}
            for u in new:
                self.undecided.append({"function": u, "why": "while loop in a function without a termination obligation"})
                self.say(f"UNDECIDED obligation={u}:termination reason=while-loop-without-termination-obligation")
        if self.spec.get("post_scan") == "write_set_census":
            # C16: every syntactic site of the package that can make state outlive a call is listed with the reason why it cannot make
            # a later ls / export depend on an earlier one (checks/write_set.json).  A site found in the tree but not listed is UNDECIDED -
            # it needs a reason, it is not thereby a violation; a listed site that is gone is only noted.
            from . import writeset
            found, errors = writeset.census(REPO)
            listed = json.load(open(os.path.join(os.path.dirname(os.path.dirname(os.path.abspath(__file__))), "checks", "write_set.json")))["sites"]
            new = sorted(k for k in found if k not in listed)
            gone = sorted(k for k in listed if k not in found)
            self.scan = dict(getattr(self, "scan", {}) or {})
            by_class = {}
            for k in found:
                cl = listed.get(k, {}).get("class", "UNLISTED")
                by_class[cl] = by_class.get(cl, 0) + 1
            self.scan["write_set_census"] = {"sites_in_tree": len(found), "listed_with_reason": len(found) - len(new), "by_class": by_class,
                                             "unlisted": new, "listed_but_gone": gone, "unparsable_modules": errors}
            for k in new:
                self.undecided.append({"function": k, "why": "a persistent write site without a listed reason"})
                self.say(f"UNDECIDED obligation={k}:write-set reason=unlisted-persistent-write-site")
            for m, e in errors.items():
                self.undecided.append({"function": m, "why": "module does not parse: " + e})
                self.say(f"UNDECIDED obligation={m}:write-set reason=module-does-not-parse")
        # bounded stand-ins
        from concurrent.futures import ThreadPoolExecutor
        todo = []
        for b in self.spec.get("bounded", []):
            hooks = sys.modules[b[0]].CONCRETE[b[1]]
            k = hooks.get("shards", 1)
            if k > 1:
                todo += [(b[0], b[1], (i, k)) for i in range(k)]
            else:
                todo.append((b[0], b[1], None))
        if todo:
            with ThreadPoolExecutor(max_workers=8) as tp:
                outs = list(tp.map(self._bounded_quiet, todo))
            merged = {}
            for b, out in zip(todo, outs):
                if isinstance(out, Exception):
                    self.checker_errors.append(f"bounded {b[1]}: {out!r}")
                    continue
                m = merged.get(b[1])
                if m is None:
                    merged[b[1]] = out
                else:
                    m["evaluations"] += out["evaluations"]
                    m["distinct_nontrivial"] += out["distinct_nontrivial"]
                    m["violations"] += out["violations"]
                    m["problems"] += out["problems"]
                    m["wall_s"] = max(m["wall_s"], out["wall_s"])
                    m["budget_exhausted"] = m.get("budget_exhausted", False) or out.get("budget_exhausted", False)
                    for k2, v2 in out["outcomes"].items():
                        m["outcomes"][k2] = m["outcomes"].get(k2, 0) + v2
            outs2 = list(merged.items())
            todo, outs = [(None, k) for k, _ in outs2], [o for _, o in outs2]
            for b, out in zip(todo, outs):
                self.record_bounded(b[1], out)
                for v in out["violations"]:
                    self.report_violation(b[1], f"{b[1]}:bounded", v, None)
        return self.finish()

    def _bounded_quiet(self, b):
        try:
            return self.bounded_job(b[0], b[1], record=False, shard=b[2] if len(b) > 2 else None)
        except Exception as e:
            return e

    def record_bounded(self, key, out):
        hooks = sys.modules[self.owner[key]].CONCRETE[key]
        self.bounded.append({"kind": "runtime contract check on the real function (bounded, never counted as proved)",
                             "function": key, "bound": hooks.get("bound", ""), "evaluations": out["evaluations"],
                             "distinct_nontrivial": out["distinct_nontrivial"], "outcomes": out["outcomes"],
                             "violations": len(out["violations"]), "samples": out["samples"][:2],
                             "budget_exhausted": out.get("budget_exhausted", False), "wall_s": round(out["wall_s"], 2)})
        for p in out["problems"][:3]:
            self.say(f"NOTE bounded {key}: {p}")

    def load_baseline(self):
        p = os.path.join(HERE, "baseline", "obligations.json")
        if os.path.exists(p):
            return set(json.load(open(p)).get(self.pid, []))
        return set()

    def write_baseline(self, labels):
        """Developer command (bin/check <id> --write-baseline): record the obligations discharged on the
        reviewed tree.  Never called by a registered check."""
        p = os.path.join(HERE, "baseline", "obligations.json")
        d = json.load(open(p)) if os.path.exists(p) else {}
        new = {norm_label(l) for l, s in labels.items() if s == "discharged"}
        if self.tier == "quick":
            # labels of the contracts that only the thorough tier runs are kept from the last thorough baseline
            slow = tuple(self.spec.get("contracts_thorough", []))
            new |= {l for l in d.get(self.pid, []) if slow and l.startswith(slow)}
        d[self.pid] = sorted(new)
        os.makedirs(os.path.dirname(p), exist_ok=True)
        json.dump(d, open(p, "w"), indent=0, sort_keys=True)

    def judge_report(self, rep, baseline):
        key = rep.key
        if rep.status == "anchor-lost":
            self.undecided.append({"function": key, "why": "anchor lost: " + rep.reason})
            self.say(f"UNDECIDED obligation={key}:* reason=anchor-lost ({rep.reason})")
            self.fallback_bounded(key, "anchor lost")
            return
        if rep.status == "undecided":
            self.undecided.append({"function": key, "why": rep.reason})
            self.say(f"UNDECIDED obligation={key}:* reason={rep.reason}")
            self.fallback_bounded(key, rep.reason)
        canaries = [ob for ob in rep.obligations if ob.kind == "canary"]
        real = [ob for ob in rep.obligations if ob.kind != "canary"]
        self.canaries["expected"] += 1
        if any(ob.status == "refuted" for ob in canaries):
            self.canaries["refuted"] += 1
        elif rep.status == "ok":
            # no satisfiable returning path: either every path raises or the precondition is vacuous
            if not any(k.startswith("raise:") or k == "return" for k in rep.cover):
                self.checker_errors.append(f"{key}: vacuous (no path reaches an exit under the precondition)")
        for ob in rep.obligations:
            if ob.backend:
                b = self.backends.setdefault(ob.backend, {"count": 0, "seconds": 0.0})
                b["count"] += 1
                b["seconds"] += ob.time
        rep.real = real
        summ = {}
        for ob in real:
            summ.setdefault(ob.label, []).append(ob)
        rep.label_status = {}
        need_bounded = False
        for label, obs in summ.items():
            sts = {o.status for o in obs}
            if "refuted" in sts:
                rep.label_status[label] = "refuted"
                self.handle_refuted(rep, label, [o for o in obs if o.status == "refuted"], baseline)
            elif "unknown" in sts:
                rep.label_status[label] = "unknown"
                self.undecided.append({"function": key, "obligation": label,
                                       "why": "solver: " + "; ".join(sorted({(o.info or '')[:80] for o in obs if o.status == 'unknown'}))})
                self.say(f"UNDECIDED obligation={label} reason=solver-unknown")
                need_bounded = True
            else:
                rep.label_status[label] = "discharged"
        if need_bounded:
            self.fallback_bounded(key, "solver unknown")

    def handle_refuted(self, rep, label, obs, baseline):
        """A refuted VC: find a concrete input, replay on the real code (DESIGN 2.6)."""
        key = rep.key
        con = REGISTRY[key]
        ob = obs[0]
        confirmed = None
        hooks_mod = self.owner.get(key)
        model_inputs = None
        is_lemma = bool(getattr(con, "lemma_src", None)) and not hooks_mod
        if is_lemma:
            import importlib as _il
            hooks_mod = [m for m in sys.modules if m.startswith("contracts.") and
                         any(v is con for v in getattr(sys.modules[m], "REGISTRY", {}).values())]
            hooks_mod = self.lemma_module_of(con)
        auto = False
        if not hooks_mod and not is_lemma and getattr(con, "defined_in", None) and self.auto_applicable(con):
            # no hand-written builder: generic replay (scalars / lists / bytes / value records) on the real function
            hooks_mod, auto = con.defined_in, True
        if ob.kind in ("post", "exc", "frame") and hooks_mod:
            try:
                m = verify.model_for(ob)
                if m is not None and getattr(rep, "params", None) is None:
                    rep.params = self.param_structure(con, rep)
                if m is not None:
                    model_inputs = {n: model_value(m, v) for n, v in rep.params.items()}
            except Exception as e:
                self.say(f"NOTE could not concretise model for {label}: {e!r}")
        if model_inputs is not None:
            try:
                out = run_driver({"mode": "replay", "contract_module": hooks_mod, "key": key,
                                  "inputs": model_inputs, "timeout_s": 5.0, "lemma": is_lemma, "auto": auto})
                if out["violations"]:
                    confirmed = out["violations"][0]
                elif out["problems"]:
                    self.say(f"NOTE replay problems for {label}: {out['problems'][:2]}")
                else:
                    self.say(f"SPURIOUS obligation={label} counter-model does not reproduce on the real code")
            except Exception as e:
                self.say(f"NOTE replay driver failed for {label}: {e!r}")
        if confirmed is None and hooks_mod and not is_lemma and not auto:
            # finite-instantiation / small-scope search on the real function
            try:
                out = self.bounded_job(hooks_mod, key, record=False)
                if out["violations"]:
                    confirmed = out["violations"][0]
            except Exception as e:
                self.say(f"NOTE bounded search failed for {label}: {e!r}")
        if confirmed is not None:
            self.report_violation(key, label, confirmed, ob)
            return
        # "no exception outside the declared ones" is an obligation of every function under contract: it held (vacuously or not)
        # on the reviewed tree exactly when the function has baseline labels at all
        implicit = ":no-undeclared-exception." in label and any(b.startswith(key.split("[")[0] + ":") or b.startswith(key + ":") for b in baseline)
        if norm_label(label) in baseline or implicit:
            # baseline obligation now refuted, no failing input found
            path = self.write_replay(key, label, None, ob, note="no failing input found; solver refuted a baseline obligation")
            self.violations.append({"function": key, "obligation": label, "replay": path, "confirmed": False})
            base = key.split("[")[0]
            shown = sum(1 for v in self.violations if not v["confirmed"] and v["function"].split("[")[0] == base)
            if shown <= 4:
                self.say(f"VIOLATION property={self.pid} replay={path} obligation={label} no-failing-input-found")
            elif shown == 5:
                self.say(f"NOTE further refuted baseline obligations of {base} are listed in the evidence file only")
        else:
            self.undecided.append({"function": key, "obligation": label, "why": "refuted VC not reproduced and not in baseline"})
            self.say(f"UNDECIDED obligation={label} reason=refuted-not-reproduced")

    def auto_applicable(self, con):
        sys.path.insert(0, os.path.join(HERE, "drivers"))
        try:
            import runner as _r
            return _r.auto_applicable(con)
        except Exception:
            return False
        finally:
            sys.path.pop(0)

    def lemma_module_of(self, con):
        for name, m in sys.modules.items():
            if name.startswith("contracts.") and hasattr(m, "__file__"):
                for v in vars(m).values():
                    pass
        for name, m in list(sys.modules.items()):
            if name.startswith("contracts."):
                src = open(m.__file__).read()
                if f'"{con.key}"' in src:
                    return name
        return None

    def param_structure(self, con, rep):
        """Re-create the symbolic parameter structure (deterministic names: same symbols as in the VCs)."""
        from .run import Explorer
        from .exec import Interp
        from .interp import Frame
        ex = Explorer(con.key)
        run = ex.next_run()
        it = Interp(SourceIndex(), verify.live_dump(), REGISTRY, run, con)
        it.shared = {}
        params = {}
        if con.self_desc is not None:
            params["self"] = it.make_value(con.self_desc, "self")
        for n, d in con.params.items():
            params[n] = it.make_value(d, n)
        return params

    def report_violation(self, key, label, viol, ob):
        viol = dict(viol)
        viol["function"] = key
        pref = self.spec.get("clause_prefixes")
        if pref and key.startswith("e2e:"):
            # a shared monitor evaluates the clauses of several properties; this check judges its own
            viol["failed"] = [f for f in viol.get("failed", []) if any(f.startswith(x) for x in pref)]
            if not viol["failed"]:
                return
        # labels explained by a listed finding are set aside; anything left is still a violation
        remaining = list(viol.get("failed", []))
        for e in self.known_entries:
            m = e.get("match", {})
            if m.get("function") and m["function"] != key:
                continue
            pred = m.get("input_predicate")
            try:
                if pred and not eval(pred, {"inputs": viol.get("inputs"), "json": json}):
                    continue
            except Exception:
                continue
            covered = [f for f in remaining if any(f.startswith(x) for x in m.get("failed_any", []))]
            if covered:
                remaining = [f for f in remaining if f not in covered]
                if e["id"] not in [x["id"] for x in self.known]:
                    self.known.append(e)
                    self.say(f"KNOWN-FINDING: property={self.pid} {e['id']} {e['what_fails']}")
        if not remaining:
            return
        viol["failed"] = remaining
        sig = (key, tuple(sorted(f.split("(")[0] for f in viol.get("failed", []))))
        if sum(1 for v in self.violations if v.get("function") == key) >= 3:
            return
        if any(v.get("sig") == sig for v in self.violations):
            return
        path = self.write_replay(key, label, viol, ob)
        self.violations.append({"function": key, "obligation": label, "replay": path, "confirmed": True, "sig": sig,
                                "failed": viol.get("failed")})
        self.say(f"VIOLATION property={self.pid} replay={path} obligation={label} failed={','.join(viol.get('failed', []))}")

    def write_replay(self, key, label, viol, ob, note=""):
        os.makedirs(REPLAY_DIR, exist_ok=True)
        safe = "".join(ch if ch.isalnum() else "_" for ch in label)[-80:]
        path = os.path.join(REPLAY_DIR, f"{self.pid}-{safe}.json")
        doc = {"property": self.pid, "function": key, "obligation": label, "note": note,
               "contract_module": (self.owner.get(key) or self.lemma_module_of(REGISTRY[key])) if key in REGISTRY else None,
               "lemma": bool(getattr(REGISTRY.get(key), "lemma_src", None)) and not self.owner.get(key), "inputs": viol["inputs"] if viol else None,
               "observed": viol.get("outcome") if viol else None, "failed": viol.get("failed") if viol else None,
               "solver": {"status": ob.status, "backend": ob.backend, "info": ob.info,
                          "vc_smt2_head": ob.smt2()[:4000]} if ob is not None else None}
        with open(path, "w") as f:
            json.dump(doc, f, indent=1, default=str)
        return os.path.relpath(path, HERE)

    # -------------------------------------------------------- bounded
    def bounded_job(self, mod, key, record=True, budget=None, shard=None):
        mods = sys.modules[mod]
        hooks = mods.CONCRETE[key]
        job = {"mode": "bounded", "contract_module": mod, "key": key, "tier": self.tier, "seed": self.seed,
               "timeout_s": hooks.get("timeout_s", 1.0),
               "budget_s": budget or (hooks.get("budget_quick", 40) if self.tier == "quick" else hooks.get("budget_thorough", 300))}
        if shard:
            job["shard"] = list(shard)
        if self.spec.get("clause_prefixes") and key.startswith("e2e:"):
            job["clause_prefixes"] = self.spec["clause_prefixes"]
        out = run_driver(job, timeout=job["budget_s"] + 120)
        if record:
            self.bounded.append({"kind": "runtime contract check on the real function (bounded, never counted as proved)",
                                 "function": key, "bound": hooks.get("bound", ""), "evaluations": out["evaluations"],
                                 "distinct_nontrivial": out["distinct_nontrivial"], "outcomes": out["outcomes"],
                                 "violations": len(out["violations"]), "samples": out["samples"][:2],
                                 "budget_exhausted": out.get("budget_exhausted", False), "wall_s": round(out["wall_s"], 2)})
            for p in out["problems"][:3]:
                self.say(f"NOTE bounded {key}: {p}")
        return out

    def run_bounded(self, b):
        mod, key = b
        try:
            out = self.bounded_job(mod, key)
        except Exception as e:
            self.checker_errors.append(f"bounded {key}: {e!r}")
            return
        for v in out["violations"]:
            self.report_violation(key, f"{key}:bounded", v, None)

    def fallback_bounded(self, key, why):
        mod = self.owner.get(key)
        if not mod:
            return
        if any(b["function"] == key for b in self.bounded) or (mod, key) in self.spec.get("bounded", []):
            return
        self.run_bounded((mod, key))

    # -------------------------------------------------------- evidence
    def finish(self):
        wall = time.time() - self.t0
        labels = {}
        trusted = set(self.spec.get("trusted_base", []))
        funcs = []
        samples = []
        for rep in self.reports:
            trusted |= rep.trusted
            if rep.info is not None:
                d = rep.info.describe()
                d["paths"] = rep.paths
                d["status"] = rep.status
                funcs.append(d)
                con = REGISTRY.get(rep.key)
                for dep in getattr(con, "lemma_deps", []) or []:
                    try:
                        dd = SourceIndex().func(dep).describe()
                        dd["via_lemma"] = rep.key
                        funcs.append(dd)
                    except Exception:
                        pass
            for l, s in getattr(rep, "label_status", {}).items():
                labels[l] = s
        for x in getattr(self, "extra", []):
            labels[x["label"]] = x["status"]
            b = self.backends.setdefault(x["backend"], {"count": 0, "seconds": 0.0})
            b["count"] += 1
        n_obl = len(labels)
        n_dis = sum(1 for s in labels.values() if s == "discharged")
        for rep in self.reports:
            for ob in getattr(rep, "real", [])[:400]:
                if len(samples) < 6 and ob.status == "discharged" and ob.backend != "simplifier":
                    samples.append({"obligation": ob.label, "backend": ob.backend, "seconds": round(ob.time, 3),
                                    "vc_chars": len(ob.smt2())})
        vcs = sum(len(getattr(rep, "real", [])) for rep in self.reports)
        level = self.spec.get("level", "proof")
        if self.checker_errors:
            for e in self.checker_errors:
                self.say(f"CHECKER-ERROR {e}")
        if n_obl == 0 and not self.bounded and not self.checker_errors and self.spec.get("contracts"):
            self.checker_errors.append("zero obligations generated")
            self.say("CHECKER-ERROR zero obligations generated")
        cov = {
            "obligations": n_obl, "discharged": n_dis,
            "checker_cmd": f"bin/check {self.pid} --tier {self.tier}",
            "trusted_base": sorted(trusted),
            "samples": samples or [{"note": "no solver-discharged obligation on this run"}],
            "explanation": self.spec.get("explanation", ""),
            "vcs_path_instances": vcs,
            "functions_under_contract": funcs,
            "backends": {k: {"count": v["count"], "seconds": round(v["seconds"], 2)} for k, v in self.backends.items()},
            "undecided": self.undecided,
            "refuted": [l for l, s in labels.items() if s == "refuted"],
            "bounded_checks": self.bounded,
            "canaries": self.canaries,
            "known_findings_reported": [k["id"] for k in self.known],
            "not_covered": self.spec.get("not_covered", []),
            "scans": getattr(self, "scan", {}),
        }
        if self.bounded:
            cov["evaluations"] = sum(b["evaluations"] for b in self.bounded)
            cov["distinct_nontrivial"] = sum(b["distinct_nontrivial"] for b in self.bounded)
            cov["rule"] = "bounded stand-ins only: inputs enumerated by each contract's small-scope generator; non-trivial = the real function returned normally; distinct by input"
        ev = {"property_id": self.pid, "tier": self.tier, "seed": self.seed, "level": level,
              "coverage": cov, "assumptions": sorted(set(self.spec.get("assumptions", [])) | trusted),
              "wall_s": round(wall, 2), "violations": len(self.violations)}
        os.makedirs(EVID, exist_ok=True)
        with open(os.path.join(EVID, f"{self.pid}.json"), "w") as f:
            json.dump(ev, f, indent=1, default=str)
        if getattr(self, "want_baseline", False) and not self.violations and not self.checker_errors:
            self.write_baseline(labels)
        self.say(f"SUMMARY property={self.pid} tier={self.tier} obligations={n_obl} discharged={n_dis} "
                 f"undecided={len(self.undecided)} violations={len(self.violations)} known={len(self.known)} "
                 f"bounded_evals={cov.get('evaluations', 0)} wall={wall:.1f}s")
        if self.checker_errors:
            return 3
        if self.violations:
            return 1
        return 0
