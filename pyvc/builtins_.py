"""Built-in functions and methods of built-in types (the fixed table of models of DESIGN 2.1)."""
import ast
import z3
from .values import *
from . import ops
from .ops import (fresh, list_len, list_get, list_set, list_append, list_concat, list_slice,
                  list_repeat, val_eq, truth, znot, zand, zor, zimplies, zite, zmin, zmax, to_symbolic, desc_of)
from .interp import Frame


class BuiltinMixin:

    def as_list(self, v, fr):
        """Materialise an iterable as a ListV (no copy of symbolic lists)."""
        if isinstance(v, ListV):
            return v
        if isinstance(v, tuple):
            return ListV(list(v), kind="tuple")
        if isinstance(v, DictV):
            return ListV(v.keys())
        if isinstance(v, Opaque) and isinstance(v.what, tuple):
            if v.what[0] == "range":
                lo, hi = v.what[1], v.what[2]
                if isinstance(lo, int) and isinstance(hi, int):
                    return ListV(list(range(lo, hi)))
                j = z3.Int(fresh_name("j"))
                n = zmax(zint(hi) - zint(lo), 0)
                return ListV(None, z3.simplify(n), z3.Lambda([j], j + zint(lo)), "int")
            if v.what[0] == "zip":
                ls = [self.as_list(x, fr) for x in v.what[1]]
                if all(l.items is not None for l in ls):
                    return ListV([tuple(t) for t in zip(*[l.items for l in ls])])
                raise Unsupported("zip over symbolic lists outside a for loop")
            if v.what[0] == "enumerate":
                l = self.as_list(v.what[1], fr)
                if l.items is not None:
                    return ListV([(i, x) for i, x in enumerate(l.items)])
                raise Unsupported("enumerate over symbolic list outside a for loop")
            if v.what[0] == "map":
                f, l = v.what[1], self.as_list(v.what[2], fr)
                if l.items is not None:
                    return ListV([self.call_value(f, [x], {}, fr) for x in l.items])
                j = z3.Int(fresh_name("k"))
                sub = Frame(fr.module, fr.cls, fr.func, True, parent=fr)
                val = self._pure_call(f, [list_get(l, j)], fr)
                return ListV(None, l.length, z3.Lambda([j], zval(val)), desc_of(val))
        if isinstance(v, IterV):
            l = v.lst
            if l.items is not None and isinstance(v.pos, int):
                rest = ListV(l.items[v.pos:], elem=l.elem)
                v.pos = len(l.items)
                return rest
            raise Unsupported("materialising a symbolic iterator")
        if isinstance(v, NdV) and len(v.shape) >= 1:
            n = v.shape[0]
            if isinstance(n, int):
                return ListV([self.nd_index(v, i) for i in range(n)])
        raise Unsupported(f"not iterable: {v!r}")

    def _pure_call(self, f, args, fr):
        saved = self.frames[-1].spec if self.frames else None
        sub = Frame(fr.module, fr.cls, fr.func, True, parent=fr)
        sub.olds, sub.defs = fr.olds, fr.defs
        return self.call_value(f, args, {}, sub)

    def call_builtin(self, name, args, kwargs, fr, node=None):
        run = self.run
        if name == "len":
            v = args[0]
            if isinstance(v, ListV):
                return list_len(v)
            if isinstance(v, (tuple,)):
                return len(v)
            if isinstance(v, str):
                return len(v)
            if isinstance(v, DictV):
                return len(v.d)
            if isinstance(v, IterV) and fr.spec:
                return -1          # a one-shot iterator has no length: a contract that speaks of the length of a list is not met by it
            if is_z3(v) and z3.is_string(v):
                return z3.Length(v)
            if isinstance(v, NdV):
                return v.shape[0]
            if isinstance(v, OptV):
                if not fr.spec and run.branch(v.isnone):
                    self.py_raise("TypeError")
                return self.call_builtin("len", [v.val], {}, fr)
            raise Unsupported(f"len of {v!r}")
        if name == "range":
            if len(args) == 1:
                return Opaque(("range", 0, args[0]))
            if len(args) == 2:
                return Opaque(("range", args[0], args[1]))
            raise Unsupported("range with step")
        if name in ("cround", "trunc", "c_cast_short", "c_cast_int", "c_cast_long", "c_cast_double", "c_cast_float"):
            # C scalar semantics for the mechanically translated `cdef` functions (doubles are read as exact reals - stated assumption)
            self.trusted.add("C scalars of translated cdef functions: double = exact real; libc round = half away from zero; trunc = toward zero; "
                             "<short>/<int> of an integral value wraps modulo 2^16 / 2^32 (two's complement), of a real truncates toward zero first")
            v = args[0]
            if isinstance(v, bool):
                v = int(v)
            zr = z3.RealVal(v) if isinstance(v, (int, float)) else (z3.ToReal(v) if z3.is_int(v) else v)

            def toward_zero(r):
                return z3.If(r >= 0, z3.ToInt(r), -z3.ToInt(-r))
            if name == "trunc":
                return toward_zero(zr)
            if name == "cround":
                return z3.If(zr >= 0, z3.ToInt(zr + z3.RealVal("1/2")), -z3.ToInt(-zr + z3.RealVal("1/2")))
            if name in ("c_cast_double", "c_cast_float"):
                return z3.simplify(zr)
            bits = {"c_cast_short": 16, "c_cast_int": 32, "c_cast_long": 64}[name]
            iv = v if (isinstance(v, int) or (is_z3(v) and z3.is_int(v))) else toward_zero(zr)
            half, mod = 2 ** (bits - 1), 2 ** bits
            if isinstance(iv, int):
                return (iv + half) % mod - half
            return z3.simplify((iv + half) % mod - half)
        if name in ("min", "max", "imin", "imax"):
            f = zmin if name in ("min", "imin") else zmax
            if len(args) == 1:
                l = self.as_list(args[0], fr)
                if l.items is None:
                    # extremum of a symbolic list: defining axioms on a fresh value
                    n = zint(l.length)
                    if not fr.spec and not run.branch(n > 0):
                        self.py_raise("ValueError")
                    m = z3.Int(fresh_name(name))
                    j = z3.Int(fresh_name("j"))
                    cmp_ = (m <= l.arr[j]) if f is zmin else (m >= l.arr[j])
                    run.assume(z3.ForAll([j], z3.Implies(z3.And(j >= 0, j < n), cmp_)))
                    run.assume(z3.Exists([j], z3.And(j >= 0, j < n, m == l.arr[j])))
                    return m
                if not l.items:
                    if "default" in kwargs:
                        return kwargs["default"]
                    self.py_raise("ValueError")
                r = l.items[0]
                for x in l.items[1:]:
                    r = f(r, x)
                return r
            r = args[0]
            for x in args[1:]:
                r = f(r, x)
            return r
        if name in ("abs", "absv"):
            v = args[0]
            if not is_z3(v):
                return abs(v)
            return z3.If(v >= 0, v, -v)
        if name == "int":
            v = args[0] if args else 0
            if isinstance(v, (int, float)) and not isinstance(v, bool):
                return int(v)
            if isinstance(v, bool):
                return int(v)
            if isinstance(v, str):
                try:
                    return int(v)
                except ValueError:
                    self.py_raise("ValueError")
            if is_z3(v):
                if z3.is_int(v):
                    return v
                if z3.is_bool(v):
                    return zint(v)
                if z3.is_string(v):
                    # int() of a digit string (callers pass regex group text made of \d+)
                    self.trusted.add("engine: int(s) on a non-empty all-digit string s is z3 str.to_int(s)")
                    r = z3.StrToInt(v)
                    if v.sexpr() in getattr(self, "digit_terms", ()):
                        # the text of a (\\d+) capture group: a non-empty ASCII digit string, int() cannot fail
                        self.trusted.add("re: the text captured by a (\\d+) group is a non-empty digit string (int() of it is >= 0)")
                        run.assume(r >= 0)
                        return r
                    if not fr.spec and not run.branch(r >= 0):
                        self.py_raise("ValueError")
                    return r
                if z3.is_real(v):
                    # truncation toward zero
                    fl = z3.ToInt(v)
                    return z3.If(v >= 0, fl, z3.If(z3.ToReal(fl) == v, fl, fl + 1))
            raise Unsupported(f"int({v!r})")
        if name == "float":
            v = args[0]
            if not is_z3(v):
                return float(v)
            return z3.ToReal(v) if z3.is_int(v) else v
        if name == "to_real":
            v = args[0]
            return z3.ToReal(zint(v)) if is_int(v) else v
        if name == "bool":
            return truth(args[0]) if args else False
        if name in ("list", "tuple", "sorted_identity"):
            if not args:
                return ListV([]) if name == "list" else ()
            l = self.as_list(args[0], fr)
            if name == "tuple" and l.items is not None:
                return tuple(l.items)
            c = l.copy()
            c.kind = "list"
            return c
        if name == "dict":
            if not args and not kwargs:
                return DictV({})
            if kwargs and not args:
                return DictV(kwargs)
            src = args[0]
            if isinstance(src, DictV):
                d = dict(src.d)
                d.update(kwargs)
                return DictV(d)
            l = self.as_list(src, fr)
            if l.items is not None:
                return DictV({k: v for (k, v) in l.items})
            raise Unsupported("dict() of symbolic iterable")
        if name == "bytes" or name == "bytearray":
            if not args:
                return ListV([], elem="int", kind="bytes")
            v = args[0]
            if isinstance(v, ListV):
                c = v.copy()
                c.kind = "bytes"
                return c
            if isinstance(v, int) and not isinstance(v, bool):
                if v < 0:
                    self.py_raise("ValueError")
                return ListV([0] * v, elem="int", kind="bytes")
            if is_z3(v) and z3.is_int(v):
                # bytes(n): n zero bytes; ValueError for a negative count
                if self.run.branch(v < 0):
                    self.py_raise("ValueError")
                return list_repeat(ListV([0], elem="int", kind="bytes"), v)
            raise Unsupported("bytes()")
        if name == "iter":
            v = args[0]
            if isinstance(v, IterV):
                return v
            return IterV(self.as_list(v, fr), 0)
        if name == "next":
            it = args[0]
            if isinstance(it, ListV) and node is not None and node.args and isinstance(node.args[0], ast.GeneratorExp):
                # next(<generator expression>): a fresh one-shot iterator over the (already filtered) elements
                it = IterV(it, 0)
            if not isinstance(it, IterV):
                raise Unsupported("next() of non-iterator")
            l = it.lst
            n = list_len(l)
            more = it.pos < n if isinstance(it.pos, int) and isinstance(n, int) else zint(it.pos) < zint(n)
            if run.branch(more) if not fr.spec else True:
                v = list_get(l, it.pos)
                self.log_write(it, "pos")
                it.pos = it.pos + 1
                return v
            if len(args) > 1:
                return args[1]
            self.py_raise("StopIteration")
        if name == "isinstance":
            return self.isinstance_(args[0], args[1])
        if name == "callable":
            return isinstance(args[0], (FuncRef, LambdaV, BoundMethod, ClassRef)) or \
                (isinstance(args[0], Opaque) and isinstance(args[0].what, tuple) and args[0].what[0] in ("builtin",))
        if name == "zip":
            return Opaque(("zip", list(args)))
        if name == "enumerate":
            return Opaque(("enumerate", args[0]))
        if name == "map":
            if len(args) != 2:
                raise Unsupported("map with several iterables")
            return Opaque(("map", args[0], args[1]))
        if name in ("any", "all"):
            l = self.as_list(args[0], fr)
            if l.items is not None:
                ts = [truth(x) for x in l.items]
                if fr.spec:
                    return zor(*ts) if name == "any" else zand(*ts)
                for t in ts:
                    b = run.branch(t)
                    if name == "any" and b:
                        return True
                    if name == "all" and not b:
                        return False
                return name == "all"
            j = z3.Int(fresh_name("j"))
            n = zint(l.length)
            el = list_get(l, j)
            body = zbool(truth(el))
            if name == "any":
                return z3.Exists([j], z3.And(j >= 0, j < n, body))
            return z3.ForAll([j], z3.Implies(z3.And(j >= 0, j < n), body))
        if name == "sum":
            l = self.as_list(args[0], fr)
            if l.items is None:
                raise Unsupported("sum of symbolic list")
            r = 0
            for x in l.items:
                r = self.binop(fr, ast.Add(), r, x)
            return r
        if name == "round":
            v = args[0]
            if len(args) > 1:
                raise Unsupported("round with ndigits")
            if isinstance(v, (int, float)):
                return round(v)
            if is_z3(v) and z3.is_int(v):
                return v
            if is_z3(v) and z3.is_real(v):
                # round-half-even on exact reals
                fl = z3.ToInt(v)
                frac = v - z3.ToReal(fl)
                half = z3.RealVal("1/2")
                return z3.If(frac < half, fl, z3.If(frac > half, fl + 1, z3.If(fl % 2 == 0, fl, fl + 1)))
            raise Unsupported("round")
        if name == "chr":
            v = args[0]
            if isinstance(v, int):
                return chr(v)
            self.trusted.add("engine: chr(i) for 0<=i<128 is z3 str.from_code(i)")
            return z3.StrFromCode(v)
        if name == "ord":
            v = args[0]
            if isinstance(v, str):
                return ord(v)
            return z3.StrToCode(v)
        if name in ("str", "str_of_int"):
            return self.to_str(args[0]) if args else ""
        if name == "repr":
            return z3.String(fresh_name("repr"))
        if name == "setattr":
            obj, an, v = args
            if not isinstance(an, str):
                raise Unsupported("setattr with computed name")
            self.set_attr(obj, an, v)
            return None
        if name == "getattr":
            obj, an = args[0], args[1]
            if not isinstance(an, str):
                raise Unsupported("getattr with computed name")
            return self.get_attr(fr, obj, an)
        if name == "hasattr":
            obj, an = args
            if isinstance(obj, Obj):
                if an in obj.fields:
                    return True
                if obj.cls is not None and (self.index.find_method(obj.cls, an) or
                                            self.index.find_class_attr(obj.cls, an)[1] is not None):
                    return True
                return False
            if isinstance(obj, RecV):
                return an in obj.fields
            raise Unsupported("hasattr")
        if name == "reversed":
            l = self.as_list(args[0], fr)
            if l.items is not None:
                return ListV(list(reversed(l.items)))
            raise Unsupported("reversed of symbolic list")
        if name in ("set", "frozenset"):
            out = SetV({})
            out.frozen = (name == "frozenset")
            if args:
                src = self.as_list(args[0], fr)
                if src.items is None:
                    raise Unsupported("set() of a symbolic-length iterable")
                for x in src.items:
                    self.dict_store(fr, out, x, True)
            return out
        if name == "uf_bool":
            zs = [zval(a) for a in args[1:]]
            f = z3.Function("ufb_" + str(args[0]), *[z.sort() for z in zs], z3.BoolSort())
            return f(*zs)
        if name == "uf_int":
            zs = [zval(a) for a in args[1:]]
            f = z3.Function("ufi_" + str(args[0]), *[z.sort() for z in zs], z3.IntSort())
            return f(*zs)
        if name == "uf_str":
            # uninterpreted function symbol with a String result (spec-level: an abstract pure function of its arguments)
            zs = [zval(a) for a in args[1:]]
            f = z3.Function("uf_" + str(args[0]), *[z.sort() for z in zs], z3.StringSort())
            return f(*zs)
        if name == "sorted":
            l = self.as_list(args[0], fr)
            if l.items is not None and all(not is_z3(x) for x in l.items):
                return ListV(sorted(l.items))
            raise Unsupported("sorted of symbolic list")
        if name == "type":
            raise Unsupported("type()")
        # ---- spec-only helpers
        if name == "implies":
            return zimplies(truth(args[0]), truth(args[1]))
        if name == "iff":
            a, b = zbool(truth(args[0])), zbool(truth(args[1]))
            return a == b
        if name == "ite":
            return zite(truth(args[0]), args[1], args[2])
        if name == "seq_eq":
            return val_eq(args[0], args[1])
        if name == "is_none":
            v = args[0]
            return v.isnone if isinstance(v, OptV) else (v is None)
        if name == "present":
            v = args[0]
            return znot(v.isnone) if isinstance(v, OptV) else (v is not None)
        if name == "opt_val":
            v = args[0]
            return v.val if isinstance(v, OptV) else v
        if name in ("py_strip", "py_lower", "py_upper", "py_rstrip", "py_lstrip"):
            from . import strings
            return strings.str_method(self, args[0], name[3:], [], {}, fr)
        if name == "np_cast":
            # the elementwise cast function of the numpy astype model (same uninterpreted symbol)
            return z3.Function("np_astype", z3.IntSort(), z3.IntSort())(zint(args[0]))
        if name == "in_re":
            # in_re(s, "<python regex>") : full-match membership in the translated pattern (ASCII)
            from . import strings
            tr = strings.Translated(args[1], 0)
            return z3.InRe(zstr(args[0]), tr.body)
        if name == "iter_pos":
            return args[0].pos
        if name == "strlen":
            return z3.Length(zstr(args[0]))
        if name == "substr":
            # substr(s, lo, hi) = s[lo:hi] for 0 <= lo <= hi (z3 str.substr clips at the end of s; a negative length gives "")
            lo, hi = zint(args[1]), zint(args[2])
            return z3.SubString(zstr(args[0]), lo, hi - lo)
        if name == "char_at":
            return z3.SubString(zstr(args[0]), zint(args[1]), 1)
        if name == "distinct":
            if len(args) == 1 and isinstance(args[0], ListV):
                if args[0].items is None:
                    raise Unsupported("distinct over a symbolic-length list")
                args = list(args[0].items)
            return z3.Distinct([zval(a) for a in args]) if len(args) > 1 else True
        raise Unsupported(f"builtin {name}")

    def isinstance_(self, v, cls):
        if isinstance(cls, tuple):
            return zor(*[self.isinstance_(v, c) for c in cls])
        if isinstance(cls, Opaque) and isinstance(cls.what, tuple) and cls.what[0] == "builtin":
            n = cls.what[1]
            if n == "str":
                return is_strv(v)
            if n == "int":
                return is_int(v) or is_boolv(v)
            if n == "bool":
                return is_boolv(v)
            if n == "list":
                return isinstance(v, ListV) and v.kind == "list"
            if n in ("bytes", "bytearray"):
                return isinstance(v, ListV) and v.kind == "bytes"
            if n == "tuple":
                return isinstance(v, tuple)
            if n == "dict":
                return isinstance(v, DictV)
            if n == "float":
                return is_real(v)
        if isinstance(cls, ClassRef):
            if isinstance(v, Obj) and v.cls is not None and cls.info is not None:
                return any(c.key == cls.info.key for c in self.index.mro(v.cls))
            if isinstance(v, RecV) and cls.info is not None:
                ci = self._class_by_name(self.frames[-1] if self.frames else Frame("builtins"), v.cls)
                if ci is not None:
                    return any(c.key == cls.info.key for c in self.index.mro(ci))
                return v.cls == cls.name
            if isinstance(v, Obj) and v.abstract:
                return Falsey(self, v, cls)
            if isinstance(v, (ListV, tuple, DictV)) or is_z3(v) or isinstance(v, (int, str, bool)) or v is None:
                return False
        raise Unsupported(f"isinstance({v!r}, {cls!r})")

    # ------------------------------------------------------------ methods of builtin types
    def call_builtin_method(self, recv, name, args, kwargs, fr):
        run = self.run
        if isinstance(recv, ListV):
            if name == "append":
                self.log_write(recv, "*")
                list_append(recv, args[0])
                return None
            if name == "clear":
                self.log_write(recv, "*")
                recv.items, recv.length, recv.arr = [], None, None
                return None
            if name == "remove" and recv.items is not None:
                # list.remove(x): the first element equal to x (objects: identity; values: decided equality only)
                self.log_write(recv, "*")
                for k, it in enumerate(recv.items):
                    if isinstance(it, Obj) or isinstance(args[0], Obj):
                        eq = it is args[0]
                    else:
                        eq = val_eq(it, args[0])
                        if not isinstance(eq, bool):
                            raise Unsupported("list.remove with an undecided comparison")
                    if eq:
                        del recv.items[k]
                        return None
                self.py_raise("ValueError")
            if name == "copy":
                return recv.copy()
            if name == "extend":
                self.log_write(recv, "*")
                recv.assign_from(list_concat(recv, self.as_list(args[0], fr)))
                return None
            if name == "pop":
                n = list_len(recv)
                i = args[0] if args else -1
                if not (isinstance(i, int) and i in (0, -1)):
                    raise Unsupported("list.pop at arbitrary index")
                nonempty = n > 0 if isinstance(n, int) else zint(n) > 0
                if not fr.spec and not run.branch(nonempty):
                    self.py_raise("IndexError")
                self.log_write(recv, "*")
                if recv.items is not None:
                    return recv.items.pop(i)
                if i == 0:
                    v = list_get(recv, 0)
                    recv.assign_from(list_slice(recv, 1, zint(n)))
                    return v
                v = list_get(recv, zint(n) - 1)
                recv.length = z3.simplify(zint(n) - 1)
                return v
            if name == "index":
                raise Unsupported("list.index")
            if name == "tobytes":
                return recv
            if name == "decode":
                raise Unsupported("bytes.decode")
        if isinstance(recv, SetV):
            if getattr(recv, "frozen", False) and name in ("add", "update", "difference_update", "discard", "remove", "clear", "pop"):
                raise Unsupported("mutator %s on a frozenset (AttributeError in Python)" % name)
            if name in ("difference", "union"):
                # non-mutating: a new set of the receiver's kind
                out = SetV(recv.d)
                out.frozen = getattr(recv, "frozen", False)
                for a in args:
                    src = self.as_list(a, fr)
                    if src.items is None:
                        raise Unsupported("set.%s with a symbolic-length iterable" % name)
                    for x in src.items:
                        if name == "union":
                            self.dict_store(fr, out, x, True)
                        else:
                            self.dict_remove(fr, out, x, must_exist=False)
                return out
            if name == "add":
                self.log_write(recv, "*")
                self.dict_store(fr, recv, args[0], True)
                return None
            if name == "update":
                self.log_write(recv, "*")
                for a in args:
                    src = self.as_list(a, fr)
                    if src.items is None:
                        raise Unsupported("set.update from a symbolic-length iterable")
                    for x in src.items:
                        self.dict_store(fr, recv, x, True)
                return None
            if name in ("difference_update", "discard", "remove"):
                self.log_write(recv, "*")
                srcs = [ListV([args[0]])] if name != "difference_update" else [self.as_list(a, fr) for a in args]
                for src in srcs:
                    if src.items is None:
                        raise Unsupported("set difference with a symbolic-length iterable")
                    for x in src.items:
                        self.dict_remove(fr, recv, x, must_exist=(name == "remove"))
                return None
            if name == "copy":
                out = SetV(recv.d)
                out.frozen = getattr(recv, "frozen", False)
                return out
        if isinstance(recv, DictV):
            if name == "keys":
                # a view: membership tests go to the dict itself; iteration / len see the keys
                return recv if not isinstance(recv, SetV) else ListV(recv.keys())
            if name == "values":
                return ListV(list(recv.d.values()))
            if name == "items":
                return ListV(recv.items())
            if name == "get":
                return self.dict_get(fr, recv, args[0], raise_key=False, default=args[1] if len(args) > 1 else None)
            if name == "copy":
                return DictV(recv.d)
        if is_strv(recv):
            from . import strings
            return strings.str_method(self, recv, name, args, kwargs, fr)
        if isinstance(recv, RegexV):
            from . import strings
            return strings.regex_method(self, recv, name, args, kwargs, fr)
        if isinstance(recv, MatchV):
            from . import strings
            return strings.match_method(self, recv, name, args, kwargs, fr)
        if isinstance(recv, NdV):
            from . import models
            return models.nd_method(self, recv, name, args, kwargs, fr)
        if isinstance(recv, tuple) and name == "index":
            raise Unsupported("tuple.index")
        raise Unsupported(f"method {name} on {recv!r}")


def Falsey(interp, v, cls):
    raise Unsupported("isinstance on abstract object")
