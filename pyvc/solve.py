"""Back ends: z3 (Python API, in worker processes through SMT-LIB2 text), cvc5 CLI on unknown."""
import os
import subprocess
import tempfile
import time
import multiprocessing as mp

Z3_TIMEOUT_MS = int(os.environ.get("VERIF_Z3_TIMEOUT_MS", "120000"))
CVC5_TIMEOUT_S = int(os.environ.get("VERIF_CVC5_TIMEOUT_S", "60"))
CVC5 = "/usr/bin/cvc5"


def _solve_one(job):
    idx, smt2, use_cvc5, strings = job[:4]
    quick = len(job) > 4 and job[4]
    import z3
    t0 = time.time()
    res, backend, info = "unknown", "z3-5.1.0", ""
    if quick:
        use_cvc5 = False
    try:
        s = z3.Solver()
        # z3 is unstable on identical input (sequence solver; nonlinear sector arithmetic): a short first try, then cvc5, then z3 again
        first_budget = 5000 if quick else (15000 if use_cvc5 else Z3_TIMEOUT_MS)
        s.set("timeout", first_budget)
        s.from_string(smt2)
        r = s.check()
        res = str(r)
        if r == z3.unknown:
            info = s.reason_unknown()
    except Exception as e:  # noqa
        res, info = "error", repr(e)
    if res in ("unknown", "error") and use_cvc5 and os.path.exists(CVC5):
        try:
            text = smt2
            if "(lambda" in text:
                # z3 prints list concatenations as array lambdas; `select` of a lambda is not SMT-LIB: beta-reduce with z3's simplifier
                try:
                    s0 = z3.Solver()
                    s0.from_string(smt2)
                    s1 = z3.Solver()
                    for a in s0.assertions():
                        s1.add(z3.simplify(a))
                    text = s1.to_smt2()
                except Exception:  # noqa
                    text = smt2
            with tempfile.NamedTemporaryFile("w", suffix=".smt2", delete=False) as f:
                logic = "HO_ALL" if "(lambda" in text else "ALL"
                f.write(f"(set-logic {logic})\n" + text + ("\n(check-sat)\n" if "(check-sat)" not in text else ""))
                path = f.name
            cmd = [CVC5, "--lang=smt2", f"--tlimit={CVC5_TIMEOUT_S * 1000}"]
            if strings:
                cmd.append("--strings-exp")
            p = subprocess.run(cmd + [path], capture_output=True, text=True, timeout=CVC5_TIMEOUT_S + 10)
            os.unlink(path)
            out = p.stdout.strip().split("\n")[0] if p.stdout.strip() else ""
            if out in ("unsat", "sat"):
                res, backend, info = out, "cvc5-1.0.3", ""
            else:
                info += " | cvc5: " + (out or p.stderr.strip()[:200])
        except Exception as e:  # noqa
            info += " | cvc5 error " + repr(e)
    if res in ("unknown", "error") and not quick and use_cvc5:
        try:
            s = z3.Solver()
            s.set("timeout", Z3_TIMEOUT_MS)
            s.from_string(smt2)
            r = s.check()
            if r != z3.unknown:
                res, backend = str(r), "z3-5.1.0"
        except Exception as e:  # noqa
            info += " | z3 retry " + repr(e)
    return idx, res, backend, time.time() - t0, info


def discharge(obligations, jobs=None, use_cvc5=True):
    """Sets .status ('discharged' | 'refuted' | 'unknown'), .backend, .time on each obligation."""
    import z3
    jobs = jobs or min(16, os.cpu_count() or 4)
    work = []
    for i, ob in enumerate(obligations):
        g = z3.simplify(ob.goal)
        if z3.is_true(g):
            ob.status, ob.backend, ob.time = "discharged", "simplifier", 0.0
            continue
        smt2 = ob.smt2()
        strings = "String" in smt2 or "str." in smt2
        work.append((i, smt2, use_cvc5, strings, ob.kind == "canary"))
    if work:
        if len(work) == 1 or jobs == 1:
            results = [_solve_one(w) for w in work]
        else:
            ctx = mp.get_context("fork")
            with ctx.Pool(min(jobs, len(work))) as pool:
                results = pool.map(_solve_one, work, chunksize=1)
        for idx, res, backend, t, info in results:
            ob = obligations[idx]
            ob.backend, ob.time, ob.info = backend, t, info
            ob.status = {"unsat": "discharged", "sat": "refuted"}.get(res, "unknown")
    return obligations
