"""Back ends: z3 (Python API, in worker processes through SMT-LIB2 text), cvc5 CLI on unknown."""
import os
import subprocess
import tempfile
import time
import multiprocessing as mp

Z3_TIMEOUT_MS = int(os.environ.get("VERIF_Z3_TIMEOUT_MS", "120000"))
CVC5_TIMEOUT_S = int(os.environ.get("VERIF_CVC5_TIMEOUT_S", "60"))
CVC5 = "/usr/bin/cvc5"


# Two kinds of budget.  FAST-PATH attempts use a wall-clock timeout: cheap, but the same VC that is `unsat` in 2 s alone comes back
# `unknown` next to a dozen busy cores.  So a verdict never rests on them alone: the schedule ENDS with load-independent attempts - cvc5
# under a CPU-time limit (RLIMIT_CPU) and z3 under `rlimit`, its deterministic resource counter (roughly 1-3.5 million units per second
# of solving here, depending on the kind of VC), with a wall-clock backstop only at eight times the nominal budget.
Z3_RLIMIT_PER_S = 3_500_000
WALL_BACKSTOP = 5
MAX_TAIL = 40
MAX_PHASE_B = 400


def _z3_try(smt2, timeout_ms, seed, deterministic=False):
    import z3
    # NOTE (DESIGN II.4, third occurrence): this solver lives in the z3 context the pool worker inherited by fork, so the numbering of the terms - and
    # with it z3's search - depends on what the worker solved before: the same VC text cost 0.27 M resource units in a clean context and 2.0 M after
    # unrelated terms had been made.  `rlimit` makes an attempt independent of the LOAD, not of that history.  A context of its own per attempt
    # (z3.Context()) would make the verdict reproducible, but measured on the whole suite it leaves 19 div/mod VCs of the pipeline concatenation
    # lemma open that the shared context closes, so the z3 attempts stay what they were - fast paths - and the VCs that were seen to flip are
    # closed by the history-independent back end in pyvc/ginst.py (phase B, first step; it works in a context of its own).
    s = z3.Solver()
    if deterministic:
        s.set("rlimit", int(timeout_ms / 1000.0 * Z3_RLIMIT_PER_S))
        s.set("timeout", int(timeout_ms) * WALL_BACKSTOP)
    else:
        s.set("timeout", int(timeout_ms))
    if seed:
        s.set("random_seed", seed)
        s.set("smt.random_seed", seed)
    s.from_string(smt2)
    r = s.check()
    return str(r), (s.reason_unknown() if r == z3.unknown else "")


def _cvc5_try(smt2, strings, cpu_s=None):
    import z3
    cpu_s = cpu_s or CVC5_TIMEOUT_S
    text = smt2
    if "(lambda" in text:
        # z3 prints list concatenations as array lambdas; `select` of a lambda is not SMT-LIB: beta-reduce with z3's simplifier
        try:
            s0 = z3.Solver()
            s0.from_string(smt2)
            s1 = z3.Solver()
            for a in s0.assertions():
                s1.add(z3.simplify(a))
            text = s1.to_smt2()
        except Exception:  # noqa
            text = smt2
    with tempfile.NamedTemporaryFile("w", suffix=".smt2", delete=False) as f:
        logic = "HO_ALL" if "(lambda" in text else "ALL"
        f.write(f"(set-logic {logic})\n" + text + ("\n(check-sat)\n" if "(check-sat)" not in text else ""))
        path = f.name
    # the limit is CPU time of the cvc5 process (RLIMIT_CPU), not wall-clock time: load-independent; wall-clock backstop at eight times that
    cmd = [CVC5, "--lang=smt2", f"--tlimit={cpu_s * 1000 * WALL_BACKSTOP}"]
    if strings:
        cmd.append("--strings-exp")

    def _limit():
        import resource
        resource.setrlimit(resource.RLIMIT_CPU, (cpu_s, cpu_s + 5))
    try:
        p = subprocess.run(cmd + [path], capture_output=True, text=True, timeout=cpu_s * WALL_BACKSTOP + 10, preexec_fn=_limit)
    except subprocess.TimeoutExpired:
        return "", "cvc5: wall-clock backstop"
    finally:
        if os.path.exists(path):
            os.unlink(path)
    out = p.stdout.strip().split("\n")[0] if p.stdout.strip() else ""
    return out, (out or p.stderr.strip()[:200])


def _solve_one(job):
    """One phase of the portfolio for one VC.  z3 is unstable on identical input (sequence solver; quantified array VCs are solved in seconds
    under one random seed and not at all under another), so the schedule is, in three phases:
      A  z3 seed 0 (wall-clock)                                                      - settles almost everything
      B  cvc5 (short; strings: its full budget); non-string VCs: finite ground instantiation + quantifier-free z3 (no seed, a context
         of its own: pyvc/ginst.py); then z3 seeds 1..3 (wall-clock)                 - for what A left open
      C  cvc5 with its full CPU budget, then z3 under six seeds with `rlimit`        - load-independent tail for what B left open
    Only `unsat` discharges, only `sat` refutes; everything else stays `unknown`."""
    idx, smt2, use_cvc5, strings, quick, phase = job
    t0 = time.time()
    res, backend, info = "unknown", "z3-5.1.0", ""
    if quick:
        use_cvc5 = False

    def z3_stage(seeds, each_ms, deterministic=False):
        nonlocal res, info, backend
        for seed in seeds:
            try:
                r, why = _z3_try(smt2, each_ms, seed, deterministic)
            except Exception as e:  # noqa
                r, why = "error", repr(e)
            if r in ("sat", "unsat"):
                res, backend = r, "z3-5.1.0"
                return True
            info = why or info
        return False

    def cvc5_stage(cpu_s=None):
        nonlocal res, info, backend
        if not (use_cvc5 and os.path.exists(CVC5)):
            return False
        try:
            out, why = _cvc5_try(smt2, strings, cpu_s)
            if out in ("unsat", "sat"):
                res, backend, info = out, "cvc5-1.0.3", ""
                return True
            info += " | cvc5: " + why
        except Exception as e:  # noqa
            info += " | cvc5 error " + repr(e)
        return False

    def ginst_stage(seconds=20):
        # deterministic finite instantiation (pyvc/ginst.py): no seed, one quantifier-free solver call per round under `rlimit`
        nonlocal res, info, backend
        if strings or not use_cvc5:
            return False
        try:
            from . import ginst
            r, why = ginst.solve(smt2, rlimit=int(seconds * Z3_RLIMIT_PER_S), timeout_ms=seconds * 1000 * 3)
        except Exception as e:  # noqa
            r, why = "unknown", "ginst error " + repr(e)
        if r == "unsat":
            res, backend, info = "unsat", "ginst+z3-5.1.0", ""
            return True
        info += " | " + why[:160]
        return False

    if phase == "A":
        # non-string VCs: the first attempt is already load-independent (rlimit; wall-clock backstop at five times the budget), so that a busy
        # machine does not turn dozens of easy VCs into "open" ones that then compete for the later phases
        # VERIF_PHASE_A_SEED: developer knob for stress tests only (an "unlucky history" for phase A); unset in every registered command
        z3_stage([int(os.environ.get("VERIF_PHASE_A_SEED", "0"))], 5000 if quick else (15000 if use_cvc5 else Z3_TIMEOUT_MS),
                 deterministic=not strings and not quick)
    elif phase == "B":
        # cvc5 first: 10 CPU-s at most, and it closes the nonlinear sector-arithmetic VCs (C15, C08) at once, on which the quantifier-free call of the
        # instantiation back end only runs into its backstop
        # VERIF_NO_CVC5_IN_B: developer knob for stress tests only (does the instantiation back end close what cvc5 usually closes?)
        (not os.environ.get("VERIF_NO_CVC5_IN_B") and cvc5_stage(30 if strings else 10)) or ginst_stage() or \
            z3_stage([1, 2] if strings else [1, 2, 3], 10000)
    elif strings:
        # string VCs: z3's resource counter advances slowly in the sequence solver (the wall-clock backstop would be what ends each attempt),
        # and cvc5 has had its say in phase B: three short deterministic attempts only
        z3_stage([4, 5, 6], 8000, deterministic=True)
    else:
        cvc5_stage() or z3_stage([4, 5, 6, 0, 1, 2], 20000, deterministic=True)
    return idx, res, backend, time.time() - t0, info


def discharge(obligations, jobs=None, use_cvc5=True):
    """Sets .status ('discharged' | 'refuted' | 'unknown'), .backend, .time on each obligation."""
    import z3
    jobs = jobs or min(16, os.cpu_count() or 4)
    work = []
    for i, ob in enumerate(obligations):
        g = z3.simplify(ob.goal)
        if z3.is_true(g):
            ob.status, ob.backend, ob.time = "discharged", "simplifier", 0.0
            continue
        smt2 = ob.smt2()
        strings = "String" in smt2 or "str." in smt2
        ob.status, ob.time, ob.info, ob.backend = "unknown", 0.0, "", "z3-5.1.0"
        work.append((i, smt2, use_cvc5, strings, ob.kind == "canary"))

    def run_phase(items, phase):
        js = [w + (phase,) for w in items]
        if not js:
            return
        if len(js) == 1 or jobs == 1:
            results = [_solve_one(w) for w in js]
        else:
            ctx = mp.get_context("fork")
            with ctx.Pool(min(jobs, len(js))) as pool:
                results = pool.map(_solve_one, js, chunksize=1)
        for idx, res, backend, t, info in results:
            ob = obligations[idx]
            ob.time += t
            if res in ("unsat", "sat"):
                ob.backend, ob.info = backend, info
                ob.status = {"unsat": "discharged", "sat": "refuted"}[res]
            else:
                ob.info = ((ob.info + " | ") if ob.info else "") + f"{phase}: {info}"

    run_phase(work, "A")
    # phases B and C only for a bounded number of VCs per function: on the unchanged tree phase A leaves a handful open (a dozen or two for the
    # heaviest lemma); a function with many more open VCs has been CHANGED into something the solvers cannot decide, and minutes spent on each of
    # them would only delay the verdict "undecided"
    open_b = [w for w in work if obligations[w[0]].status == "unknown" and not w[4] and use_cvc5]
    run_phase(open_b[:MAX_PHASE_B], "B")
    open_c = [w for w in open_b[:MAX_PHASE_B] if obligations[w[0]].status == "unknown"]
    run_phase(open_c[:MAX_TAIL], "C")
    for w in open_b[MAX_PHASE_B:] + open_c[MAX_TAIL:]:
        obligations[w[0]].info = (obligations[w[0]].info or "") + " | later phases skipped (too many open VCs in this function)"
    if os.environ.get("VERIF_SOLVER_STATS") and work:
        import sys
        print(f"SOLVER-STATS vcs={len(work)} open-after-A={len(open_b)} open-after-B={len(open_c)} "
              f"open-at-end={sum(1 for w in work if obligations[w[0]].status == 'unknown')}", file=sys.stderr)
    return obligations
