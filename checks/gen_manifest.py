"""Regenerate MANIFEST.json from checks/props.py (keeps it schema-valid)."""
import json, os, sys
HERE = os.path.dirname(os.path.dirname(os.path.abspath(__file__)))
sys.path.insert(0, HERE)
from checks import props

ids = [json.loads(l)["id"] for l in open(os.path.join(HERE, "properties.jsonl"))]
checks, na = [], []
for pid in ids:
    s = props.SPECS.get(pid)
    if s is None or s.get("unregistered"):
        na.append({"property_id": pid, "reason": props.NOT_YET.get(pid, "check under construction in this session (DESIGN.md section 5); no claim is made until its check is registered")})
        continue
    checks.append({
        "property_id": pid,
        "quick_cmd": f"bin/check {pid} --tier quick",
        "thorough_cmd": f"bin/check {pid} --tier thorough",
        "evidence_file": f"evidence/{pid}.json",
        "replay_cmd_template": f"bin/check {pid} --replay {{path}}",
        "engine": "pyvc",
        "level_claimed": {"category": s.get("level", "proof"), "text": s["level_text"], "design_ref": s.get("design_ref", f"DESIGN.md section 5 ({pid})")},
        "level_note": s["level_note"],
        "technique": s.get("technique", "contract-based deductive verification: VCs generated from the real Python AST against sidecar contracts, discharged by z3/cvc5; counter-models replayed on the real code"),
    })
m = {
    "version": 1,
    "setup_cmd": "sh bin/setup",
    "hooks": {"guard": "SMPL_EXTRACT_VERIF",
              "enable": "none needed: contracts are sidecar files under /verif/contracts, the engine re-reads /repo's working tree with ast on every run; the guard variable is read by nothing",
              "baseline_off_cmd": "cd /repo && /venv/bin/python -m pytest -ra -q -p no:cacheprovider --timeout=900 --continue-on-collection-errors",
              "source_commits": [], "add_only": True},
    "engines": [{"name": "pyvc", "path": "pyvc/", "serves_properties": [c["property_id"] for c in checks],
                 "kind_free_text": "home-built VC generator for a Python subset (ast -> z3; on unknown: own finite ground-instantiation back end + quantifier-free z3, cvc5, z3 seed portfolio), sidecar contracts, replay + bounded stand-ins on the real code under /venv/bin/python"}],
    "checks": checks,
    "not_applicable": na,
    "notes": "Exit codes: 0 held (UNDECIDED lines are not alarms), 1 VIOLATION, 3 checker error. known_findings.json lists recorded/fixed defects.",
}
json.dump(m, open(os.path.join(HERE, "MANIFEST.json"), "w"), indent=1)
print("checks:", [c["property_id"] for c in checks], "n/a:", len(na))
