import argparse
import json
import os
import sys
import traceback

HERE = os.path.dirname(os.path.dirname(os.path.abspath(__file__)))
sys.path.insert(0, HERE)
sys.setrecursionlimit(10000)


def main():
    ap = argparse.ArgumentParser()
    ap.add_argument("property")
    ap.add_argument("--tier", default=os.environ.get("VERIF_TIER", "quick"))
    ap.add_argument("--replay")
    ap.add_argument("--write-baseline", action="store_true")
    a = ap.parse_args()
    seed = int(os.environ.get("VERIF_SEED", "0") or 0)
    from pyvc import harness
    from checks import props
    if a.replay:
        return replay(a.property, a.replay)
    spec = props.SPECS.get(a.property)
    if spec is None:
        print(f"CHECKER-ERROR no check registered for {a.property}")
        return 3
    try:
        if "custom" in spec:
            return spec["custom"](a.property, spec, a.tier, seed)
        pc = harness.PropertyCheck(a.property, spec, a.tier, seed)
        pc.want_baseline = a.write_baseline
        return pc.run()
    except Exception:
        print("CHECKER-ERROR " + traceback.format_exc())
        return 3


def replay(pid, path):
    from pyvc import harness
    harness.load_contracts()
    doc = json.load(open(path if os.path.isabs(path) else os.path.join(HERE, path)))
    if doc.get("runner"):
        # end-to-end replays carry their own runner
        import importlib
        mod = importlib.import_module(doc["runner"])
        return mod.replay(doc)
    if not doc.get("inputs"):
        print("replay file carries no concrete input (no-failing-input-found); solver output:")
        print(json.dumps(doc.get("solver"), indent=1)[:3000])
        return 1
    out = harness.run_driver({"mode": "replay", "contract_module": doc["contract_module"], "key": doc["function"],
                              "inputs": doc["inputs"], "timeout_s": 5.0, "lemma": doc.get("lemma", False)})
    print(json.dumps(out, indent=1)[:4000])
    if out["violations"]:
        print(f"VIOLATION property={pid} replay={path}")
        return 1
    print("replay: the recorded input no longer violates the contract")
    return 0


if __name__ == "__main__":
    sys.exit(main())
