"""Which contracts and bounded stand-ins decide which property."""

FAT = "smpl_extract.util.fat:"

SPECS = {}
NOT_YET = {}

SPECS["C07"] = {
    "level": "proof",
    "level_text": "VCs for chain resolution (result is exactly the linked sequence; errors only for malformed tables; termination by a decreasing measure) generated from the current source and discharged for tables of any size; the two raw-table decoders are covered by bounded stand-ins (labelled bounded, not proved)",
    "level_note": "trusted: the pyvc VC generator and its built-in models, z3/cvc5; pigeonhole step (a chain of distinct in-table sectors is no longer than the table) is a paper lemma",
    "contracts": [FAT + "FileAllocationTable.get_path"],
    "bounded": [("contracts.util_fat", FAT + "FileAllocationTable.get_path")],
    "trusted_base": ["pyvc VC generator and its built-in models", "z3 5.1.0 / cvc5 1.0.3"],
    "not_covered": [],
    "assumptions": ["Python ints are mathematical integers; // and % are floor division for positive divisors"],
}
