"""Which contracts and bounded stand-ins decide which property."""

FAT = "smpl_extract.util.fat:"

SPECS = {}
NOT_YET = {}

SPECS["C07"] = {
    "level": "proof",
    "level_text": "proved for tables of any size: chain resolution returns exactly the linked sequence up to the first end marker, errors only for malformed tables, termination by a decreasing measure; link installation (with frame over the whole table); termination and absence of unhandled exceptions of BOTH raw-table decoders on arbitrary word tables (AKAI: lexicographic measure (growth of the visited flags, distance to the table end); Roland: walk length against the table length); the sector-chained stream yields the concatenation of the listed sectors. Decoder CORRECTNESS (decode then resolve == raw chain for every well-formed chain) is a bounded stand-in: exhaustive over all tables of <= 5/6 AKAI sectors and Roland FATs of 2..4 scannable clusters, on the real code - labelled bounded, not proved",
    "level_note": "trusted: the pyvc VC generator and its built-in models, z3/cvc5; pigeonhole step (a chain of distinct in-table sectors is no longer than the table) is a paper lemma",
    "contracts": [FAT + "FileAllocationTable.get_path", FAT + "add_to_sector_links",
                  "smpl_extract.akai.sat:SegmentAllocationTableAdapter._decode",
                  "smpl_extract.roland.s7xx.fat:FatAreaAdapter._decode",
                  FAT + "FileStream._read", FAT + "FileStream.read"],
    "bounded": [("contracts.util_fat", FAT + "FileAllocationTable.get_path"),
                ("contracts.util_fat", FAT + "add_to_sector_links"),
                ("contracts.util_stream", FAT + "FileStream._read"), ("contracts.util_stream", FAT + "FileStream.read"),
                ("contracts.decoders", "bounded:akai_sat_decode"),
                ("contracts.decoders", "bounded:roland_fat_decode")],
    "trusted_base": ["pyvc VC generator and its built-in models", "z3 5.1.0 / cvc5 1.0.3"],
    "not_covered": ["unbounded inductive proof of decoder correctness (DESIGN: stretch goal, not attempted)"],
    "assumptions": ["Python ints are mathematical integers; // and % are floor division for positive divisors",
                    "Roland bounded stand-in patches the module constant FAT_NUM_ENTRIES to 13..15 in the driver process"],
}


def _view_keys(methods, classes=None, widths=(1, 2, 4)):
    from contracts import util_stream as us
    out = []
    for n in (classes or us.ALL):
        cls = us.CLASSES[n]["cls"]
        if n == "StreamReversed":
            for w in widths:
                out += [f"{cls}.{m}[w={w}]" for m in methods]
        else:
            out += [f"{cls}.{m}" for m in methods]
    return out


_VIEW_METHODS = ["read", "read#None", "readall", "seek", "seek#default-whence", "tell"]
_SECTOR_READ = ["smpl_extract.util.sector:SectorStream._read", "smpl_extract.util.fat:FileStream._read",
                "smpl_extract.alcohol.mdf:MdfStream._read"]

SPECS["C08"] = {
    "level": "proof",
    "level_text": "every view class (offset window, plain wrapper, sector stream, sector-chained file, MODE1/2352 user-data view, sample-reversed view) is proved to refine the read-only-file contract w.r.t. its logical content: read returns exactly the logical bytes clipped at the end and advances by the bytes returned, seek clamps to [0,len], tell returns the position, readall reads to the end (with termination) - for views of any size, any sector length, any chain, any substream cursor; nesting follows by induction because each proof uses only the same contract of the substream. Histories are covered by the per-call contracts plus the proved invariant 0 <= position <= length",
    "level_note": "trusted: pyvc engine, z3/cvc5; base io objects satisfy the ROF contract (assumed); numpy frombuffer/reshape/flip/flatten/tobytes contracts (assumed) for the reversed view; StreamReversed proved for sample widths 1, 2, 4 (symbolic width is nonlinear: undecided, repo uses 1 and 2)",
    "contracts": _SECTOR_READ + _view_keys(_VIEW_METHODS),
    "bounded": [("contracts.util_stream", k) for k in _view_keys(["read", "seek"])],
    "trusted_base": ["pyvc VC generator and its built-in models", "z3 5.1.0 / cvc5 1.0.3"],
    "not_covered": ["views over an empty window (end_of_file == 0): the property speaks of non-empty views"],
    "assumptions": ["nesting of views: induction on depth on paper (each proof assumes only the ROF contract of its substream)"],
}


SPECS["C18"] = {
    "level": "proof",
    "level_text": "loop-free codecs: lemmas that call the real functions are discharged for EVERY integer input (character tables both ways incl. rejection of every other value, note number <-> (degree, sharp, octave) incl. the AKAI and MIDI offsets); the float tuning codec and the text form of notes are enumerated exhaustively over their whole finite domains on the real code (complete for those domains)",
    "level_note": "trusted: pyvc engine, z3; the tuning lemma reads floats as exact reals - the IEEE-754 behaviour is what the exhaustive 256-value run executes",
    "contracts": ["lemma:akai_to_ascii_table", "lemma:akai_to_ascii_table_generic", "lemma:akai_ascii_roundtrip",
                  "lemma:ascii_akai_roundtrip", "lemma:note_int_roundtrip", "lemma:note_akai_byte_roundtrip",
                  "lemma:note_midi_byte_roundtrip", "lemma:note_fields", "lemma:tuning_real_roundtrip"],
    "bounded": [("contracts.codecs", "finite:codecs")],
    "trusted_base": ["pyvc VC generator and its built-in models", "z3 5.1.0 / cvc5 1.0.3"],
    "assumptions": ["IntEnum members are their integer values; dict lookups with a symbolic key are case-split over the literal keys"],
}


SPECS["C03"] = {
    "level": "proof",
    "level_text": "from_bin_cue is proved, for any number of tracks and any MM:SS:FF values, to build exactly the windows the statement prescribes (offset 2352*F_k, size up to the next first index, last track to the end of the bin), hence contiguous tiling; 16-bit stereo 44100; every window starts rewound. The byte content of each WAV then follows from the proved window view (C08 StreamOffset) and the proved pass-through transcoder (whole-frame truncation)",
    "level_note": "trusted: pyvc engine, z3; ROF contract of the bin file; str.lower as an uninterpreted function; the filter comprehension axioms; composition window -> transcoder -> data chunk is on paper (GreedyRange build writes the yielded blocks in order: assumed)",
    "contracts": ["smpl_extract.cuesheet:CueSheetIndex.get_total_audio_frames",
                  "smpl_extract.cdda.image:CompactDiskAudioImageAdapter.from_bin_cue",
                  "smpl_extract.util.stream:StreamOffset.read", "smpl_extract.util.stream:StreamOffset.seek",
                  "smpl_extract.transcoder:resize_buffer", "smpl_extract.transcoder:PassthroughTranscoder.__next__",
                  "lemma:passthrough_concatenation[frame=4]", "smpl_extract.transcoder:make_transcoder[2]"],
    "bounded": [("contracts.cdda", "smpl_extract.cdda.image:CompactDiskAudioImageAdapter.from_bin_cue"),
                ("contracts.cdda", "smpl_extract.cuesheet:CueSheetIndex.get_total_audio_frames"),
                ("contracts.e2e_names", "e2e:cdda_names")],
    "trusted_base": ["pyvc VC generator and its built-in models", "z3 5.1.0 / cvc5 1.0.3"],
    "assumptions": [],
}


def _tr_shapes(name):
    from contracts import transcoder as t
    return [f"smpl_extract.transcoder:{name}[{'x'.join(str(c) for c in sh)}]" for sh in t.SHAPES]


SPECS["C12"] = {
    "level": "proof",
    "level_text": "proved: block sizing (one common frame count >= 1 for any block-size constant), whole-frame truncation, pass-through blocks and their concatenation (= the window's whole frames, any length), channel-count check, pass-through iff same encoding, ONE byte-swap flag PER CHANNEL in channel order and input/output swap steps matching source/host/destination byte orders - for every stream shape up to 3 streams / 3 channels with all other values symbolic. The numpy index mapping of decode_frame / encode_frame and the multi-stream stop condition are covered by a bounded stand-in on real numpy (exhaustive over the stated small scope) - labelled bounded",
    "level_note": "trusted: pyvc engine, z3; numpy (frombuffer/reshape/T/vstack/byteswap/pad/tobytes) is exercised for real in the bounded stand-in, not modelled; shapes limited to <= 3 streams",
    "contracts": ["smpl_extract.transcoder:resize_buffer", "smpl_extract.transcoder:get_num_frames_possible",
                  "smpl_extract.transcoder:PassthroughTranscoder.__next__"] +
                 [f"lemma:passthrough_concatenation[frame={f}]" for f in (1, 2, 4, 6, 8)] +
                 _tr_shapes("get_buffer_sizes") + _tr_shapes("make_transcoder"),
    "bounded": [("contracts.transcoder", "bounded:transcode")],
    "trusted_base": ["pyvc VC generator and its built-in models", "z3 5.1.0 / cvc5 1.0.3"],
    "not_covered": ["decode_frame / encode_frame / pad_channels / PipelineTranscoder.__next__ at the level of numpy index arithmetic: bounded stand-in only"],
    "assumptions": ["default argument target_size of get_num_frames_possible equals the module constant"],
}




SPECS["C11"] = {
    "level": "proof",
    "level_text": "the read/seek/tell contracts of every view class are proved with NO precondition on the cursor of the shared substream and with a frame that lets a view write only its own position/true_size and cursors below it; a view's results are therefore a function of its own fields and the immutable content, so operations on other views cannot change them (3-line isolation lemma on paper). A mechanical scan confirms that no view contract mentions the substream cursor in a precondition. Bounded stand-in: every interleaving of short operation sequences on real views sharing one handle equals the isolated runs",
    "level_note": "trusted: pyvc engine, z3; ROF contract of base io objects; construct's Lazy saves/restores the cursor (assumed); isolation lemma is on paper",
    "contracts": _SECTOR_READ + _view_keys(["read", "seek", "tell"]),
    "bounded": [("contracts.util_stream", "bounded:shared_handle_interleavings")],
    "post_scan": "no_cursor_precondition",
    "trusted_base": ["pyvc VC generator and its built-in models", "z3 5.1.0 / cvc5 1.0.3"],
    "assumptions": ["isolation lemma (paper): results are a function of own fields and immutable content; own fields are written only by own methods (proved frame)"],
}


_E2E_NOTE = ("end-to-end monitors run the real ls/export on images from independent writers in /verif/bounded and evaluate the "
             "property statement itself; they are bounded stand-ins for the construct glue and are never counted as proved")

SPECS["C14"] = {
    "level": "other",
    "level_text": "BOUNDED: the property statement is evaluated end-to-end on the real tool for a 3-file AKAI volume with each entry damaged (type byte: every value in the thorough tier; every other byte of the entry: 8/14 values; random multi-byte damage). No contract within reach expresses the AKAI table loop (it is a construct Subconstruct driving parse_stream); the loop's alignment invariant is argued in DESIGN.md only",
    "level_note": "bounded stand-in only for the AKAI half; the Roland half (absolute Pointer addressing per index) is not exercised by a damage sweep yet; trusted: the independent writer",
    "explanation": _E2E_NOTE,
    "contracts": [],
    "bounded": [("contracts.e2e_more", "e2e:C14")],
    "trusted_base": ["independent AKAI writer /verif/bounded/akai_writer.py"],
    "not_covered": ["Roland directory / parameter record damage"],
    "assumptions": ["K1 (known finding): damage that turns a name into a sibling's name is excluded through known_findings.json"],
}


SPECS["C16"] = {
    "level": "other",
    "level_text": "BOUNDED end-to-end: every sequence of 2 (quick) / 3 (thorough) operations from {ls at valid and invalid paths, export} on one opened image object gives, operation by operation, the same output and the same exported bytes as a fresh object, for AKAI, CDDA and Roland images, and the image file is unchanged. The contract-level ingredients that are proved elsewhere: view reads are cursor-independent (C11), every CDDA window starts rewound (C03 post-condition), pass-through concatenation from a rewound view (C12 lemma). The frame (write-set) analysis and cache purity obligations of DESIGN C16 are not mechanised yet",
    "level_note": "bounded stand-in; composition argument on paper (DESIGN.md C16)",
    "explanation": _E2E_NOTE,
    "contracts": [],
    "bounded": [("contracts.e2e_more", "e2e:C16")],
    "trusted_base": ["independent writers under /verif/bounded"],
    "not_covered": ["write-set scan of all functions reachable from ls/export; construct context mutation (wrap_child_realization)"],
    "assumptions": [],
}

SPECS["C20"] = {
    "level": "other",
    "level_text": "BOUNDED end-to-end: images whose header fields each carry their own random in-range value are written by the independent writers; every value the statement names is compared with the `key: value` lines ls prints (AKAI samples incl. rate 0 -> 44100 and active loops; Roland samples: mode, frequency, five loop points coarse+fine; CDDA tracks). Proved at contract level: MSF -> frame count and the CDDA sample-frame count (C03 contracts), note byte <-> name (C18). The symbolic parse of the header structs against layout tables (DESIGN C20) is not built yet",
    "level_note": "bounded stand-in; AKAI program / keygroup values are not yet covered by the writer",
    "explanation": _E2E_NOTE,
    "contracts": ["smpl_extract.cuesheet:CueSheetIndex.get_total_audio_frames", "smpl_extract.cdda.image:CompactDiskAudioImageAdapter.from_bin_cue",
                  "lemma:note_akai_byte_roundtrip"],
    "bounded": [("contracts.e2e_more", "e2e:C20")],
    "trusted_base": ["independent writers under /verif/bounded"],
    "not_covered": ["AKAI program header, keygroups and velocity zones", "the 300-line cap"],
    "assumptions": [],
}

SPECS["C09"] = {
    "level": "proof",
    "level_text": "proved: the MODE1/2352 user-data view and the offset window used for MDX refine the read-only-file contract over exactly the wrapped bytes (C08 contracts for MdfStream / StreamOffset: body k of raw sector k at 2352k+16, any seek/read history). BOUNDED end-to-end: generated AKAI and Roland images delivered raw, as 2352-byte sectors, in an MDX wrapper and through cue sheets over both are recognised as the same kind, list identically at every level and export byte-identical files. Detection predicates over the live header structs and the interface-only use of streams (parametricity) are argued in DESIGN.md, not mechanised",
    "level_note": "trusted: pyvc engine, z3, ROF contract; detection cascade and cue indirection covered by the bounded monitor only",
    "contracts": ["smpl_extract.alcohol.mdf:MdfStream._read", "smpl_extract.alcohol.mdf:MdfStream.read", "smpl_extract.alcohol.mdf:MdfStream.seek",
                  "smpl_extract.alcohol.mdf:MdfStream.tell", "smpl_extract.alcohol.mdf:MdfStream.readall",
                  "smpl_extract.util.stream:StreamOffset.read", "smpl_extract.util.stream:StreamOffset.seek", "smpl_extract.util.stream:StreamOffset.tell"],
    "bounded": [("contracts.e2e_more", "e2e:C09")],
    "trusted_base": ["pyvc VC generator", "z3 5.1.0 / cvc5 1.0.3", "independent writers under /verif/bounded"],
    "not_covered": ["is_mdf_image / is_mdx_image / is_roland_s7xx_image as VCs over the live construct declarations", "MdfStream.__init__ / MdxStream size computation"],
    "assumptions": [],
}

SPECS["C15"] = {
    "level": "proof",
    "level_text": "proved for the views over a TRUNCATED base file (content = full[:cut], no assumption that addresses lie inside it): a plain/offset window returns a prefix of the exact slice, short exactly at the cut and complete when everything lies before it; a sector-chained / raw-sector view returns the exact bytes or raises SectorReadError - never wrong bytes, and a file whose sectors all lie before the cut never fails; the pass-through transcoder turns that error into the end of the data BEFORE yielding the partial block. BOUNDED end-to-end: two AKAI images cut at every sector boundary, around header ends and at random offsets: every reported file is a well-formed WAV and a prefix of the complete export, files lying before the cut are complete",
    "level_note": "trusted: pyvc engine, z3, ROF contract; construct's behaviour on a failing stream (compiled parsers let the stream's exception through) is exercised by the bounded monitor, not modelled; PipelineTranscoder (stereo pairs) only through the monitor; StreamReversed over a truncated base not covered",
    "contracts": ["smpl_extract.util.stream:StreamWrapper.read#cut", "smpl_extract.util.stream:StreamOffset.read#cut",
                  "smpl_extract.util.sector:SectorStream._read#cut", "smpl_extract.util.fat:FileStream._read#cut", "smpl_extract.alcohol.mdf:MdfStream._read#cut",
                  "smpl_extract.util.sector:SectorStream.read#cut", "smpl_extract.util.fat:FileStream.read#cut", "smpl_extract.alcohol.mdf:MdfStream.read#cut",
                  "smpl_extract.transcoder:PassthroughTranscoder.__next__"],
    "bounded": [("contracts.e2e_more", "e2e:C15")],
    "trusted_base": ["pyvc VC generator", "z3 5.1.0 / cvc5 1.0.3", "independent writers under /verif/bounded"],
    "not_covered": ["Roland and CDDA truncation sweeps", "header/table truncation handlers as contracts"],
    "assumptions": ["K2 (known finding): a cut that removes one half of an L/R pair"],
}

SPECS["C01"] = {
    "level": "proof",
    "level_text": "proved links of the chain SAT words -> sector list -> logical bytes -> window -> WAV data: chain resolution exact for any table (get_path), link installation, decoder termination/no exception, sector-chained reads return exactly the listed sectors' bytes for any chain order and any length incl. exact sector fill (FileStream), file/window views (StreamWrapper/StreamOffset incl. empty windows), pass-through selection and block concatenation = the window's whole 2-byte frames. BOUNDED: decoder correctness (exhaustive <= 5/6 sectors) and the end-to-end statement on images from the independent AKAI writer (every chain ordering, exact-fill lengths, markers, rates, type bytes, both directory forms, several partitions/volumes/files, L/R pairs)",
    "level_note": "trusted: pyvc engine, z3, ROF contract; the construct glue (Struct/Lazy/context plumbing, window arithmetic inside SampleHeaderConstruct, to_generalized, _encode) is covered by the bounded end-to-end monitor only; composition of the proved links is on paper",
    "contracts": [FAT + "FileAllocationTable.get_path", FAT + "add_to_sector_links", "smpl_extract.akai.sat:SegmentAllocationTableAdapter._decode",
                  FAT + "FileStream._read", FAT + "FileStream.read", "smpl_extract.util.stream:StreamWrapper.read", "smpl_extract.util.stream:StreamOffset.read",
                  "smpl_extract.util.stream:StreamOffset.seek", "smpl_extract.transcoder:resize_buffer", "smpl_extract.transcoder:PassthroughTranscoder.__next__",
                  "lemma:passthrough_concatenation[frame=2]", "smpl_extract.transcoder:make_transcoder[1]"],
    "bounded": [("contracts.decoders", "bounded:akai_sat_decode"), ("contracts.e2e", "e2e:C01")],
    "trusted_base": ["pyvc VC generator", "z3 5.1.0 / cvc5 1.0.3", "independent AKAI writer"],
    "not_covered": ["SampleHeaderConstruct window arithmetic as a VC over the live declaration", "VolumesAdapter / FileEntriesAdapter / PartitionAdapter plumbing"],
    "assumptions": [],
}

SPECS["C02"] = {
    "level": "proof",
    "level_text": "proved: chain resolution and link installation for any FAT, Roland decoder termination/no unhandled exception and version flags for any table length, cluster-chained reads (FileStream) for any chain order incl. exact cluster fill, offset windows and the sample-reversed view (width 2) as read-only files, pass-through concatenation. BOUNDED: decoder correctness (exhaustive small FATs) and the end-to-end statement on images from the independent Roland writer (7 loop modes, cluster-end windows, every 3-cluster permutation x cluster_top, 6 rates, FAT v1/v2, shared / orphaned / unreferenced entries)",
    "level_note": "trusted: pyvc engine, z3, ROF contract, numpy flip/reshape contracts for the reversed view; record addressing lambdas, loop-mode window functions and the per-performance collection are covered by the bounded monitor only (not yet as contracts)",
    "contracts": [FAT + "FileAllocationTable.get_path", FAT + "add_to_sector_links", "smpl_extract.roland.s7xx.fat:FatAreaAdapter._decode",
                  FAT + "FileStream._read", FAT + "FileStream.read", "smpl_extract.util.stream:StreamOffset.read",
                  "smpl_extract.util.stream:StreamReversed.read[w=2]", "smpl_extract.util.stream:StreamReversed.seek[w=2]",
                  "lemma:passthrough_concatenation[frame=2]"],
    "bounded": [("contracts.decoders", "bounded:roland_fat_decode"), ("contracts.e2e", "e2e:C02")],
    "trusted_base": ["pyvc VC generator", "z3 5.1.0 / cvc5 1.0.3", "independent Roland writer"],
    "not_covered": ["get_file / _get_*_params / to_generalized / SampleFileListAdapter as contracts"],
    "assumptions": [],
}

_NAMES_NOTE = "naming functions are regex-driven; their symbolic (string-theory) contracts are not built yet - see DESIGN.md"
SPECS["C05"] = {
    "level": "other",
    "level_text": "BOUNDED end-to-end on AKAI volumes whose sibling names come from a near-collision pool (all pairs of 16 names, fixed multisets, 40/600 random multisets): every sample's PCM appears exactly once as a channel of some written file (nothing lost, nothing duplicated), channels add up to the number of samples, true L/R pairs share one file with L in channel 0 whatever the directory order, unpaired samples are mono; plus the Roland monitor (C02) for performances. Interleaving itself is proved/bounded under C12",
    "level_note": "bounded stand-in; " + _NAMES_NOTE,
    "explanation": _E2E_NOTE,
    "contracts": [],
    "bounded": [("contracts.e2e_names", "e2e:names"), ("contracts.e2e", "e2e:C02")],
    "trusted_base": ["independent writers under /verif/bounded"],
    "not_covered": ["combine_stereo_routine / combine_stereo as symbolic contracts"],
    "assumptions": [],
}
SPECS["C06"] = {
    "level": "other",
    "level_text": "BOUNDED end-to-end: AKAI volumes with near-collision sibling names and CDDA cue sheets with hostile TITLEs ('..', separators, control characters, duplicates, blanks): files on disk == Exported lines, every path component matches the statement's safe-component grammar, nothing is written outside the destination (observable: destination two levels below the work directory)",
    "level_note": "bounded stand-in; " + _NAMES_NOTE,
    "explanation": _E2E_NOTE,
    "contracts": [],
    "bounded": [("contracts.e2e_names", "e2e:names"), ("contracts.e2e_names", "e2e:cdda_names")],
    "trusted_base": ["independent writers under /verif/bounded"],
    "not_covered": ["make_export_name / sanitize_names_general as symbolic contracts", "Roland names"],
    "assumptions": [],
}
SPECS["C10"] = {
    "level": "other",
    "level_text": "BOUNDED end-to-end: printed sibling names pairwise distinct; every printed name resolves through two path spellings (/ and \\\\, surrounding blanks, trailing separator, lower case) to exactly that item (identified by a unique header value) and renders; junk paths incl. unicode print `was not found` without an exception; AKAI volumes and CDDA images",
    "level_note": "bounded stand-in; " + _NAMES_NOTE,
    "explanation": _E2E_NOTE,
    "contracts": [],
    "bounded": [("contracts.e2e_names", "e2e:names"), ("contracts.e2e_names", "e2e:cdda_names")],
    "trusted_base": ["independent writers under /verif/bounded"],
    "not_covered": ["parse_path tokenisation lemma as a string VC"],
    "assumptions": [],
}


SPECS["C19"] = {
    "level": "proof",
    "level_text": "generic FIR filter (class FirFilter, extracted mechanically from fir.pyx on every run): proved for kernels of 1, 2, 3, 4, 8 and 19 taps, ANY carried state, ANY two non-empty blocks of any length and any sample values, over an abstract window function (so for any arithmetic incl. the ChickenSys custom convolution): process(a); process(b) emits exactly the outputs of process(a ++ b) and leaves the same history; one block plus flush emits as many samples as were fed, for every delay offset; the flush restores the constructor state (reset = new). More blocks follow by induction (paper). BOUNDED: the extracted source on real numpy for every composition of short signals. NOT DECIDED: the IIR kernels and the ChickenSys C-level convolution/saturation (Cython cdef code; no Cython or C verifier here, and the .so cannot be rebuilt) - the IIR half of the statement is undecided",
    "level_note": "trusted: pyvc engine, z3; numpy concatenate/slicing/convolve('valid')/astype contracts (assumed); the repaired fir.pyx cannot be rebuilt in this sandbox (no Cython): the proofs and the bounded run execute the SOURCE, not the stale .so",
    "contracts": [f"lemma:fir_block_split[N={n}]" for n in (1, 2, 3, 4, 8, 19)] + [f"lemma:fir_total_outputs[N={n}]" for n in (1, 2, 3, 4, 8, 19)],
    "bounded": [("contracts.filters", "bounded:fir_source")],
    "trusted_base": ["pyvc VC generator", "z3 5.1.0 / cvc5 1.0.3"],
    "not_covered": ["iir.pyx kernels (_c_process, _c_chickensys_process)", "_c_chicken_sys_convolve_valid, _c_bound_and_fix (cdef)", "filter presets' coefficients"],
    "assumptions": ["induction over the number of blocks from the two-block lemma (paper)"],
}


SPECS["C04"] = {
    "level": "proof",
    "level_text": "proved: the data chunk is a whole number of frames - every pass-through block is (resize_buffer: len = f*(len//f); PassthroughTranscoder.__next__), and the concatenation of all blocks is exactly f*(L//f) bytes (drain lemma for frame sizes 1,2,4,6,8); the pass-through block size is a multiple of the frame size for every stream shape (make_transcoder). BOUNDED end-to-end: every file reported by export over sweeps of the AKAI root-key / semitone / cents bytes, loop-table corner values, random headers, mono and stereo is parsed by an INDEPENDENT strict RIFF parser: RIFF size = length-8, fmt(16, PCM)/optional smpl/data in that order with sizes adding up, block align, byte rate, 16 bits, whole frames, smpl size = 36+24*loops; the same parser judges every file in the C01/C02/names/CDDA monitors",
    "level_note": "trusted: pyvc engine, z3; the symbolic BUILD of RiffStruct from the live construct declaration (Prefixed/Rebuild/GreedyRange) is not mechanised - covered by the independent parser on real outputs only; PipelineTranscoder frame alignment through the bounded C12 stand-in",
    "contracts": ["smpl_extract.transcoder:resize_buffer", "smpl_extract.transcoder:PassthroughTranscoder.__next__"] +
                 [f"lemma:passthrough_concatenation[frame={f}]" for f in (1, 2, 4, 6, 8)] + _tr_shapes("make_transcoder")[:3],
    "bounded": [("contracts.e2e_more", "e2e:C04")],
    "trusted_base": ["pyvc VC generator", "z3 5.1.0 / cvc5 1.0.3", "independent RIFF parser /verif/bounded/wavparse.py"],
    "not_covered": ["RiffStruct / WavFormatChunkStruct / WavSampleChunkStruct as symbolic build obligations"],
    "assumptions": [],
}


_CUE = "smpl_extract.cuesheet:"
SPECS["C17"] = {
    "level": "proof",
    "level_text": "proved (lists of strings, str.strip as an idempotent uninterpreted function, regex match truth = membership in the pattern mechanically translated from the compiled pattern object): get_nonempty_entry returns the first non-blank line stripped, skips only blank lines, keeps the rest in order (full functional contract) - this is what makes blank lines and surrounding blanks invisible to every parser above it; the three parsers always make progress and terminate; int() of a (\\d+) capture cannot fail. BOUNDED on the real parser: 3 canonical sheets x all 2048 combinations of the statement's cosmetic changes (+ an unknown line at a random admissible position) parse to the canonical meaning; text without a FILE line is rejected, non-ASCII text is not text, an all-audio sheet gives a CDDA image. The abstraction lemma 'each parser is a function of the classified blank-free line sequence' is NOT mechanised (DESIGN C17)",
    "level_note": "trusted: pyvc engine, z3 string/regex theory, the regex translation (re._parser), str.strip model; capture groups are over-approximated by their group language",
    "contracts": [_CUE + "get_nonempty_entry", _CUE + "CueSheetTrackAdapter.parse", _CUE + "CueSheetFileAdapter.parse", _CUE + "parse_cue_sheet"],
    "bounded": [("contracts.cuesheet", "bounded:cue_cosmetics"), ("contracts.cuesheet", "bounded:cue_or_not")],
    "trusted_base": ["pyvc VC generator", "z3 5.1.0 / cvc5 1.0.3"],
    "not_covered": ["abstraction lemma over the classified line sequence; push-back alpha-idempotence as a VC"],
    "assumptions": [],
}


SPECS["C13"] = {
    "level": "proof",
    "level_text": "termination obligations (a strictly decreasing, bounded-below measure, or a lexicographic one with growth of the visited flags) are discharged for the loops of the ls/export path that are repo code over repo data: chain resolution, link installation, BOTH raw-table decoders for tables of any length, the multi-sector read loop (3 view classes), readall (every view class), the four cue-sheet loops, the CDDA track loop, the partition scan loop (over an assumed contract for one construct parse: a successful parse consumes >= 8192 bytes). None of these proofs has a well-formedness precondition on the DATA, i.e. they cover arbitrary bytes. Each measure also bounds the iteration count by the table / list / file size. BOUNDED: ls at several levels and export under a CPU alarm and an address-space limit on random files and on AKAI / Roland / cue inputs with targeted and random corruption",
    "level_note": "trusted: pyvc engine, z3; loops inside construct / numpy / re (each consumes input or counts to a parsed 16-bit value) are not analysed; CPU seconds and bytes are not modelled (only iteration bounds) - list.pop(0) makes cue parsing quadratic in the number of lines, which this check does not judge; not under contract: parse_path's token loop (iterator over a finite list), sanitize_names_general's counter loop (guarded by an explicit bound), Element.export_path (finite parent chain), the two tree recursions",
    "contracts": [FAT + "FileAllocationTable.get_path", FAT + "add_to_sector_links",
                  "smpl_extract.akai.sat:SegmentAllocationTableAdapter._decode", "smpl_extract.roland.s7xx.fat:FatAreaAdapter._decode"] +
                 _SECTOR_READ + _view_keys(["readall"]) +
                 [_CUE + "get_nonempty_entry", _CUE + "CueSheetTrackAdapter.parse", _CUE + "CueSheetFileAdapter.parse", _CUE + "parse_cue_sheet",
                  "smpl_extract.cdda.image:CompactDiskAudioImageAdapter.from_bin_cue",
                  "smpl_extract.akai.image:AkaiImageParser._load_partitions"],
    "bounded": [("contracts.e2e_more", "e2e:C13")],
    "trusted_base": ["pyvc VC generator", "z3 5.1.0 / cvc5 1.0.3"],
    "not_covered": ["parse_path, sanitize_names_general, export_path loops; recursion of Traversable.export_samples / InfoTree.build_inner; loops inside libraries"],
    "assumptions": ["construct:PartitionParser.parse_stream assumed contract"],
}


# ---- contracts added after the first registration round
_ENC = ["smpl_extract.generalized.wav:WavSampleAdapter._encode[mono]", "smpl_extract.generalized.wav:WavSampleAdapter._encode[stereo-interleaved]",
        "smpl_extract.generalized.wav:WavSampleAdapter._encode[left-right]", "smpl_extract.generalized.wav:get_fmt_chunk_data"]
_SF = "smpl_extract.roland.s7xx.sample_file:"
_ROLAND_WIN = [_SF + f for f in ("_get_forward_end_params", "_get_forward_release_params", "_get_oneshot_params", "_get_forward_oneshot_params",
                                 "_get_alternate_params", "_get_reverse_oneshot_params", "_get_reverse_loop_params", "SampleFile.to_generalized")] + \
              ["smpl_extract.roland.s7xx.fat:RolandFileAllocationTable.get_file"]
_AKAI_GLUE = ["smpl_extract.akai.sat:SegmentAllocationTable.get_segment"] + \
             [f"smpl_extract.akai.sample:AkaiSample.to_generalized[loops={k}]" for k in (0, 1, 2)]
SPECS["C01"]["contracts"] += _AKAI_GLUE + _ENC[:1] + _ENC[2:]
SPECS["C01"]["level_text"] += ". Added: get_segment (sector stream over exactly the resolved chain), AkaiSample.to_generalized (one little-endian mono stream = the sample window, header rate), WavSampleAdapter._encode (fmt fields, chunk order, sources rewound, pass-through in whole frames / pipeline for L-R)"
SPECS["C02"]["contracts"] += _ROLAND_WIN + _ENC[:1]
SPECS["C02"]["level_text"] += ". Added: the seven loop-mode window functions and SampleFile.to_generalized (window = [2*start, 2*(end_mode+1)) with end_mode = release end for modes 1,3 and sustain end otherwise; sample-reversed view of width 2 for modes 5,6; rate of the frequency code), get_file (chain minus the leading cluster)"
SPECS["C02"]["not_covered"] = ["record addressing lambdas of the *EntryConstruct declarations", "SampleFileListAdapter / per-performance collection as contracts"]
SPECS["C04"]["contracts"] += _ENC
SPECS["C04"]["level_text"] += ". Added: _encode hands the builder [fmt, optional smpl, data] in that order, smpl present iff a note / tuning / loop is set, fmt = (PCM, channels, rate, 8*width)"
SPECS["C16"]["level"] = "proof"
SPECS["C16"]["contracts"] = _ENC[:3] + ["smpl_extract.cdda.image:CompactDiskAudioImageAdapter.from_bin_cue"] + [f"lemma:passthrough_concatenation[frame={f}]" for f in (2, 4)]
SPECS["C16"]["level_text"] = ("proved: every export rewinds every source view before building the data generator (WavSampleAdapter._encode post-condition, "
                              "all stream shapes) - so a view's cursor left by an earlier ls/export cannot influence the bytes; from a rewound view the "
                              "pass-through data is exactly the window (drain lemma); CDDA windows are created rewound; view reads do not depend on "
                              "the shared handle's cursor (C11). " + SPECS["C16"]["level_text"])

SPECS["C14"]["bounded"].append(("contracts.e2e_more", "e2e:C14-roland"))
SPECS["C14"]["not_covered"] = ["Roland volume/performance/patch/partial record damage (sample records are swept)"]
SPECS["C14"]["level_text"] += ". Added: Roland sample directory / parameter record damage sweep for a performance of 4 samples"
SPECS["C11"]["bounded"].append(("contracts.e2e_more", "bounded:chain_lookup_history"))
SPECS["C16"]["bounded"].append(("contracts.e2e_more", "bounded:chain_lookup_history"))

from contracts import layouts as _layouts
for _pid, _keys in _layouts.BY_PROPERTY.items():
    SPECS[_pid]["layouts"] = _keys
    SPECS[_pid]["level_text"] += ". Layout obligations: the LIVE construct declarations (dumped on every run, compiled structs through .defersubcon) agree field by field (offset, width, signedness, endianness, enum tables, array counts) with independent literal layout tables"
SPECS["C20"]["level"] = "proof"
SPECS["C01"]["level_text"] += "; the sample window expressions of SampleHeaderConstruct (size = 2*(end-start), offset = 140 + 2*start) are proved equal to the statement's window by z3 over the dumped expression trees"

SPECS["C14"]["contracts"] = ["smpl_extract.akai.file_entry:FileEntriesAdapter._parse"]
SPECS["C14"]["level"] = "proof"
SPECS["C14"]["level_text"] = ("proved (AKAI): the file-table scan keeps the alignment invariant 'at the head of iteration j the table cursor is at 24*j' for ANY content "
    "of the earlier entries - after a successful entry parse (cursor + 24) and after a failed one (explicit re-seek to entry start + 24), is_table_end "
    "restores the cursor - so entry j is parsed from bytes [24j, 24j+24) whatever entry i != j holds; the loop terminates; the live FileEntryConstruct is 24 bytes with "
    "the name/type/size/start fields where the independent table puts them. The construct parsers the loop drives are replaced by ASSUMED effect contracts. " + SPECS["C14"]["level_text"])
SPECS["C14"]["level_note"] = "trusted: pyvc engine, z3, assumed effect contracts of Struct.parse_stream / Int16ul.parse_stream / sizeof / Lazy; the Roland half and the lazy per-file error swallowing are bounded only"
SPECS["C13"]["contracts"].append("smpl_extract.akai.file_entry:FileEntriesAdapter._parse")

_NAMING = ["smpl_extract.structural:Image.make_export_name", "smpl_extract.structural:Image._add_count_to_name", "lemma:safe_component_is_confined"]
SPECS["C06"]["contracts"] = _NAMING
SPECS["C06"]["level"] = "proof"
SPECS["C06"]["level_text"] = ("proved with z3's string/regex theory over ALL ASCII names (patterns translated mechanically from the live compiled regex objects; "
    "sub / strip / match-group semantics as stated assumed contracts of `re` and `str`): make_export_name returns a non-empty name made only of word characters, "
    "space - . # that begins with a word character and does not end in a space (directories: nor in a dot or hyphen); _add_count_to_name keeps a safe "
    "component safe and carries the counter; a safe component contains no path separator and is not '.'/'..' (so joining components stays inside the "
    "destination - os.path.join assumed). NOT proved: uniqueness of the assigned names (sanitize_names_general / combine_stereo_routine work on "
    "dictionaries keyed by symbolic strings) - that half is the bounded monitor. " + SPECS["C06"]["level_text"])
SPECS["C06"]["level_note"] = "trusted: pyvc engine, z3 sequence/regex theory, regex translation (re._parser), assumed semantics of Pattern.sub for `[class]+`, str.strip, match decomposition and lazy-group minimality (suffix-closure checked by z3); make_safe_name assumed pure; uniqueness is bounded only"
SPECS["C06"]["not_covered"] = ["uniqueness of assigned names as a contract", "Roland names", "os.path.join / makedirs"]
SPECS["C10"]["contracts"] = _NAMING[:2]

SPECS["C05"]["clause_prefixes"] = ["C05.", "export-raised", "exactly-the-referenced-samples", "pcm-byte-identical", "rate-and-channels", "well-formed-wav"]
SPECS["C06"]["clause_prefixes"] = ["C06.", "export-raised"]
SPECS["C10"]["clause_prefixes"] = ["C10.", "export-raised"]

SPECS["C20"]["bounded"] += [("contracts.e2e_more", "e2e:C20-programs"), ("contracts.akai_sample", "finite:akai_sample_header_bytes")]
SPECS["C20"]["contracts"] += ["smpl_extract.akai.sample:LoopEntryAdapter._decode"] + [f"smpl_extract.akai.sample:SampleAdapter._decode_element[loops={k}]" for k in (0, 1, 2, 3)] + \
    [_SF + "SampleFile.to_generalized"]
SPECS["C20"]["level_text"] = ("proved: AKAI sample decoding - rate 0 -> 44100, word count, start/end markers, semitone tuning, loop mode, type; exactly the loop-table entries "
    "with a positive duration are listed (in stored order) unless the loop mode is 'no loop'; a loop's end point is the stored marker, its duration the stored duration, 9999 = hold; "
    "CDDA: MSF -> frames and the track's sample-frame count; note byte <-> note; layout obligations of the live header structs. BOUNDED: the live SampleHeaderConstruct with every byte "
    "position swept over all 256 values against an independent decode; end-to-end `ls` vs models for AKAI samples, AKAI PROGRAMS (independent program writer: every header field, keygroup "
    "chains in any slot order incl. backward links and decoys, 0..4 velocity zones), Roland samples, CDDA tracks. " + SPECS["C20"]["level_text"])
SPECS["C20"]["not_covered"] = ["keygroup / program decoding functions as contracts (PaddedGeneral, SlicingGeneral, KeygroupAdapter)", "the 300-line cap (truncated listings are skipped)"]
SPECS["C02"]["bounded"].append(("contracts.roland_addressing", "finite:roland_addressing"))
SPECS["C14"]["bounded"].append(("contracts.roland_addressing", "finite:roland_addressing"))
SPECS["C01"]["contracts"] += [f"smpl_extract.akai.sample:SampleAdapter._decode_element[loops={k}]" for k in (0, 1)]

# ---- session 3 additions
SPECS["C15"]["contracts"].append("smpl_extract.akai.file_entry:FileEntriesAdapter._parse#cut")
SPECS["C15"]["level_text"] += (". Added: the AKAI file-table scan over a VIEW of a truncated image lets nothing but a construct error escape "
                               "(a read failure of the view inside construct surfaces as StreamError and is handled per entry; a raw read outside would abort the export) "
                               "and stays aligned; cuts inside the 24-byte directory entries are part of the end-to-end sweep")
SPECS["C15"]["not_covered"] = ["Roland and CDDA truncation sweeps", "volume/partition table truncation handlers as contracts"]
_CTORS = ["smpl_extract.util.fat:FileStream.__init__", "smpl_extract.akai.sat:Segment.__init__", "smpl_extract.roland.s7xx.fat:RolandFile.__init__",
          "smpl_extract.alcohol.mdf:MdfStream.__init__", "smpl_extract.util.stream:StreamOffset.__init__", "smpl_extract.util.stream:StreamReversed.__init__"]
for _pid in ("C08", "C09", "C01", "C02"):
    SPECS[_pid]["contracts"] += [k for k in _CTORS if k not in SPECS[_pid]["contracts"]]
SPECS["C09"]["contracts"].append("smpl_extract.alcohol.mdx:MdxStream")
SPECS["C08"]["level_text"] += ". Added: the constructors establish what the read/seek contracts assume of a view (sector size, length = sectors x size, rewound, arguments kept)"
# C03 quantifies over cue sheets: the sheet's reading (C17's parser contracts and the cosmetics monitor) is part of what it depends on
SPECS["C03"]["contracts"] += ["smpl_extract.cuesheet:get_nonempty_entry", "smpl_extract.cuesheet:CueSheetTrackAdapter.parse",
                              "smpl_extract.cuesheet:CueSheetFileAdapter.parse", "smpl_extract.cuesheet:parse_cue_sheet"]
SPECS["C03"]["bounded"].append(("contracts.cuesheet", "bounded:cue_cosmetics"))
_UNIQ = [f"smpl_extract.structural:Image.{r}[n={n}]" for r in ("make_export_names_routine", "make_safe_names_routine") for n in (1, 2, 3, 4)]
SPECS["C06"]["contracts"] += [k for k in _UNIQ if "export" in k]
SPECS["C10"]["contracts"] += _UNIQ
SPECS["C10"]["level"] = "proof"
_UTXT = (" UNIQUENESS, proved per directory size n = 1..4 for ALL names: sanitize_names_general (reached through make_export_names_routine / "
         "make_safe_names_routine, dictionaries and sets keyed by symbolic strings, every insertion splitting the path on 'equals an earlier key') gives the "
         "n siblings pairwise different names and the first claimant keeps the plain name; the two string functions are replaced by abstract pure "
         "functions (only equality matters). Directories of more than 4 entries: bounded monitor only.")
SPECS["C06"]["level_text"] = SPECS["C06"]["level_text"].replace("NOT proved: uniqueness of the assigned names (sanitize_names_general / combine_stereo_routine work on "
    "dictionaries keyed by symbolic strings) - that half is the bounded monitor. ", _UTXT + " ")
SPECS["C06"]["not_covered"] = ["uniqueness for directories of more than 4 entries as a contract (needs a quantified invariant over a symbolic dictionary)",
                               "names after combine_stereo_routine", "Roland names", "os.path.join / makedirs"]
SPECS["C10"]["level_text"] = ("proved: " + _UTXT.strip() + " The printed (safe) names of siblings are therefore pairwise different for n <= 4. " + SPECS["C10"]["level_text"])
SPECS["C10"]["level_note"] = "trusted: pyvc engine (symbolic-key dictionaries), z3; purity of make_safe_name / make_export_name / _add_count_to_name assumed; path resolution (parse_path) and 'other paths say not found' are bounded only"
_PAIR = "smpl_extract.structural:Image.combine_stereo_routine"
SPECS["C05"]["contracts"] = ["lemma:stereo_filename_decomposition", _PAIR + "[n=1]", _PAIR + "[n=2]"] + \
    [k for k in _UNIQ if "export" in k and ("n=2" in k or "n=3" in k)]
SPECS["C05"]["contracts_thorough"] = [_PAIR + "[n=3]"]
SPECS["C05"]["level"] = "proof"
SPECS["C05"]["level_text"] = ("proved for directories of n = 1, 2 (quick) and 3 (thorough) mono samples with ANY names: combine_stereo_routine merges exactly the samples whose export "
    "names differ only in a final L / R preceded by a blank or hyphen (and whose stored names agree up to the final letter), the L sample first whatever the directory order, "
    "names the merged sample after the common stem, hands every other sample on unchanged, loses and duplicates nothing (channels add up to n), and the names handed on stay "
    "pairwise different. The pattern's behaviour is proved of the LIVE compiled regex (lemma:stereo_filename_decomposition: it matches exactly the names ending in "
    "blank/hyphen + L/R and its groups decompose the name) and used by the routine proof through an abstract match contract; combine_stereo is an abstract constructor "
    "recording which samples were merged in which order. The export names it starts from are pairwise different by the C06 uniqueness contracts. "
    "'Every frame of both is preserved' for equal lengths is C12 (PipelineTranscoder) - bounded there. " + SPECS["C05"]["level_text"])
SPECS["C05"]["level_note"] = ("trusted: pyvc engine (symbolic-key dictionaries / sets), z3 strings; assumed: abstract contracts of combine_stereo, of the match object (justified by the "
                              "lemma), purity and count-injectivity of _add_count_to_name; directories of more than 3 samples and the Roland path: bounded monitors only")
SPECS["C05"]["not_covered"] = ["directories of more than 3 samples as a contract", "combine_stereo's dataclass copy", "frame preservation of merged pairs (C12 pipeline: bounded)"]
SPECS["C10"]["contracts"] += [f"smpl_extract.structural:Traversable.parse_path[pieces={k}]" for k in (1, 2, 3)]
SPECS["C10"]["level_text"] = ("proved (per shape): for a realised tree root -> [leaf A, directory B -> [leaf C]] with ANY names and ANY path string that the tokeniser cuts into 1, 2 or 3 "
    "pieces, Traversable.parse_path raises nothing but ErrorInvalidPath (which ls prints as 'was not found'), returns only the node whose names the tokens spell, never returns for a path "
    "deeper than the tree, and does NOT raise for the joined printed names of an item - with '/' or a backslash, with or without surrounding blanks and a trailing separator; "
    "the tokeniser (re.split with one capturing group) is an assumed contract. " + SPECS["C10"]["level_text"])
SPECS["C10"]["not_covered"] = ["trees and paths beyond the proved shapes (bounded monitor)", "re.split semantics (assumed contract)", "the lazy realisation of `children` (construct glue)",
                               "rendering of the resolved item (get_info / itemize)"]
SPECS["C04"]["level_text"] += (". Added: DECLARATION-TREE obligation for the live RiffStruct (dumped on every run): 'RIFF' + Prefixed(u32le, not including itself) over 'WAVE' + GreedyRange of "
    "chunks, each a u32le id and a Prefixed(u32le) body switched on the id; fmt body of 16 bytes whose byte rate and block align are COMPUTED (Rebuild) as "
    "rate*channels*bits//8 and channels*bits//8 (expression trees compared semantically by z3, so an equal rewriting is not an alarm); smpl body of nine u32 "
    "followed by loop_cnt = len(loops) 24-byte loops; data body = the generator's blocks. With construct's trusted semantics of Prefixed / GreedyRange this gives "
    "RIFF size = length - 8, chunk sizes adding up, smpl size = 36 + 24*loops")
SPECS["C04"]["trusted_base"] = SPECS["C04"].get("trusted_base", []) + ["construct 2.10: Prefixed(lengthfield, subcon).build writes len(built subcon) then its bytes; GreedyRange builds every element in order; Lazy/GreedyBytes write the generator's blocks unchanged"]
SPECS["C09"]["contracts"] += ["smpl_extract.actions:determine_image_type[opened-file]", "smpl_extract.actions:attempt_parse_cue_sheet"]
SPECS["C17"]["contracts"] += ["smpl_extract.actions:attempt_parse_cue_sheet"]
SPECS["C09"]["level_text"] += (". Added: determine_image_type on an opened file removes the container first (MDF before MDX) and decides Roland/AKAI on the unwrapped stream only; "
    "attempt_parse_cue_sheet opens a sheet with any non-audio track (mode compared without letter case) as a sampler image over its bin file and a sheet with only audio tracks as CDDA, "
    "and raises BadCueSheet only when the text is no cue sheet; MdxStream's window is [64, stored eof) of the file; the view constructors establish sector size and length")
SPECS["C17"]["level_text"] += (". Added: per-iteration step clauses on the track parser (an entry that does not begin with INDEX / TITLE - e.g. a REM line that mentions one - changes neither "
    "the indices nor the title); the cue-or-sampler decision of attempt_parse_cue_sheet")
SPECS["C20"]["level_text"] += (". Added: layout obligations for the live ProgramHeaderConstruct (every field of the 72-byte header), the static part of KeygroupConstruct (34 bytes) and "
    "VelocityZoneConstruct (24 bytes) against the field tables of the independent program writer (offset, width, signedness of every printed parameter)")
from contracts.transcoder import PIPE_SHAPES as _PIPE
_PIPE_KEYS = ["lemma:pipeline_block[" + "x".join(str(c) for c in sh) + f",w={w}]" for (sh, w) in _PIPE]
SPECS["C12"]["contracts"] += _PIPE_KEYS
SPECS["C05"]["contracts"] += ["lemma:pipeline_block[1x1,w=2]"]
SPECS["C12"]["level_text"] += (". Added: the WHOLE decode -> swap -> interleave pipeline for one block as a lemma over the real functions (make_transcoder, "
    "PipelineTranscoder.__next__, decode_frame, swap_endianess(_multi), pad_channels, encode_frame) for 9 stream shapes x item widths (1x1, 2, 1x2, 2x1, 1, 3, 1x1x1 at "
    "width 2; 1x1 at widths 1 and 4), any block size, any byte order per stream, either host order: the block has max-frames x channels x width bytes and, for every frame "
    "below the shortest stream, byte j of output channel c is byte j (LITTLE source) or w-1-j (BIG source) of the source channel it comes from; StopIteration only when a "
    "stream has no whole frame left. numpy is an assumed item-level model (an item = its w memory bytes; frombuffer, reshape, T, pad, astype, vstack, reshape(order='F'), "
    "tobytes, byteswap)")
SPECS["C12"]["not_covered"] = [x for x in SPECS["C12"].get("not_covered", []) if "numpy" not in x and "pipeline" not in x.lower()] + \
    ["numpy itself (assumed item-level contracts)", "stream shapes beyond the nine proved ones (bounded monitor)", "concatenation of pipeline blocks over a whole stream (bounded monitor)"]
SPECS["C05"]["level_text"] = SPECS["C05"]["level_text"].replace("'Every frame of both is preserved' for equal lengths is C12 (PipelineTranscoder) - bounded there. ",
    "'Every frame of both is preserved': lemma:pipeline_block[1x1] (C12) - the stereo block holds frame f of the left stream in channel 0 and of the right stream in channel 1 for every f below the shorter one. ")
for _pid in ("C06", "C05", "C10"):
    SPECS[_pid]["bounded"].append(("contracts.e2e_names", "e2e:dirs"))
SPECS["C05"]["contracts"] += ["smpl_extract.generalized.sample:combine_stereo"]
SPECS["C05"]["level_text"] += (". Added: the real combine_stereo (dataclass field copy modelled: dataclasses.fields / copy.copy) returns a NEW sample whose stream 0 is the left sample's "
                               "and stream 1 the right one's, with two channels, under the given name, leaving both inputs as they were - whatever their rates and lengths")
SPECS["C05"]["not_covered"] = ["directories of more than 3 samples as a contract"]
for _pid in ("C02", "C20"):
    SPECS[_pid]["contracts"].append("smpl_extract.roland.s7xx.sample_entry:SampleEntryAdapter._decode_element")
SPECS["C02"]["level_text"] += (". Added: SampleEntryAdapter._decode_element reads the chain of the directory record's first cluster after skipping exactly the parameter record's "
                               "leading-cluster count, and carries mode, frequency, loop mode and the five loop points on as stored")
_SAFEL = [f"smpl_extract.util.constructs:SafeListConstruct._parse[count={n}]" for n in (1, 2, 3)]
SPECS["C14"]["contracts"] += _SAFEL
SPECS["C13"]["contracts"] += _SAFEL
SPECS["C14"]["level_text"] += (". Added (Roland half): SafeListConstruct._parse - the list every Roland directory level is read with - keeps exactly the elements whose parse "
                               "does not fail, each in its place, whatever the other elements are (proved for lists of 1, 2, 3 elements over an abstract element parser that fails on "
                               "an arbitrary subset with any of the four handled exception classes)")
_EXPORT = [f"smpl_extract.structural:ExportManager.export_samples[n={n}]" for n in (1, 2)]
SPECS["C06"]["contracts"] += _EXPORT
SPECS["C06"]["level_text"] += (". Added: ExportManager.export_samples writes every sample of a level to <destination> joined with its export path + '.wav' - the export names are used as they "
                               "are, nothing re-suffixed or merged after the names were made unique (n = 1, 2 samples; file-system calls abstract)")
_C16X = ["smpl_extract.structural:Traversable.children[realised]", "smpl_extract.structural:Traversable.children[first-use]", "smpl_extract.structural:Traversable.set_routines"]
SPECS["C16"]["contracts"] += _C16X
SPECS["C16"]["level_text"] = ("proved: a realised directory level is returned as it is (same list object, nothing written, the realiser not called again) and set_routines replaces only the "
                              "routine table - so what `ls` / export see at a level cannot depend on earlier requests; " + SPECS["C16"]["level_text"][len("proved: "):])
SPECS["C06"]["contracts"].append("smpl_extract.base:Element.export_path[depth=3]")
SPECS["C13"]["contracts"].append("smpl_extract.base:Element.export_path[depth=3]")
SPECS["C06"]["level_text"] += "; Element.export_path yields the EXPORT names of the ancestors, outermost first, then the element's own (three-level chain)"
SPECS["C13"]["post_scan"] = "while_loop_census"
# while loops proved terminating only for fixed shapes elsewhere (C10 parse_path pieces<=3, C05/C06 naming loops n<=3/4): listed, not counted
SPECS["C13"]["contracts"] += [k for k in (_UNIQ[:4] + ["smpl_extract.structural:Image.combine_stereo_routine[n=2]", "smpl_extract.structural:Traversable.parse_path[pieces=2]"])]
SPECS["C13"]["level_text"] += (". Added: a census of every `while` loop of the package (15): each lies in a function under a termination obligation of this check - a ranking "
                               "function for any input (11 loops), or complete unrolling for fixed shapes (the two naming loops, the path tokeniser, the parent-chain walk); a loop "
                               "appearing in a function without such an obligation is reported as undecided")
for _pid in ("C05", "C06", "C10"):
    SPECS[_pid]["contracts"].append("lemma:counted_names_differ_for_different_counts")
SPECS["C14"]["bounded"].append(("contracts.akai_file_entry", "assumed:akai_entry_parse_effects"))
SPECS["C15"]["bounded"].append(("contracts.akai_file_entry", "assumed:akai_entry_parse_effects"))
SPECS["C14"]["level_text"] += ". The ASSUMED effect contracts of construct's entry parser are exercised on the real parser (cursor effect, exception classes) by a bounded monitor"
for _pid in ("C08", "C11"):
    SPECS[_pid]["bounded"].append(("contracts.assumed_checks", "assumed:io_read_only_file"))
SPECS["C12"]["bounded"].append(("contracts.assumed_checks", "assumed:numpy_item_model"))
SPECS["C10"]["bounded"].append(("contracts.assumed_checks", "assumed:re_split_tokeniser"))

for _pid in ("C08", "C09"):
    SPECS[_pid]["bounded"].append(("contracts.constructors", "smpl_extract.alcohol.mdf:MdfStream.__init__"))
SPECS["C15"]["contracts"].append("lemma:pipeline_block[1x1,w=2,cut]")
SPECS["C15"]["level_text"] += ("; the stereo pipeline over truncated streams (lemma:pipeline_block[1x1,w=2,cut]): a failing read ends the data, and every block that IS returned is a complete "
                               "block with each channel in its place - never the channels read so far")
SPECS["C20"]["contracts"] += ["smpl_extract.akai.program:_has_next_keygroup", "smpl_extract.akai.program:_has_valid_first_keygroup", "smpl_extract.akai.program:ProgramAdapter._decode_element"]
SPECS["C20"]["level_text"] += ("; AKAI programs: the keygroup chain is followed from keygroup i to its stored next address exactly when i is not the last and an address is stored; "
                               "ProgramAdapter._decode_element carries all 47 header parameters and the decoded keygroup list on unchanged")
SPECS["C20"]["not_covered"] = ["PaddedGeneral / SlicingGeneral / KeygroupAdapter (zone filtering and the per-zone arrays) as contracts", "the 300-line cap (truncated listings are skipped)"]
SPECS["C20"]["contracts"] += [f"smpl_extract.akai.keygroup:KeygroupAdapter._decode[zones={z}]" for z in (0, 1, 2, 4)]
SPECS["C20"]["level_text"] += ("; KeygroupAdapter._decode (0, 1, 2, 4 listed zones): every keygroup parameter as stored, the zones in stored order with their sample name and velocity range, "
                               "zone i paired with entry i of the three per-zone arrays, ConstructError exactly when an array length disagrees with the zone count")
SPECS["C20"]["not_covered"] = ["PaddedGeneral / SlicingGeneral (which slots count as non-empty, how the per-zone arrays are sliced) as contracts", "the 300-line cap (truncated listings are skipped)"]
for _pid in ("C07", "C02"):
    SPECS[_pid]["contracts"].append("smpl_extract.roland.s7xx.fat:FatAreaAdapter._decode#exact")
SPECS["C07"]["level_text"] += (". Added: the Roland FAT decode is proved EXACT for the real table size (65536 sixteen-bit words): a decode that returns normally has visited every cluster "
    "of the scan range and installed, for every cluster it visited, exactly the table's own word - an end-of-chain word as an end link, a plain word w as the link (next = w, "
    "not end) - for any order of clusters, shared tails and heads that are not the lowest cluster (nested loop invariants: the walk is a functional path along the table; "
    "add_to_sector_links installs a functional walk correctly). The AKAI SAT decode is proved exact on well-formed file chains for ANY table shorter than "
    "0x4000 entries: for every set of sectors closed under 'follow the table' (in range, word neither free nor a directory flag nor a self-link, successor a member unless the "
    "word is the end marker) every member ends up with exactly its own word, whatever else the table holds (shared tails, heads that are not the lowest sector, directory runs, "
    "cycles and garbage elsewhere). get_path over such an exactly decoded table, started at a member, returns the sequence obtained by following the table words up to the "
    "end marker (the induction along the chain is done by the loop invariant 'the current sector is a member') - so the statement's first half is discharged end to end: "
    "table words -> links -> sector list -> bytes (FileStream._read)")
SPECS["C02"]["level_text"] += ". Added: exactness of the Roland FAT decode (see C07)"

_EXACT = ["smpl_extract.akai.sat:SegmentAllocationTableAdapter._decode#exact", "smpl_extract.util.fat:FileAllocationTable.get_path#along-the-table[akai]",
          "smpl_extract.util.fat:FileAllocationTable.get_path#along-the-table[roland]"]
SPECS["C07"]["contracts"] += _EXACT
SPECS["C01"]["contracts"] += _EXACT[:2]
SPECS["C02"]["contracts"] += [_EXACT[2]]
SPECS["C01"]["level_text"] += ". Added: exactness of the AKAI SAT decode on well-formed chains and get_path along an exactly decoded table (see C07)"
SPECS["C07"]["not_covered"] = ["AKAI directory runs (reserved-flag sectors) as an exactness contract (bounded exhaustive decode oracle)", "the construct glue that hands the words to the decoders"]
SPECS["C07"]["contracts"].append("smpl_extract.akai.sat:SegmentAllocationTableAdapter._decode#exact-directory-runs")
SPECS["C01"]["contracts"].append("smpl_extract.akai.sat:SegmentAllocationTableAdapter._decode#exact-directory-runs")
SPECS["C07"]["level_text"] += ("; the AKAI directory area: every sector carrying a reserved flag ends up linked to the next sector while that one carries a flag too and ends the run otherwise "
                               "(second proof over the same decoder, own invariants: the walk never visits a sector twice, a directory run only moves upwards)")
SPECS["C07"]["not_covered"] = ["the construct glue that hands the table words to the decoders"]
_ISO = [f"lemma:isolation[{a} | {b}]" for (a, b) in (("FileStream", "FileStream"), ("FileStream", "StreamOffset"), ("StreamOffset", "StreamOffset"),
                                                    ("StreamOffset", "FileStream"), ("StreamWrapper", "SectorStream"), ("MdfStream", "StreamOffset"))]
SPECS["C11"]["contracts"] += _ISO
SPECS["C11"]["level_text"] += (". Added: the isolation step is machine-checked (lemma:isolation for six pairs of view classes over ONE shared handle): after any seek and read of the other "
                               "view, a view's next read returns exactly its own logical bytes from its own position - every interleaving is a sequence of such steps")
SPECS["C09"]["contracts"] += ["smpl_extract.alcohol.mdf:is_mdf_image", "smpl_extract.alcohol.mdx:is_mdx_image", "smpl_extract.roland.s7xx.image:is_roland_s7xx_image"]
SPECS["C09"]["level_text"] += "; the three detection predicates answer whether the header at position 0 parses, let no parser exception out, and put the cursor back where it was"
_REAL = [f"smpl_extract.akai.volume:Volume._realize_files[n={n}]" for n in (1, 2, 3)]
SPECS["C14"]["contracts"] += _REAL
SPECS["C15"]["contracts"] += _REAL
SPECS["C14"]["level_text"] += ("; Volume._realize_files (1, 2, 3 entries): a file whose lazy parser fails with InvalidFileEntry / ConstructError is left out, every other file is realised in table order "
                               "and the table itself is left as it was")

# C18: the string level (the adapter every name field goes through), per stored length
SPECS["C18"]["contracts"] += [f"smpl_extract.akai.akai_string:AkaiString._decode[len={k}]" for k in (0, 1, 2, 3)]
SPECS["C18"]["level_text"] += "; AkaiString._decode applies the table position by position (same length, same order, nothing trimmed), proved for stored lengths 0..3"

# C04: whole frames from the L/R (pipeline) transcoder - the block lemma gives len(block) = frames-of-the-longest-stream x frame size
SPECS["C04"]["contracts"] += [k for k in SPECS["C12"]["contracts"] if k.startswith("lemma:pipeline_block[")]
SPECS["C04"]["level_text"] += ". Added: every pipeline (multi-stream) block is a whole number of output frames whatever the streams' lengths (pipeline block lemma)"

# C05: "names" are the sibling (directory) names - the generalized sample every export starts from carries exactly that name
SPECS["C05"]["contracts"] += ["smpl_extract.akai.sample:AkaiSample.to_generalized[loops=0]", "smpl_extract.roland.s7xx.sample_file:SampleFile.to_generalized"]
SPECS["C05"]["level_text"] += ". Added: the stored name the pairing guard compares is the directory name (to_generalized, AKAI and Roland)"

# C06 / C10: a level of any size - one entry included - goes through the naming routines
for _p in ("C06", "C10"):
    SPECS[_p]["contracts"] += ["smpl_extract.structural:Traversable.children[first-use,one-routine]"]
SPECS["C06"]["level_text"] += ". Added: Traversable.children hands a freshly realised level of ANY size (a lone entry included) to the routine table"

# C08: the sample-reversed view for widths OTHER than the proved 1, 2, 4 (24-bit samples, 24-bit stereo frames): bounded stand-in on the real class
SPECS["C08"]["bounded"] += [("contracts.util_stream", "smpl_extract.util.stream:StreamReversed.read"), ("contracts.util_stream", "smpl_extract.util.stream:StreamReversed.seek")]
SPECS["C08"]["level_text"] += ". BOUNDED for the reversed view with sample widths 3, 5, 6 (the general-width contract is assumed, not proved): every position x size x cursor of views of 1..3 samples"

# C11 / C16: the module-level directory adapter is left as it was by a parse (it serves every partition); image-level interleavings
for _p in ("C11", "C16"):
    SPECS[_p]["contracts"] += ["smpl_extract.akai.file_entry:FileEntriesAdapter._parse#shared-adapter"]
SPECS["C11"]["bounded"].append(("contracts.e2e_more", "bounded:image_stream_interleavings"))
SPECS["C11"]["level_text"] += (". Added: the shared (module-level) AKAI directory adapter keeps its table expression across a parse (frame of FileEntriesAdapter._parse); BOUNDED at image level: "
                               "sample streams of a two-partition AKAI image read in interleaved blocks with lazy listings in between")

# C13: the data generators end - a read that fails ends the data (never a replacement block from an unmoved cursor); every block moves the cursor on
SPECS["C13"]["contracts"] += ["smpl_extract.transcoder:PassthroughTranscoder.__next__", "lemma:passthrough_concatenation[frame=2]", "lemma:pipeline_block[1x1,w=2,cut]"]
SPECS["C13"]["level_text"] += ("; the export data generators end: every pass-through block advances the view's cursor by a positive number of bytes and a failed or empty read ends the data "
                               "(PassthroughTranscoder.__next__, drain lemma with measure; pipeline block over a truncated image)")

# C16: merging an L/R pair builds a NEW sample and leaves its inputs (their stream lists) as they were - so a second export merges the same two halves again
SPECS["C16"]["contracts"] += ["smpl_extract.generalized.sample:combine_stereo"]
SPECS["C16"]["level_text"] += "; combine_stereo leaves the two input samples unchanged (frame), so every export merges the same halves"

# C17 / C09 / C03: the text reader under contract (assumed: io text-file behaviour)
for _p in ("C17", "C09", "C03"):
    SPECS[_p]["contracts"] += ["smpl_extract.actions:parse_text_file"]
SPECS["C17"]["level_text"] += ("; parse_text_file hands on every line of the file and turns a decoding failure ANYWHERE in the file into BadTextFile - 'not text' - never into an escaping "
                               "UnicodeDecodeError (io text-file contract assumed)")

# C04: one truncating open of the given path, one build from the given sample, a failed build passed on
SPECS["C04"]["contracts"] += ["smpl_extract.generalized.wav:export_wav"]
SPECS["C04"]["level_text"] += ("; export_wav opens exactly the given path in mode 'wb' (truncating), builds into it exactly once from the given sample and passes a builder error on "
                               "without a second attempt into the same stream (open / build_stream assumed)")

# C14 / C15: the per-file content parser turns every failure class of damaged / cut-off content into ConstructError
for _p in ("C14", "C15"):
    SPECS[_p]["contracts"] += ["smpl_extract.akai.file:FileAdapter._parse"]
SPECS["C15"]["level_text"] += "; FileAdapter._parse lets nothing but ConstructError out (SectorReadError of a cut-off image, struct.error, InvalidCharacter, RequestedInvalidSector included)"

# C02 / C14: the four sample slots of a Roland partial are resolved independently
for _p in ("C02", "C14"):
    SPECS[_p]["contracts"] += ["smpl_extract.roland.s7xx.partial_entry:PartialEntryAdapter._parse"]
SPECS["C14"]["level_text"] += "; PartialEntryAdapter._parse: a slot whose reference cannot be resolved is left out and every other slot - before or behind it - is kept in slot order (all 3^4 outcomes)"
SPECS["C02"]["level_text"] += "; the partial's four sample slots are resolved independently (slots need not be filled front to back)"

# C02: the sample files of one patch - every referenced sample once, none that another patch of the performance already gave
SPECS["C02"]["contracts"] += [f"smpl_extract.roland.s7xx.sample_file:SampleFileListAdapter._decode[{t}]" for t in ("in-a-performance", "no-performance-context")]
SPECS["C02"]["level_text"] += ("; SampleFileListAdapter._decode: a patch's sample files are exactly the samples its partials refer to, each once, in order of first reference, minus those "
                               "the performance-wide set already holds, which it extends (ANY indices, equal or not; symbolic-key set)")
SPECS["C02"]["not_covered"] = [x for x in SPECS["C02"].get("not_covered", []) if "SampleFileListAdapter" not in x] + ["get_file / _get_*_params glue beyond the contracts listed", "PerformanceEntry.files (the loop over patches) as a contract"]

# C19: the saturation helpers of the 16-bit presets, translated mechanically from the .pyx text
SPECS["C19"]["contracts"] += ["lemma:fir_preset_saturates", "lemma:iir_preset_saturates"]
SPECS["C19"]["level_text"] += ("; the scalar cdef helpers every output sample of the ChickenSys presets goes through (_c_bound_and_fix; _c_bound + _c_fix_int), translated mechanically "
                               "from the .pyx text on every run, are proved to SATURATE for every real input: the value reaching the final <short> conversion is inside the int16 range "
                               "(no wrap-around), out-of-range inputs land on the limit of their side, in-range inputs are rounded / cut toward zero")
SPECS["C19"]["not_covered"] = ["iir.pyx kernels (_c_process, _c_chickensys_process: circular buffers, memory views)", "_c_chicken_sys_convolve_valid (typed loops over memory views)", "filter presets' coefficients"]
SPECS["C19"].setdefault("assumptions", []).append("C doubles read as exact reals in the saturation lemmas")

# C20: the per-zone array slicer hands the evaluated bounds on unchanged (zero included)
SPECS["C20"]["contracts"] += ["smpl_extract.util.constructs:SlicingGeneral._realize"]
SPECS["C20"]["level_text"] += "; SlicingGeneral._realize passes the evaluated count / start / stop / step on as they are - a stop of 0 (keygroup without active zones) stays 0"
SPECS["C20"]["not_covered"] = ["PaddedGeneral (which slots count as non-empty) as a contract; construct.Slicing itself", "the 300-line cap (truncated listings are skipped)"]

# C12 / C05: the whole L/R export - concatenation of the pipeline blocks for two mono 16-bit streams of equal length, proved modularly
for _p in ("C12", "C05"):
    SPECS[_p]["contracts"] += ["lemma:pipeline_block_contract[1x1,w=2]", "lemma:pipeline_concatenation[1x1,w=2,equal-lengths]"]
SPECS["C12"]["level_text"] += ("; the CONCATENATION of the pipeline blocks for an L/R pair (two mono 16-bit streams of equal length, either byte order each, any block size): draining the "
                               "transcoder gives exactly L/2 stereo frames, frame f = (sample f of the first stream, sample f of the second) - loop invariant + measure over the block "
                               "contract, which a lemma with the SAME clause texts discharges for the real functions")
SPECS["C05"]["level_text"] += "; 'for pairs of equal length every frame of both is preserved' is now a discharged obligation (pipeline concatenation lemma), no longer only the bounded C12 stand-in"
SPECS["C05"]["level_text"] = SPECS["C05"]["level_text"].replace("'Every frame of both is preserved' for equal lengths is C12 (PipelineTranscoder) - bounded there. ", "")
SPECS["C12"]["not_covered"] = ["numpy itself (assumed item-level contracts)", "stream shapes beyond the nine proved ones (bounded monitor)",
                               "concatenation of pipeline blocks for shapes other than the L/R pair (bounded monitor)"]
SPECS["C05"]["not_covered"] = ["directories of more than 3 samples as a contract", "pairs of UNEQUAL length beyond one block (padding of the shorter half: block lemma + bounded monitor)"]
SPECS["C01"]["not_covered"] = ["VolumesAdapter / FileEntriesAdapter / PartitionAdapter plumbing (construct context passing)"]

# C10: what ls of a directory prints is the name parse_path compares with
SPECS["C10"]["contracts"] += [f"smpl_extract.structural:Traversable.get_info[children={n}]" for n in (0, 1, 2, 3)]
SPECS["C10"]["level_text"] += ("; Traversable.get_info prints, per child and in order, the child's safe name whenever one was assigned (the empty string included) and its type "
                               "(0..3 children) - the same `safe_name` parse_path compares path tokens with")
SPECS["C10"]["not_covered"] = ["trees and paths beyond the proved shapes (bounded monitor)", "re.split semantics (assumed contract)", "the lazy realisation of `children` (construct glue)",
                               "rendering of a resolved LEAF item (itemize / InfoTree)", "InfoTable.print_table column layout"]

# C02: the files of one performance (programs in patch order, then every patch's samples in patch order)
SPECS["C02"]["contracts"] += [f"smpl_extract.roland.s7xx.performance_entry:PerformanceEntry.files[patches={n}]" for n in (1, 2)]
SPECS["C02"]["level_text"] += "; PerformanceEntry.files (1, 2 patches): one program per patch in patch order, then every patch's sample files in patch order, remembered"
SPECS["C02"]["not_covered"] = ["record addressing lambdas of the *EntryConstruct declarations beyond the address obligations", "get_file / _get_*_params glue beyond the contracts listed",
                               "that ONE `_seen_sample_indices` set serves all patches of a performance (end-to-end monitor: a sample reached through two patches)"]
SPECS["C06"]["not_covered"] = ["uniqueness for directories of more than 4 entries as a contract (needs a quantified invariant over a symbolic dictionary)", "os.path.join / makedirs (assumed)"]

# C01 / C02 / C03 / C05 / C06: one directory level handed to the export manager; the manager's own batch emptied
_LVL = [f"smpl_extract.structural:Traversable.export_samples[{k}]" for k in ("samples=0", "samples=1", "samples=2", "directories=1", "directories=2")]
for _p in ("C01", "C02", "C03", "C05"):
    SPECS[_p]["contracts"] += _LVL
for _p in ("C01", "C05", "C06"):
    SPECS[_p]["contracts"] += ["smpl_extract.structural:ExportManager.export_samples[n=2,one-routine]"]
for _p in ("C01", "C02"):
    SPECS[_p]["level_text"] += ("; Traversable.export_samples: a level of sample children is announced, EVERY child's generalized sample is added in directory order and the level is finished "
                                "once with exactly that batch (0, 1, 2 children; a stale entry from an earlier level is discarded); a level of sub-directories exports each of them; the manager's "
                                "own batch is emptied even when a routine returned a new list")

# the two actions (top of every chain)
SPECS["C10"]["contracts"] += ["smpl_extract.actions:ls_action"]
SPECS["C16"]["contracts"] += ["smpl_extract.actions:ls_action", "smpl_extract.actions:export_samples_to_wav"]
SPECS["C06"]["contracts"] += ["smpl_extract.actions:export_samples_to_wav"]
SPECS["C05"]["contracts"] += ["smpl_extract.actions:export_samples_to_wav"]
SPECS["C10"]["level_text"] += "; ls_action answers a path that does not resolve (prints the message) and lets no ErrorInvalidPath out"
SPECS["C06"]["level_text"] += "; export_samples_to_wav roots the export manager at exactly the directory given and installs the naming table (safe names, then export names)"

# C13 / C14 / C15: a partition that declares no sectors is rejected (the scan always moves on); bad names surface as ConstructError
for _p in ("C13", "C14", "C15"):
    SPECS[_p]["contracts"] += ["smpl_extract.akai.partition:PartitionAdapter._parse"]
SPECS["C13"]["level_text"] += "; PartitionAdapter._parse accepts only a partition whose header declares at least one sector (the part of the partition-scan assumption that is repository code)"

# C01: the volumes of one partition
SPECS["C01"]["contracts"] += [f"smpl_extract.akai.volume:VolumesAdapter._decode_element[entries={n}]" for n in (1, 2, 3)]
SPECS["C01"]["level_text"] += ("; VolumesAdapter._decode_element (1..3 table entries): one volume per ACTIVE entry in table order, under its name below the partition's path, its file table read from "
                               "the chain at its own start sector of this partition's table")
SPECS["C01"]["not_covered"] = ["FileEntriesAdapter / PartitionAdapter context passing (construct plumbing: `this._.sat`, Lazy, Computed file streams)"]

# C16: write-set census (whole-package frame argument, syntactic): every site that can make state outlive a call carries a listed reason
SPECS["C16"]["post_scan"] = "write_set_census"
SPECS["C16"]["level_text"] += ("; WRITE-SET CENSUS on every run: all 40 syntactic sites of the package that can make state outlive a call (attribute stores outside constructors, "
                               "mutations of parameters / aliases / globals, class-level mutables, mutable defaults, setattr) are listed in checks/write_set.json with the reason they cannot make a "
                               "later ls / export depend on an earlier one (memo of a function of the image bytes; per-action routine table; export-manager scratch; view cursors; parse-context "
                               "plumbing; call-local lists); a site in the tree without a listed reason is reported as UNDECIDED")
SPECS["C16"]["not_covered"] = ["that each listed memo really is a function of the image bytes alone is argued per site (checks/write_set.json), machine-checked only where the function is under contract",
                               "the .pyx filter classes (C19 covers their reset)"]

# C10: the printed name is a typable path component (no separator, no blank at either end) - make_safe_name proved, no longer assumed
SPECS["C10"]["contracts"] += ["smpl_extract.structural:Image.make_safe_name"]
SPECS["C10"]["level_text"] += ("; make_safe_name (every ASCII name): the printed name consists of word characters, blanks and - = : . @ # & + only - it contains no path separator - and has no blank at "
                               "either end, which is what the parse_path contracts require of printed names (regex sub of `[^class]+|...`: the first alternative wins at every position)")

# ---- larger shapes of the per-shape contracts: thorough tier only (same obligations, more paths)
def _thor(pid, keys):
    SPECS[pid]["contracts_thorough"] = SPECS[pid].get("contracts_thorough", []) + keys


for _p in ("C06", "C10"):
    _thor(_p, ["smpl_extract.structural:Image.make_export_names_routine[n=5]"] + (["smpl_extract.structural:Image.make_safe_names_routine[n=5]"] if _p == "C10" else []))
_thor("C18", ["smpl_extract.akai.akai_string:AkaiString._decode[len=4]"])
for _p in ("C14", "C15"):
    _thor(_p, ["smpl_extract.akai.volume:Volume._realize_files[n=4]"])
_thor("C14", ["smpl_extract.util.constructs:SafeListConstruct._parse[count=4]"])
_thor("C01", ["smpl_extract.akai.volume:VolumesAdapter._decode_element[entries=4]"])
_thor("C10", [f"smpl_extract.structural:Traversable.get_info[children={n}]" for n in (4, 5)])

# C13 (F16): a reversed view always has a known, non-negative length
SPECS["C13"]["contracts"] += ["smpl_extract.util.stream:StreamReversed.__init__"]
SPECS["C13"]["level_text"] += "; StreamReversed.__init__ gives a reversed view a non-negative length whatever size it is handed (F16: a negative size made every read succeed forever)"

# C10: the AKAI path-token normaliser
SPECS["C10"]["contracts"] += ["smpl_extract.akai.image:AkaiImageParser._sanitize_string"]
SPECS["C10"]["level_text"] += "; AkaiImageParser._sanitize_string drops exactly one trailing colon of the upper-cased, trimmed token and raises nothing on the empty token"

# round 5: the MDX payload window is a view like the others (C08); the batch writer contract also serves C01 (names with inner periods)
SPECS["C08"]["contracts"] += ["smpl_extract.alcohol.mdx:MdxStream"]
SPECS["C01"]["contracts"] += [f"smpl_extract.structural:ExportManager.export_samples[n={n}]" for n in (1, 2)]

# C20 / C01: the sample adapter over the REAL loop-table size (8 slots, all 256 active / inactive patterns, S1000 and S3000 alike)
for _p in ("C20", "C01"):
    SPECS[_p]["contracts"] += ["smpl_extract.akai.sample:SampleAdapter._decode_element[loops=8]"]
SPECS["C20"]["level_text"] += "; SampleAdapter._decode_element over the full 8-slot loop table: every slot with a positive duration is listed whatever the sample type"

# C19: the IIR class's state sizing / reset (plain-Python part of iir.pyx)
SPECS["C19"]["contracts"] += ["lemma:iir_fresh_and_reset_state"]
SPECS["C19"]["level_text"] += "; IirFilter: a new filter carries len(B)-1 past inputs and len(A)-1 past outputs, all zero, and get_remaining() resets it to exactly that state"

# C06 / C10 / C05: the Roland image hands the routine table to every volume, appended pseudo-volume included; Roland names monitor
for _p in ("C06", "C10", "C05"):
    SPECS[_p]["contracts"] += ["smpl_extract.roland.s7xx.image:RolandS7xxImage.set_routines"]
SPECS["C06"]["bounded"].append(("contracts.e2e_names", "e2e:roland_names"))
SPECS["C06"]["level_text"] += ("; RolandS7xxImage.set_routines installs the naming table on every volume, the appended orphan pseudo-volume included; BOUNDED: Roland images with duplicate / unsafe / "
                               "path-like performance names in volumes and among the orphans")

# C18: the encoder at string level (byte strings of 0..3 characters)
SPECS["C18"]["contracts"] += [f"smpl_extract.akai.akai_string:char_ascii_to_akai[bytes,len={k}]" for k in (0, 1, 2, 3)]
SPECS["C18"]["level_text"] += "; char_ascii_to_akai converts a byte string character by character through the table and rejects the whole string when ONE byte is outside the 41 (lengths 0..3)"

# C15 on the other two image kinds
SPECS["C15"]["bounded"].append(("contracts.e2e_more", "e2e:C15-roland-cdda"))
SPECS["C15"]["level_text"] += ". Added: BOUNDED truncation sweeps of a Roland image (cluster boundaries, header / table areas, random offsets) and of bin/cue images"
SPECS["C15"]["not_covered"] = ["volume/partition table truncation handlers beyond PartitionAdapter._parse / FileAdapter._parse / _load_partitions as contracts"]

SPECS["C11"]["level_text"] += "; the image-level interleaving monitor also covers a Roland image (incl. a time-reversed stream) and a bin/cue image"

# C04 quantifies over AKAI, Roland AND CDDA images: the Roland and the bin/cue end-to-end monitors judge every file they see with the same strict RIFF
# parser - their well-formedness clauses now count for C04 too (only those clauses: clause_prefixes)
SPECS["C04"]["bounded"] += [("contracts.e2e", "e2e:C02"), ("contracts.e2e_names", "e2e:cdda_names")]
SPECS["C04"]["clause_prefixes"] = ["well-formed", "C04.", "nothing-exported", "no-undeclared-exception", "oracle."]
SPECS["C04"]["level_text"] += ". The Roland (e2e:C02) and bin/cue (e2e:cdda_names) monitors' well-formedness clauses are part of this check"

# C05 quantifies over AKAI volumes AND Roland performances
SPECS["C05"]["bounded"].append(("contracts.e2e_names", "e2e:roland_pairs"))
SPECS["C05"]["level_text"] += ". Added: BOUNDED L/R pairing inside Roland performances (either directory order, two pairs, mixed names)"

# C10 quantifies over every node of AKAI, Roland AND CDDA trees
SPECS["C10"]["bounded"].append(("contracts.e2e_names", "e2e:trees"))
SPECS["C10"]["level_text"] += ". Added: BOUNDED walks of whole Roland / two-partition AKAI / bin-cue trees through printed names (every node listed, every printed name resolves, siblings distinct)"
