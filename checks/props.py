"""Which contracts and bounded stand-ins decide which property."""

FAT = "smpl_extract.util.fat:"

SPECS = {}
NOT_YET = {}

SPECS["C07"] = {
    "level": "proof",
    "level_text": "proved for tables of any size: chain resolution returns exactly the linked sequence up to the first end marker, errors only for malformed tables, termination by a decreasing measure; link installation (with frame over the whole table); termination and absence of unhandled exceptions of BOTH raw-table decoders on arbitrary word tables (AKAI: lexicographic measure (growth of the visited flags, distance to the table end); Roland: walk length against the table length); the sector-chained stream yields the concatenation of the listed sectors. Decoder CORRECTNESS (decode then resolve == raw chain for every well-formed chain) is a bounded stand-in: exhaustive over all tables of <= 5/6 AKAI sectors and Roland FATs of 2..4 scannable clusters, on the real code - labelled bounded, not proved",
    "level_note": "trusted: the pyvc VC generator and its built-in models, z3/cvc5; pigeonhole step (a chain of distinct in-table sectors is no longer than the table) is a paper lemma",
    "contracts": [FAT + "FileAllocationTable.get_path", FAT + "add_to_sector_links",
                  "smpl_extract.akai.sat:SegmentAllocationTableAdapter._decode",
                  "smpl_extract.roland.s7xx.fat:FatAreaAdapter._decode",
                  FAT + "FileStream._read", FAT + "FileStream.read"],
    "bounded": [("contracts.util_fat", FAT + "FileAllocationTable.get_path"),
                ("contracts.util_fat", FAT + "add_to_sector_links"),
                ("contracts.decoders", "bounded:akai_sat_decode"),
                ("contracts.decoders", "bounded:roland_fat_decode")],
    "trusted_base": ["pyvc VC generator and its built-in models", "z3 5.1.0 / cvc5 1.0.3"],
    "not_covered": ["unbounded inductive proof of decoder correctness (DESIGN: stretch goal, not attempted)"],
    "assumptions": ["Python ints are mathematical integers; // and % are floor division for positive divisors",
                    "Roland bounded stand-in patches the module constant FAT_NUM_ENTRIES to 13..15 in the driver process"],
}


def _view_keys(methods, classes=None, widths=(1, 2, 4)):
    from contracts import util_stream as us
    out = []
    for n in (classes or us.ALL):
        cls = us.CLASSES[n]["cls"]
        if n == "StreamReversed":
            for w in widths:
                out += [f"{cls}.{m}[w={w}]" for m in methods]
        else:
            out += [f"{cls}.{m}" for m in methods]
    return out


_VIEW_METHODS = ["read", "read#None", "readall", "seek", "seek#default-whence", "tell"]
_SECTOR_READ = ["smpl_extract.util.sector:SectorStream._read", "smpl_extract.util.fat:FileStream._read",
                "smpl_extract.alcohol.mdf:MdfStream._read"]

SPECS["C08"] = {
    "level": "proof",
    "level_text": "every view class (offset window, plain wrapper, sector stream, sector-chained file, MODE1/2352 user-data view, sample-reversed view) is proved to refine the read-only-file contract w.r.t. its logical content: read returns exactly the logical bytes clipped at the end and advances by the bytes returned, seek clamps to [0,len], tell returns the position, readall reads to the end (with termination) - for views of any size, any sector length, any chain, any substream cursor; nesting follows by induction because each proof uses only the same contract of the substream. Histories are covered by the per-call contracts plus the proved invariant 0 <= position <= length",
    "level_note": "trusted: pyvc engine, z3/cvc5; base io objects satisfy the ROF contract (assumed); numpy frombuffer/reshape/flip/flatten/tobytes contracts (assumed) for the reversed view; StreamReversed proved for sample widths 1, 2, 4 (symbolic width is nonlinear: undecided, repo uses 1 and 2)",
    "contracts": _SECTOR_READ + _view_keys(_VIEW_METHODS),
    "bounded": [("contracts.util_stream", k) for k in _view_keys(["read", "seek"])],
    "trusted_base": ["pyvc VC generator and its built-in models", "z3 5.1.0 / cvc5 1.0.3"],
    "not_covered": ["views over an empty window (end_of_file == 0): the property speaks of non-empty views"],
    "assumptions": ["nesting of views: induction on depth on paper (each proof assumes only the ROF contract of its substream)"],
}


SPECS["C18"] = {
    "level": "proof",
    "level_text": "loop-free codecs: lemmas that call the real functions are discharged for EVERY integer input (character tables both ways incl. rejection of every other value, note number <-> (degree, sharp, octave) incl. the AKAI and MIDI offsets); the float tuning codec and the text form of notes are enumerated exhaustively over their whole finite domains on the real code (complete for those domains)",
    "level_note": "trusted: pyvc engine, z3; the tuning lemma reads floats as exact reals - the IEEE-754 behaviour is what the exhaustive 256-value run executes",
    "contracts": ["lemma:akai_to_ascii_table", "lemma:akai_to_ascii_table_generic", "lemma:akai_ascii_roundtrip",
                  "lemma:ascii_akai_roundtrip", "lemma:note_int_roundtrip", "lemma:note_akai_byte_roundtrip",
                  "lemma:note_midi_byte_roundtrip", "lemma:note_fields", "lemma:tuning_real_roundtrip"],
    "bounded": [("contracts.codecs", "finite:codecs")],
    "trusted_base": ["pyvc VC generator and its built-in models", "z3 5.1.0 / cvc5 1.0.3"],
    "assumptions": ["IntEnum members are their integer values; dict lookups with a symbolic key are case-split over the literal keys"],
}


SPECS["C03"] = {
    "level": "proof",
    "level_text": "from_bin_cue is proved, for any number of tracks and any MM:SS:FF values, to build exactly the windows the statement prescribes (offset 2352*F_k, size up to the next first index, last track to the end of the bin), hence contiguous tiling; 16-bit stereo 44100; every window starts rewound. The byte content of each WAV then follows from the proved window view (C08 StreamOffset) and the proved pass-through transcoder (whole-frame truncation)",
    "level_note": "trusted: pyvc engine, z3; ROF contract of the bin file; str.lower as an uninterpreted function; the filter comprehension axioms; composition window -> transcoder -> data chunk is on paper (GreedyRange build writes the yielded blocks in order: assumed)",
    "contracts": ["smpl_extract.cuesheet:CueSheetIndex.get_total_audio_frames",
                  "smpl_extract.cdda.image:CompactDiskAudioImageAdapter.from_bin_cue",
                  "smpl_extract.util.stream:StreamOffset.read", "smpl_extract.util.stream:StreamOffset.seek"],
    "bounded": [("contracts.cdda", "smpl_extract.cdda.image:CompactDiskAudioImageAdapter.from_bin_cue"),
                ("contracts.cdda", "smpl_extract.cuesheet:CueSheetIndex.get_total_audio_frames")],
    "trusted_base": ["pyvc VC generator and its built-in models", "z3 5.1.0 / cvc5 1.0.3"],
    "assumptions": [],
}


def _tr_shapes(name):
    from contracts import transcoder as t
    return [f"smpl_extract.transcoder:{name}[{'x'.join(str(c) for c in sh)}]" for sh in t.SHAPES]


SPECS["C12"] = {
    "level": "proof",
    "level_text": "proved: block sizing (one common frame count >= 1 for any block-size constant), whole-frame truncation, pass-through blocks and their concatenation (= the window's whole frames, any length), channel-count check, pass-through iff same encoding, ONE byte-swap flag PER CHANNEL in channel order and input/output swap steps matching source/host/destination byte orders - for every stream shape up to 3 streams / 3 channels with all other values symbolic. The numpy index mapping of decode_frame / encode_frame and the multi-stream stop condition are covered by a bounded stand-in on real numpy (exhaustive over the stated small scope) - labelled bounded",
    "level_note": "trusted: pyvc engine, z3; numpy (frombuffer/reshape/T/vstack/byteswap/pad/tobytes) is exercised for real in the bounded stand-in, not modelled; shapes limited to <= 3 streams",
    "contracts": ["smpl_extract.transcoder:resize_buffer", "smpl_extract.transcoder:get_num_frames_possible",
                  "smpl_extract.transcoder:PassthroughTranscoder.__next__"] +
                 [f"lemma:passthrough_concatenation[frame={f}]" for f in (1, 2, 4, 6, 8)] +
                 _tr_shapes("get_buffer_sizes") + _tr_shapes("make_transcoder"),
    "bounded": [("contracts.transcoder", "bounded:transcode")],
    "trusted_base": ["pyvc VC generator and its built-in models", "z3 5.1.0 / cvc5 1.0.3"],
    "not_covered": ["decode_frame / encode_frame / pad_channels / PipelineTranscoder.__next__ at the level of numpy index arithmetic: bounded stand-in only"],
    "assumptions": ["default argument target_size of get_num_frames_possible equals the module constant"],
}




SPECS["C11"] = {
    "level": "proof",
    "level_text": "the read/seek/tell contracts of every view class are proved with NO precondition on the cursor of the shared substream and with a frame that lets a view write only its own position/true_size and cursors below it; a view's results are therefore a function of its own fields and the immutable content, so operations on other views cannot change them (3-line isolation lemma on paper). A mechanical scan confirms that no view contract mentions the substream cursor in a precondition. Bounded stand-in: every interleaving of short operation sequences on real views sharing one handle equals the isolated runs",
    "level_note": "trusted: pyvc engine, z3; ROF contract of base io objects; construct's Lazy saves/restores the cursor (assumed); isolation lemma is on paper",
    "contracts": _SECTOR_READ + _view_keys(["read", "seek", "tell"]),
    "bounded": [("contracts.util_stream", "bounded:shared_handle_interleavings")],
    "post_scan": "no_cursor_precondition",
    "trusted_base": ["pyvc VC generator and its built-in models", "z3 5.1.0 / cvc5 1.0.3"],
    "assumptions": ["isolation lemma (paper): results are a function of own fields and immutable content; own fields are written only by own methods (proved frame)"],
}
