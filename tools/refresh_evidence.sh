#!/bin/sh
# re-run every registered quick check on the current tree (evidence files are rewritten)
cd "$(dirname "$0")/.." || exit 3
rc=0
for p in $(python3 -c "import json;print(' '.join(c['property_id'] for c in json.load(open('MANIFEST.json'))['checks']))"); do
  bin/check "$p" --tier quick | grep -E '^(SUMMARY|VIOLATION|KNOWN|CHECKER)' | cut -c1-220 || rc=1
done
exit $rc
