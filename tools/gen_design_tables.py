"""tools/gen_design_tables.py : regenerate the GENERATED blocks of DESIGN.md (II.2 level table from checks/props.py and the
last evidence files; II.7 seeded-change table from seeded/*/meta.json).  Blocks are delimited by
<!-- GENERATED:<name> begin --> / <!-- GENERATED:<name> end -->."""
import glob
import json
import os
import re
import sys

HERE = os.path.dirname(os.path.dirname(os.path.abspath(__file__)))
sys.path.insert(0, HERE)
sys.path.insert(0, os.path.join(HERE, "checks"))
import props  # noqa


def short(k):
    k = k.replace("smpl_extract.", "")
    return k


def level_table():
    rows = ["| id | level | functions under contract (obligations discharged on the last quick run) | bounded stand-ins (never counted as proved) | assumed / not covered |",
            "|----|-------|------------|------------|------------|"]
    for pid in sorted(props.SPECS):
        s = props.SPECS[pid]
        ev = {}
        p = os.path.join(HERE, "evidence", pid + ".json")
        if os.path.exists(p):
            ev = json.load(open(p))
        cov = ev.get("coverage", {})
        cons = s.get("contracts", [])
        # group variants  f[a], f[b] -> f[a,b]
        groups = {}
        for k in cons:
            m = re.match(r"(.*?)\[(.*)\]$", k)
            base, var = (m.group(1), m.group(2)) if m else (k, None)
            groups.setdefault(short(base), []).append(var)
        names = []
        for b, vs in groups.items():
            vs = [v for v in vs if v]
            names.append(b + (f"[{', '.join(vs)}]" if vs else ""))
        lay = s.get("layouts", [])
        ctext = "; ".join(names) if names else "—"
        if lay:
            ctext += "; layout obligations: " + ", ".join(lay)
        ctext += f" ({cov.get('discharged', '?')}/{cov.get('obligations', '?')})"
        btext = "; ".join(f"{b[1]}" for b in s.get("bounded", [])) or "—"
        btext += f" ({cov.get('evaluations', 0)} evaluations)"
        ntext = "; ".join(s.get("not_covered", [])) or "—"
        rows.append(f"| {pid} | {s['level']} | {ctext} | {btext} | {ntext} |")
    return "\n".join(rows)


def seeded_table():
    rows = ["| id | change | needs | caught by |", "|----|--------|-------|-----------|"]
    n = caught = after = 0
    for d in sorted(glob.glob(os.path.join(HERE, "seeded", "C*"))):
        m = json.load(open(os.path.join(d, "meta.json")))
        cb = m.get("confirmed_here", {}).get("caught_by", "")
        n += 1
        if "NOT CAUGHT" not in cb.upper():
            caught += 1
        if "ONLY AFTER STRENGTHENING" in cb or "first run MISSED" in cb:
            after += 1
        clean = lambda t: str(t).replace("|", "/").replace("\n", " ")
        rows.append(f"| {os.path.basename(d)} | {clean(m.get('summary', ''))[:260]} | {clean(m.get('needs', ''))[:220]} | {clean(cb)} |")
    head = f"{n} changes kept; {caught} caught by a registered check, {after} of them only after the check was strengthened.\n\n"
    return head + "\n".join(rows)


def main():
    p = os.path.join(HERE, "DESIGN.md")
    s = open(p).read()
    for name, fn in (("levels", level_table), ("seeded", seeded_table)):
        b, e = f"<!-- GENERATED:{name} begin -->", f"<!-- GENERATED:{name} end -->"
        if b not in s:
            print("marker missing:", name)
            continue
        i, j = s.index(b) + len(b), s.index(e)
        s = s[:i] + "\n" + fn() + "\n" + s[j:]
    open(p, "w").write(s)


if __name__ == "__main__":
    main()
