"""Self-test of the ground-instantiation back end (pyvc/ginst.py): python3-vt tools/ginst_selftest.py

Each case is a VC in the form the engine prints it (hypotheses + negated goal).  VALID cases must come back `unsat`; INVALID cases (the VC is
satisfiable: the claimed consequence does not follow) must NEVER come back `unsat` - they exercise what the soundness argument rests on:
instances only of universals in POSITIVE position, bound ranges kept, quantifiers below non-monotone connectives refused, terms with bound
variables never used as instances.  Exit 0 when every case behaves, 1 otherwise.
"""
import os
import sys

sys.path.insert(0, os.path.dirname(os.path.dirname(os.path.abspath(__file__))))
import z3  # noqa: E402
from pyvc import ginst  # noqa: E402


def vc(hyps, goal):
    s = z3.Solver()
    for h in hyps:
        s.add(h)
    s.add(z3.Not(goal))
    return s.to_smt2()


def cases():
    a = z3.Array("a", z3.IntSort(), z3.IntSort())
    b = z3.Array("b", z3.IntSort(), z3.IntSort())
    d = z3.Array("d", z3.IntSort(), z3.BoolSort())
    n, i, j, k, m = z3.Ints("n i j k m")
    p = z3.Bool("p")
    wf = z3.Function("wf", z3.IntSort(), z3.BoolSort())
    nonneg = z3.ForAll([k], z3.Implies(z3.And(0 <= k, k < n), a[k] >= 0))
    step = z3.ForAll([k], z3.Implies(z3.And(0 <= k, k < n - 1), a[k + 1] == a[k] + 1))
    out = []
    # ---- valid
    out.append(("valid", "instance-in-range", vc([nonneg, 0 <= i, i < n], a[i] >= 0)))
    out.append(("valid", "offset-k+1", vc([step, n > 3], a[2] == a[0] + 2)))
    out.append(("valid", "store-frame", vc([nonneg, 0 <= i, i < n, m >= 0],
                                           z3.ForAll([j], z3.Implies(z3.And(0 <= j, j < n), z3.Store(a, i, m)[j] >= 0)))))
    out.append(("valid", "exists-under-forall", vc(
        [z3.ForAll([j], z3.Implies(z3.And(0 <= j, j < n, d[j]), z3.Exists([k], z3.And(0 <= k, k < m, b[k] == j)))),
         z3.ForAll([k], z3.Implies(z3.And(0 <= k, k < m), wf(b[k]))), 0 <= i, i < n, d[i]], wf(i))))
    out.append(("valid", "closure-one-step", vc(
        [z3.ForAll([j], z3.Implies(z3.And(0 <= j, j < 65536, wf(j)), z3.And(j < n, wf(a[j])))), 0 <= i, i < 65536, wf(i),
         z3.ForAll([k], z3.Implies(z3.And(0 <= k, k < n), z3.And(0 <= a[k], a[k] < 65536)))], wf(a[a[i]]))))
    out.append(("valid", "two-variables", vc(
        [z3.ForAll([i, j], z3.Implies(z3.And(0 <= i, i < j, j < n), a[i] != a[j])), n > 5], a[1] != a[4])))
    # ---- invalid: must not be "proved"
    out.append(("invalid", "one-past-the-range", vc([nonneg, n >= 0], a[n] >= 0)))
    out.append(("invalid", "below-the-range", vc([z3.ForAll([k], z3.Implies(z3.And(1 <= k, k < n), a[k] >= 0)), n > 0], a[0] >= 0)))
    out.append(("invalid", "universal-in-negative-position", vc([z3.Implies(z3.ForAll([k], a[k] > 0), p)], p)))
    out.append(("invalid", "universal-below-iff", vc([p == z3.ForAll([k], a[k] > 0), a[0] > 0, a[1] > 0], p)))
    out.append(("invalid", "offset-misuse", vc([step, n > 3], a[3] == a[0] + 2)))
    out.append(("invalid", "goal-universal-needs-induction-not-given", vc([a[0] >= 0, n > 0],
                                                                         z3.ForAll([j], z3.Implies(z3.And(0 <= j, j < n), a[j] >= 0)))))
    out.append(("invalid", "nested-wrong-order", vc(
        [z3.ForAll([i], z3.Or(i < 0, i >= n, z3.ForAll([j], z3.Implies(z3.And(i < j, j < n), a[i] < a[j])))), n > 5], a[4] < a[1])))
    out.append(("invalid", "nested-right-claim-control", vc(
        [z3.ForAll([i], z3.Or(i < 0, i >= n, z3.ForAll([j], z3.Implies(z3.And(i < j, j < n), a[i] < a[j])))), n > 5], a[4] < a[4])))
    # the nested form, valid direction (checks the de-Bruijn bookkeeping of nested binders the other way round)
    out.append(("valid", "nested-binders", vc(
        [z3.ForAll([i], z3.Or(i < 0, i >= n, z3.ForAll([j], z3.Implies(z3.And(i < j, j < n), a[i] < a[j])))), n > 5], a[1] < a[4])))
    return out


def main():
    bad = 0
    for kind, name, text in cases():
        r, info = ginst.solve(text, rounds=3, timeout_ms=20000)
        # independent reading of the case itself: z3's own verdict on the VC
        s = z3.Solver()
        s.set("timeout", 20000)
        s.from_string(text)
        ref = str(s.check())
        ok = (r == "unsat") if kind == "valid" else (r != "unsat")
        if kind == "valid" and ref == "sat" or kind == "invalid" and ref == "unsat":
            ok = False
            info += " | CASE MISLABELLED (z3 says " + ref + ")"
        print(("ok   " if ok else "FAIL ") + f"{kind:8s}{name:45s} ginst={r:8s} z3={ref:8s}" + ("" if ok else info))
        bad += 0 if ok else 1
    print("ginst self-test:", "passed" if not bad else f"{bad} case(s) failed")
    return 1 if bad else 0


if __name__ == "__main__":
    sys.exit(main())
