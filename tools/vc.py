import sys; sys.path.insert(0,'/verif')
from pyvc import harness
harness.load_contracts()
from pyvc.contract import REGISTRY
from pyvc import verify
keys = sys.argv[1:]
ks=[]
for k in keys:
    ks += [r for r in REGISTRY if r.startswith(k[:-1])] if k.endswith('*') else [k]
keys=ks
for k in keys:
    rep = verify.verify(REGISTRY[k])
    print(k, rep.status, rep.reason, rep.paths, round(rep.gen_time,2))
    for l,s in rep.summary().items():
        if s!='discharged': print('  ',s, l)
    for ob in rep.obligations:
        if ob.status!='discharged': print('     ', ob.status, ob.label, ob.backend, round(ob.time,1), (ob.info or '')[:100], ob.path)
    print('  ', len(rep.obligations), 'vcs', round(sum(o.time for o in rep.obligations),1),'s', rep.trusted)
