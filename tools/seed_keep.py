"""tools/seed_keep.py <seed-dir> <name> <caught-by text> : keep a confirmed seeded change under /verif/seeded/<name>/"""
import json, os, shutil, sys
src, name, caught = sys.argv[1], sys.argv[2], sys.argv[3]
dst = os.path.join("/verif/seeded", name)
os.makedirs(dst, exist_ok=True)
for f in ("patch.diff", "demo.py"):
    shutil.copy(os.path.join(src, f), os.path.join(dst, f))
meta = json.load(open(os.path.join(src, "meta.json")))
meta["confirmed_here"] = {"what_i_ran": "tools/seed_eval.sh (scratch copy of /repo at the fixed HEAD: demo exits 0 unchanged, patch applies, 62 tests pass with the change, demo exits 1 with the change; then bin/check <property> with VERIF_REPO pointing at the changed copy)",
                          "caught_by": caught}
json.dump(meta, open(os.path.join(dst, "meta.json"), "w"), indent=1)
print("kept", dst)
