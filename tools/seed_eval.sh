#!/bin/sh
# tools/seed_eval.sh <seed-dir (contains patch.diff, demo.py)> <PROP> [more PROPs]
# 1. scratch copy of /repo; demo must pass. 2. apply patch; tests must pass, demo must fail. 3. run the checks against the patched copy.
D="$1"; shift
S=$(mktemp -d /tmp/seedeval.XXXXXX)
rsync -a --exclude .git /repo/ "$S/"
echo "== demo on unchanged copy"; (cd "$S" && /venv/bin/python "$D/demo.py" "$S" >/dev/null 2>&1); echo "   exit=$?"
(cd "$S" && git init -q . 2>/dev/null; git -C "$S" apply "$D/patch.diff") || { echo "PATCH DOES NOT APPLY"; rm -rf "$S"; exit 2; }
echo "== tests with change"; (cd "$S" && /venv/bin/python -m pytest -q -p no:cacheprovider 2>&1 | tail -1)
echo "== demo with change"; (cd "$S" && /venv/bin/python "$D/demo.py" "$S" 2>&1 | tail -3); (cd "$S" && /venv/bin/python "$D/demo.py" "$S" >/dev/null 2>&1); echo "   exit=$?"
cd /verif
for P in "$@"; do
  echo "== check $P against the changed copy"
  VERIF_REPO="$S" VERIF_EVIDENCE_DIR="$S/.evidence" bin/check "$P" --tier "${TIER:-quick}" > "$S/.check.out" 2>&1
  grep -E '^UNDECIDED' "$S/.check.out" | cut -c1-260 | head -4
  grep -E '^(VIOLATION|SUMMARY|CHECKER|KNOWN)' "$S/.check.out" | cut -c1-260 | head -12
done
rm -rf "$S"
