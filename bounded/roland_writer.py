"""
roland_writer -- independent writer for Roland S-7xx hard disk images.

Stdlib only.  Written from the Kaitai description /repo/ksy/roland/s770.ksy
(and a handful of format facts listed below); it deliberately does NOT import
`smpl_extract` and shares no struct declarations with it, so that it can serve
as an independent oracle for the reader.

Image layout (all little endian; section sizes from the ksy `seq`)
-------------------------------------------------------------------
    0x000000  ID area              0x200
    0x000200  reserved             0x600
    0x000800  program/text area    0x80000
    0x080800  FAT area             0x20000   (0x10000 u16 words)
    0x0a0800  directory area       0x6d000
        0x0a0800  volume dirs        0x1000   (0x80   x 32 B)
        0x0a1800  performance dirs   0x4000   (0x200  x 32 B)
        0x0a5800  patch dirs         0x8000   (0x400  x 32 B)
        0x0ad800  partial dirs       0x20000  (0x1000 x 32 B)
        0x0cd800  sample dirs        0x40000  (0x2000 x 32 B)
    0x10d800  parameter area       0x1a8000
        0x10d800  volume params      0x8000   (128  x 256 B)
        0x115800  performance params 0x40000  (512  x 512 B)
        0x155800  patch params       0x80000  (1024 x 512 B)
        0x1d5800  partial params     0x80000  (4096 x 128 B)
        0x255800  sample params      0x60000  (8192 x 48 B)
    0x2b5800  data area: cluster c lives at 0x2b1000 + c*0x2400, c >= 2

ID area: revision:u32, "S770 MR25A"[10], pad 2, empty[15], pad 1,
version[31], pad 1, copyright[31], pad 1, pad 160, disk_name[16] (@256),
capacity:u32 (@272), five u16 counts (@276: volumes, performances, patches,
partials, samples), pad 226.

FAT: word 0 = 0xFFFA, word 1 = number of unused clusters, words 2.. = next
pointers (0 free, 1 reserved, 0xFFF7 error, >= 0xFFF8 end of chain), the last
two words are the version flags (0xFFFF,0xFFFF = version 1, 0xFFFE = version
2).  In a version 2 disk the forward/backward link fields of the directory
entries carry an additional 0x8000.

Directory entry (32 B): name[16] (ASCII, space padded), file_type:u8
(0x40..0x44), attributes:u8, forward_link:u16, backward_link:u16, link_id:u16,
reserved:u32, fat_entry:u16, num_clusters:u16.

Sample parameter (48 B): name[16], five u32 points @16 (start, sustain start,
sustain end, release start, release end; word address in the upper 24 bits,
fine in the low byte), loop_mode:u8 @36, sustain_loop_enable @37, two tune
bytes @38/@39, cluster_top (seg_top):u16 @40, num_clusters (seg_length):u16
@42, options:u8 @44 (high nibble = mode 0 mono / 1 stereo, low nibble =
frequency code), original_key:u8 @45, pad 2.

Frequency codes: 0 = 48000, 1 = 44100, 2 = 24000, 3 = 22050, 4 = 30000,
5 = 15000 Hz.

Writer conventions where the ksy gives no semantics (recorded so that damage
tests know what "well formed" means here):
  * forward/backward link fields chain the used entries of one directory in
    index order (circular); link_id = own index; attributes = 0.
  * directory num_clusters = length of the whole FAT chain of the sample;
    parameter num_clusters = number of data clusters (chain minus cluster_top).
  * capacity = image length in bytes (overridable with model["capacity"]).
  * performance `parts_patch_selection[k]` = k for the k-th listed patch, -1
    otherwise; patch `keys_partial_selection[key]` spreads the listed partials
    evenly across the 88 keys.

Public API
----------
    build_roland_image(model)    -> bytes
    build_roland_image_ex(model) -> (bytes, layout)
    expected_sample_export(sample_model) -> (pcm_bytes, sample_rate)
    FREQ_CODE_TO_RATE, END_POINT_BY_LOOP_MODE, REVERSED_LOOP_MODES
"""

import struct

# ---------------------------------------------------------------- constants

ID_AREA_OFFSET = 0x000000
ID_AREA_SIZE = 0x200
RESERVED_AREA_SIZE = 0x600
PROGRAM_AREA_SIZE = 0x80000
FAT_OFFSET = ID_AREA_SIZE + RESERVED_AREA_SIZE + PROGRAM_AREA_SIZE  # 0x80800
FAT_WORDS = 0x10000
FAT_SIZE = 2 * FAT_WORDS

FAT_ID = 0xFFFA
FAT_FREE = 0x0000
FAT_RESERVED = 0x0001
FAT_ERROR = 0xFFF7
FAT_END_MIN = 0xFFF8
FAT_VERSION_WORDS = {1: (0xFFFF, 0xFFFF), 2: (0xFFFE, 0xFFFE)}
FAT_MAX_CLUSTER = FAT_WORDS - 10          # last entry the reader scans

DIR_ENTRY_SIZE = 32
DIR_AREA_OFFSET = FAT_OFFSET + FAT_SIZE   # 0xa0800

LEVELS = ("volumes", "performances", "patches", "partials", "samples")

#              level          type  max     param size
_LEVEL_INFO = {
    "volumes":      (0x40, 0x80,   0x100),
    "performances": (0x41, 0x200,  0x200),
    "patches":      (0x42, 0x400,  0x200),
    "partials":     (0x43, 0x1000, 0x80),
    "samples":      (0x44, 0x2000, 0x30),
}
FILE_TYPE = {k: v[0] for k, v in _LEVEL_INFO.items()}
MAX_ENTRIES = {k: v[1] for k, v in _LEVEL_INFO.items()}
PARAM_SIZE = {k: v[2] for k, v in _LEVEL_INFO.items()}

DIR_OFFSET = {}
_off = DIR_AREA_OFFSET
for _lvl in LEVELS:
    DIR_OFFSET[_lvl] = _off
    _off += MAX_ENTRIES[_lvl] * DIR_ENTRY_SIZE
PARAM_AREA_OFFSET = _off                   # 0x10d800
PARAM_OFFSET = {}
for _lvl in LEVELS:
    PARAM_OFFSET[_lvl] = _off
    _off += MAX_ENTRIES[_lvl] * PARAM_SIZE[_lvl]
DATA_AREA_OFFSET = _off                    # 0x2b5800  (= cluster 2)
del _off, _lvl

CLUSTER_SIZE = 0x2400
WORDS_PER_CLUSTER = CLUSTER_SIZE // 2
DATA_FAT_OFFSET = DATA_AREA_OFFSET - 2 * CLUSTER_SIZE   # 0x2b1000 (cluster 0)

# cross-check of the arithmetic above against the stated facts
assert FAT_OFFSET == 0x80800
assert DIR_OFFSET == {"volumes": 0xa0800, "performances": 0xa1800,
                      "patches": 0xa5800, "partials": 0xad800,
                      "samples": 0xcd800}
assert PARAM_OFFSET == {"volumes": 0x10d800, "performances": 0x115800,
                        "patches": 0x155800, "partials": 0x1d5800,
                        "samples": 0x255800}
assert DATA_AREA_OFFSET == 0x2b5800 and DATA_FAT_OFFSET == 0x2b1000

FREQ_CODE_TO_RATE = {0: 48000, 1: 44100, 2: 24000, 3: 22050, 4: 30000,
                     5: 15000}

POINT_NAMES = ("start", "sustain_start", "sustain_end", "release_start",
               "release_end")
# loop mode -> name of the point that ends the exported window (inclusive)
END_POINT_BY_LOOP_MODE = {0: "sustain_end", 1: "release_end",
                          2: "sustain_end", 3: "release_end",
                          4: "sustain_end", 5: "sustain_end",
                          6: "sustain_end"}
REVERSED_LOOP_MODES = (5, 6)

# ID area field offsets (relative to the start of the image)
ID_FIELDS = {
    "revision": 0, "s7xx_str": 4, "empty_str": 16, "version_str": 32,
    "copyright_str": 64, "disk_name": 256, "capacity": 272,
    "num_volumes": 276, "num_performances": 278, "num_patches": 280,
    "num_partials": 282, "num_samples": 284,
}

# offsets inside a 32-byte directory entry
DIR_FIELDS = {"name": 0, "file_type": 16, "attributes": 17,
              "forward_link": 18, "backward_link": 20, "link_id": 22,
              "reserved": 24, "fat_entry": 28, "num_clusters": 30}

# offsets inside a 48-byte sample parameter record
SAMPLE_PARAM_FIELDS = {"name": 0, "start": 16, "sustain_start": 20,
                       "sustain_end": 24, "release_start": 28,
                       "release_end": 32, "loop_mode": 36,
                       "sustain_loop_enable": 37, "sustain_loop_tune": 38,
                       "release_loop_tune": 39, "cluster_top": 40,
                       "num_clusters": 42, "options": 44, "original_key": 45}

VOLUME_PERF_PTRS_OFFSET = 32       # 64 x i16
VOLUME_MAX_PERFORMANCES = 64
PERFORMANCE_PATCH_LIST_OFFSET = 256  # 32 x i16
PERFORMANCE_MAX_PATCHES = 32
PATCH_PARTIAL_LIST_OFFSET = 256    # 88 x i16
PATCH_MAX_PARTIALS = 88
PARTIAL_SAMPLE_SECTION_OFFSETS = (16, 32, 48, 64)   # 11 bytes each
PARTIAL_MAX_SAMPLES = 4


# ------------------------------------------------------------------ helpers

def _name16(name, width=16):
    if isinstance(name, (bytes, bytearray)):
        raw = bytes(name)
    else:
        raw = str(name).encode("ascii")
    if len(raw) > width:
        raise ValueError("name %r longer than %d bytes" % (name, width))
    return raw + b" " * (width - len(raw))


def _fixed_str(text, width):
    raw = text.encode("ascii")
    if len(raw) > width:
        raise ValueError("string %r longer than %d" % (text, width))
    return raw + b" " * (width - len(raw))


def _i16_list(values, count, what):
    values = list(values)
    if len(values) > count:
        raise ValueError("%s: at most %d entries, got %d"
                         % (what, count, len(values)))
    values = values + [-1] * (count - len(values))
    return struct.pack("<%dh" % count, *values)


def _check_refs(refs, limit, what):
    for r in refs:
        if r == -1:
            continue
        if not (0 <= r < limit):
            raise ValueError("%s: reference %r out of range 0..%d"
                             % (what, r, limit - 1))


def _dir_entry(name, file_type, index, count, fat_version,
               fat_entry=0, num_clusters=0, attributes=0):
    if count > 0:
        fwd = (index + 1) % count
        bwd = (index - 1) % count
    else:
        fwd = bwd = 0
    if fat_version == 2:
        fwd = (fwd + 0x8000) & 0xFFFF
        bwd = (bwd + 0x8000) & 0xFFFF
    return (_name16(name)
            + struct.pack("<BBHHHIHH", file_type, attributes, fwd, bwd,
                          index & 0xFFFF, 0, fat_entry, num_clusters))


def _override(default, raw, size, what):
    if raw is None:
        return default
    raw = bytes(raw)
    if len(raw) != size:
        raise ValueError("%s override must be %d bytes, got %d"
                         % (what, size, len(raw)))
    return raw


# --------------------------------------------------------- parameter records

def _volume_param(vol):
    rec = bytearray(PARAM_SIZE["volumes"])
    rec[0:16] = _name16(vol["name"])
    rec[32:32 + 128] = _i16_list(vol.get("performances", []),
                                 VOLUME_MAX_PERFORMANCES,
                                 "volume %r performances" % vol["name"])
    return bytes(rec)


def _performance_param(perf):
    rec = bytearray(PARAM_SIZE["performances"])
    patches = list(perf.get("patches", []))
    rec[0:16] = _name16(perf["name"])
    # parts_patch_selection: 32 x s1 @16
    sel = [k if k < len(patches) else -1 for k in range(32)]
    rec[16:48] = struct.pack("<32b", *sel)
    # midi channel data 16 x u1 @48
    rec[48:64] = bytes(range(16))
    # parts_level 32 x (level:7 | on:1<<7) @64
    rec[64:96] = bytes((0x7F | 0x80) if k < len(patches) else 0x7F
                       for k in range(32))
    rec[96:128] = bytes([0] * 32)       # zone lower
    rec[128:160] = bytes([87] * 32)     # zone upper
    # fade widths @160/@192 stay 0; eight u16 switches @224; curves @240
    rec[PERFORMANCE_PATCH_LIST_OFFSET:PERFORMANCE_PATCH_LIST_OFFSET + 64] = \
        _i16_list(patches, PERFORMANCE_MAX_PATCHES,
                  "performance %r patches" % perf["name"])
    return bytes(rec)


def _patch_param(patch):
    rec = bytearray(PARAM_SIZE["patches"])
    partials = list(patch.get("partials", []))
    n = len(partials)
    rec[0:16] = _name16(patch["name"])
    rec[16] = 0        # program change
    rec[17] = 127      # stereo mix level
    rec[18] = 64       # total pan
    rec[19] = 127      # patch level
    # keys_partial_selection 88 x u1 @32
    if n > PATCH_MAX_PARTIALS:
        raise ValueError("patch %r: at most 88 partials" % patch["name"])
    rec[32:120] = bytes((k * n // 88) if n else 0xFF for k in range(88))
    # keys_assign_type 88 x u1 @128 stays 0
    rec[PATCH_PARTIAL_LIST_OFFSET:PATCH_PARTIAL_LIST_OFFSET + 176] = \
        _i16_list(partials, PATCH_MAX_PARTIALS,
                  "patch %r partials" % patch["name"])
    return bytes(rec)


def _partial_param(partial):
    rec = bytearray(PARAM_SIZE["partials"])
    samples = list(partial.get("samples", []))
    if len(samples) > PARTIAL_MAX_SAMPLES:
        raise ValueError("partial %r: at most 4 samples" % partial["name"])
    samples = samples + [-1] * (PARTIAL_MAX_SAMPLES - len(samples))
    rec[0:16] = _name16(partial["name"])
    for off, smp in zip(PARTIAL_SAMPLE_SECTION_OFFSETS, samples):
        # sample_selection:i16, pitch_kf, level, pan, coarse, fine,
        # velocity lower, fade lower, velocity upper, fade upper
        rec[off:off + 11] = struct.pack("<h9B", smp, 0, 127, 64, 0, 0,
                                        0, 0, 127, 0)
    rec[29] = 127   # stereo mix level
    rec[30] = 127   # partial level
    return bytes(rec)


def _sample_param(smp, cluster_top, n_data_clusters):
    rec = bytearray(PARAM_SIZE["samples"])
    rec[0:16] = _name16(smp.get("param_name", smp["name"]))
    points = smp["points"]
    fine = smp.get("fine", {})
    for k, pname in enumerate(POINT_NAMES):
        addr = int(points[pname])
        f = int(fine.get(pname, 0))
        if not (0 <= addr < (1 << 24)):
            raise ValueError("sample %r point %s=%r does not fit 24 bits"
                             % (smp["name"], pname, addr))
        if not (0 <= f <= 255):
            raise ValueError("sample %r fine %s=%r" % (smp["name"], pname, f))
        struct.pack_into("<I", rec, 16 + 4 * k, (addr << 8) | f)
    mode = int(smp.get("mode", 0))
    freq_code = int(smp.get("freq_code", 0))
    if not (0 <= mode <= 15 and 0 <= freq_code <= 15):
        raise ValueError("sample %r: mode/freq_code must be nibbles"
                         % smp["name"])
    rec[36] = int(smp.get("loop_mode", 0)) & 0xFF
    rec[37] = int(smp.get("sustain_loop_enable", 1)) & 0xFF
    rec[38] = 0
    rec[39] = 0
    struct.pack_into("<HH", rec, 40, cluster_top, n_data_clusters)
    rec[44] = (mode << 4) | freq_code
    rec[45] = int(smp.get("original_key", 60)) & 0xFF
    return bytes(rec)


# ------------------------------------------------------------ cluster chains

def _plan_chains(samples, allow_overlap):
    """Return per-sample (chain, n_data) and the set of used clusters."""
    claimed = {}
    plans = [None] * len(samples)
    # first pass: explicit chains
    for i, smp in enumerate(samples):
        pcm = bytes(smp.get("pcm", b""))
        top = int(smp.get("cluster_top", 0))
        if top < 0:
            raise ValueError("sample %d: negative cluster_top" % i)
        n_data = max(1, -(-len(pcm) // CLUSTER_SIZE))
        if smp.get("clusters") is not None:
            chain = [int(c) for c in smp["clusters"]]
            if len(chain) != top + n_data:
                raise ValueError(
                    "sample %d (%r): explicit chain has %d clusters, needs "
                    "cluster_top(%d) + data(%d)"
                    % (i, smp["name"], len(chain), top, n_data))
            if len(set(chain)) != len(chain):
                raise ValueError("sample %d: repeated cluster in chain" % i)
            for c in chain:
                if not (2 <= c <= FAT_MAX_CLUSTER):
                    raise ValueError("sample %d: cluster %r out of range"
                                     % (i, c))
                if c in claimed and not allow_overlap:
                    raise ValueError("cluster %d used by samples %d and %d"
                                     % (c, claimed[c], i))
                claimed[c] = i
            plans[i] = (chain, n_data)
    # second pass: allocate the rest first-fit from cluster 2
    nxt = 2
    for i, smp in enumerate(samples):
        if plans[i] is not None:
            continue
        pcm = bytes(smp.get("pcm", b""))
        top = int(smp.get("cluster_top", 0))
        n_data = max(1, -(-len(pcm) // CLUSTER_SIZE))
        chain = []
        while len(chain) < top + n_data:
            if nxt not in claimed:
                claimed[nxt] = i
                chain.append(nxt)
            nxt += 1
            if nxt > FAT_MAX_CLUSTER + 1:
                raise ValueError("out of clusters")
        plans[i] = (chain, n_data)
    return plans, claimed


# -------------------------------------------------------------------- build

def build_roland_image_ex(model):
    """Build an S-7xx hard disk image from the logical model.

    Returns (image_bytes, layout).  `layout` holds absolute byte offsets:

        layout["fat_offset"], ["fat_size"], ["fat_version_offset"],
        layout["id"][field]                       (ID area field offsets)
        layout["dir_area"][level] / ["param_area"][level]
        layout[level][i]["dir_offset"], ["param_offset"]   for all 5 levels
        layout["samples"][i]["clusters"]          whole FAT chain
        layout["samples"][i]["data_clusters"]     chain after cluster_top
        layout["samples"][i]["cluster_offsets"]   file offset of each cluster
        layout["samples"][i]["data_offsets"]      file offset of data clusters
        layout["total_clusters"], ["used_clusters"], ["file_length"]
        layout["dir_fields"], ["sample_param_fields"]  (relative offsets)
    """
    fat_version = int(model.get("fat_version", 1))
    if fat_version not in (1, 2):
        raise ValueError("fat_version must be 1 or 2")

    tables = {lvl: list(model.get(lvl, [])) for lvl in LEVELS}
    for lvl in LEVELS:
        if len(tables[lvl]) > MAX_ENTRIES[lvl]:
            raise ValueError("too many %s" % lvl)

    # referential sanity (a -1 reference means "none")
    # a None entry of volumes / performances / patches / partials is an EMPTY SLOT (all-zero directory and parameter record):
    # the directories of a used disk have holes, the ID-area counts say how many entries exist, not which slots they occupy
    for v in tables["volumes"]:
        if v is not None:
            _check_refs(v.get("performances", []), MAX_ENTRIES["performances"],
                        "volume %r" % v["name"])
    for p in tables["performances"]:
        if p is not None:
            _check_refs(p.get("patches", []), MAX_ENTRIES["patches"],
                        "performance %r" % p["name"])
    for p in tables["patches"]:
        if p is not None:
            _check_refs(p.get("partials", []), MAX_ENTRIES["partials"],
                        "patch %r" % p["name"])
    for p in tables["partials"]:
        if p is not None:
            _check_refs(p.get("samples", []), MAX_ENTRIES["samples"],
                        "partial %r" % p["name"])

    plans, claimed = _plan_chains(tables["samples"],
                                  bool(model.get("allow_cluster_overlap")))
    max_cluster = max(claimed) if claimed else 1
    total_clusters = max_cluster - 1           # clusters 2..max_cluster
    if model.get("total_clusters") is not None:
        if int(model["total_clusters"]) < total_clusters:
            raise ValueError("total_clusters smaller than highest cluster")
        total_clusters = int(model["total_clusters"])
    if total_clusters + 1 > FAT_MAX_CLUSTER:
        raise ValueError("too many clusters")
    file_length = DATA_FAT_OFFSET + (2 + total_clusters) * CLUSTER_SIZE

    img = bytearray(file_length)
    layout = {
        "fat_offset": FAT_OFFSET,
        "fat_size": FAT_SIZE,
        "fat_version_offset": FAT_OFFSET + FAT_SIZE - 4,
        "fat_version": fat_version,
        "id": dict(ID_FIELDS),
        "dir_area": dict(DIR_OFFSET),
        "param_area": dict(PARAM_OFFSET),
        "dir_entry_size": DIR_ENTRY_SIZE,
        "param_size": dict(PARAM_SIZE),
        "dir_fields": dict(DIR_FIELDS),
        "sample_param_fields": dict(SAMPLE_PARAM_FIELDS),
        "data_fat_offset": DATA_FAT_OFFSET,
        "data_area_offset": DATA_AREA_OFFSET,
        "cluster_size": CLUSTER_SIZE,
        "total_clusters": total_clusters,
        "used_clusters": sorted(claimed),
        "file_length": file_length,
    }
    for lvl in LEVELS:
        layout[lvl] = []

    # ---- ID area
    counts = {lvl: len([e for e in tables[lvl] if e is not None]) for lvl in LEVELS}
    counts.update(model.get("counts", {}))
    ida = bytearray(ID_AREA_SIZE)
    struct.pack_into("<I", ida, 0, int(model.get("revision", 0x100)))
    ida[4:14] = _fixed_str(model.get("id_string", "S770 MR25A"), 10)
    ida[16:31] = _fixed_str("", 15)
    ida[32:63] = _fixed_str(model.get("version_string",
                                      "S-770 Hard Disk  Ver. 1.00"), 31)
    ida[64:95] = _fixed_str(model.get("copyright_string",
                                      "    Copyright   Roland"), 31)
    ida[256:272] = _name16(model.get("disk_name", "DISK"))
    struct.pack_into("<I", ida, 272,
                     int(model.get("capacity", file_length)) & 0xFFFFFFFF)
    struct.pack_into("<5H", ida, 276, *(counts[lvl] for lvl in LEVELS))
    img[0:ID_AREA_SIZE] = ida

    # ---- FAT
    fat = [FAT_FREE] * FAT_WORDS
    fat[0] = FAT_ID
    end_marker = int(model.get("fat_end_marker", 0xFFFF))
    if end_marker < FAT_END_MIN or end_marker > 0xFFFF:
        raise ValueError("fat_end_marker must be in 0xFFF8..0xFFFF")
    for chain, _n in plans:
        for a, b in zip(chain, chain[1:]):
            fat[a] = b
        fat[chain[-1]] = end_marker
    fat[1] = (total_clusters - len(claimed)) & 0xFFFF
    w1, w2 = model.get("fat_version_words", FAT_VERSION_WORDS[fat_version])
    fat[FAT_WORDS - 2] = w1
    fat[FAT_WORDS - 1] = w2
    img[FAT_OFFSET:FAT_OFFSET + FAT_SIZE] = struct.pack("<%dH" % FAT_WORDS,
                                                        *fat)

    # ---- directory + parameter records
    def place(lvl, i, dir_bytes, param_bytes, entry, extra=None):
        d_off = DIR_OFFSET[lvl] + i * DIR_ENTRY_SIZE
        p_off = PARAM_OFFSET[lvl] + i * PARAM_SIZE[lvl]
        dir_bytes = _override(dir_bytes, entry.get("raw_dir"),
                              DIR_ENTRY_SIZE, "%s[%d] raw_dir" % (lvl, i))
        param_bytes = _override(param_bytes, entry.get("raw_param"),
                                PARAM_SIZE[lvl],
                                "%s[%d] raw_param" % (lvl, i))
        img[d_off:d_off + DIR_ENTRY_SIZE] = dir_bytes
        img[p_off:p_off + PARAM_SIZE[lvl]] = param_bytes
        rec = {"index": i, "dir_offset": d_off, "param_offset": p_off}
        if extra:
            rec.update(extra)
        layout[lvl].append(rec)

    builders = {"volumes": _volume_param, "performances": _performance_param,
                "patches": _patch_param, "partials": _partial_param}
    for lvl in ("volumes", "performances", "patches", "partials"):
        n = len(tables[lvl])
        for i, entry in enumerate(tables[lvl]):
            if entry is None:
                layout[lvl].append({"index": i, "empty": True})
                continue
            place(lvl, i,
                  _dir_entry(entry["name"], FILE_TYPE[lvl], i, n,
                             fat_version),
                  builders[lvl](entry), entry)

    n = len(tables["samples"])
    for i, smp in enumerate(tables["samples"]):
        chain, n_data = plans[i]
        top = int(smp.get("cluster_top", 0))
        pcm = bytes(smp.get("pcm", b""))
        top_fill = int(smp.get("top_fill", 0xEE)) & 0xFF
        data_chain = chain[top:]
        # leading (skipped) clusters get a recognisable filler
        for c in chain[:top]:
            o = DATA_FAT_OFFSET + c * CLUSTER_SIZE
            img[o:o + CLUSTER_SIZE] = bytes([top_fill]) * CLUSTER_SIZE
        padded = pcm + bytes(n_data * CLUSTER_SIZE - len(pcm))
        for k, c in enumerate(data_chain):
            o = DATA_FAT_OFFSET + c * CLUSTER_SIZE
            img[o:o + CLUSTER_SIZE] = \
                padded[k * CLUSTER_SIZE:(k + 1) * CLUSTER_SIZE]
        place("samples", i,
              _dir_entry(smp["name"], FILE_TYPE["samples"], i, n,
                         fat_version, fat_entry=chain[0],
                         num_clusters=len(chain)),
              _sample_param(smp, top, n_data), smp,
              extra={
                  "clusters": list(chain),
                  "cluster_top": top,
                  "data_clusters": list(data_chain),
                  "cluster_offsets": [DATA_FAT_OFFSET + c * CLUSTER_SIZE
                                      for c in chain],
                  "data_offsets": [DATA_FAT_OFFSET + c * CLUSTER_SIZE
                                   for c in data_chain],
                  "fat_entry_offsets": [FAT_OFFSET + 2 * c for c in chain],
              })

    assert len(img) == file_length
    return bytes(img), layout


def build_roland_image(model):
    """Build an S-7xx hard disk image; see build_roland_image_ex."""
    return build_roland_image_ex(model)[0]


# ------------------------------------------------------------------- oracle

def expected_sample_export(sample):
    """What a correct exporter emits for this sample model.

    Returns (pcm_bytes, sample_rate): the 16-bit words start..end inclusive of
    the sample's data area, where `end` is selected by the loop mode, reversed
    word-wise for loop modes 5 and 6.
    """
    pcm = bytes(sample.get("pcm", b""))
    points = sample["points"]
    mode = int(sample.get("loop_mode", 0))
    start = int(points["start"])
    end = int(points[END_POINT_BY_LOOP_MODE[mode]])
    window = pcm[2 * start:2 * (end + 1)]
    if mode in REVERSED_LOOP_MODES:
        words = [window[k:k + 2] for k in range(0, len(window), 2)]
        window = b"".join(reversed(words))
    return window, FREQ_CODE_TO_RATE[int(sample.get("freq_code", 0))]
