"""Independent strict RIFF/WAVE parser (stdlib `struct` only; the `wave` module is not used).

parse_wav(data, strict=True) -> info dict
    {"riff_size", "file_len", "trailing",
     "chunks": [{"id": b"fmt ", "size": n, "offset": o, "padded": bool}, ...],   # offset of the chunk header
     "fmt":  {"audio_format","channels","sample_rate","byte_rate","block_align","bits","extra": bytes},
     "smpl": {"manufacturer","product","sample_period","midi_unity_note","pitch_fraction",
              "smpte_format","smpte_offset","loop_count","sampler_data_size",
              "loops": [{"cue_id","type","start","end","fraction","play_count"}], "sampler_data": bytes,
              "size": n} | None,
     "data": bytes}
  Raises ValueError for structural problems: short file, wrong magics, a chunk header or body running
  past the RIFF chunk or the file, missing pad byte, RIFF chunk not tiled exactly by its sub-chunks,
  missing or duplicate fmt/data/smpl, fmt shorter than 16 bytes, smpl shorter than its own loop table.
  With strict=True (default) a RIFF size different from file length - 8 is also a ValueError; with
  strict=False the chunks are walked over min(riff end, file end) and the mismatch is left for
  check_wellformed to report.

check_wellformed(info) -> [str]   violations of the canonical layout written by the exporter.
"""

import struct


def _u32(data, off):
    return struct.unpack_from("<I", data, off)[0]


def parse_wav(data, strict=True):
    data = bytes(data)
    n = len(data)
    if n < 12:
        raise ValueError("file of %d bytes is shorter than the 12-byte RIFF/WAVE header" % n)
    if data[0:4] != b"RIFF":
        raise ValueError("bad magic %r at offset 0, expected b'RIFF'" % data[0:4])
    riff_size = _u32(data, 4)
    if data[8:12] != b"WAVE":
        raise ValueError("bad form type %r at offset 8, expected b'WAVE'" % data[8:12])
    if riff_size < 4:
        raise ValueError("RIFF size %d is smaller than the 4-byte form type" % riff_size)
    riff_end = 8 + riff_size
    if strict and riff_end != n:
        raise ValueError("RIFF size %d + 8 = %d differs from the file length %d" % (riff_size, riff_end, n))
    if riff_end > n:
        if strict:
            raise ValueError("RIFF chunk ends at %d, past the end of the file (%d)" % (riff_end, n))
    end = min(riff_end, n)

    chunks = []
    bodies = {}
    off = 12
    while off < end:
        if off + 8 > end:
            raise ValueError("truncated chunk header at offset %d: %d bytes left, 8 needed" % (off, end - off))
        cid = data[off:off + 4]
        size = _u32(data, off + 4)
        body = off + 8
        if body + size > end:
            raise ValueError("chunk %r at offset %d: body of %d bytes runs past the end (%d > %d)"
                             % (cid, off, size, body + size, end))
        padded = bool(size & 1)
        nxt = body + size + (1 if padded else 0)
        if nxt > end:
            raise ValueError("chunk %r at offset %d: odd size %d without the pad byte" % (cid, off, size))
        chunks.append({"id": cid, "size": size, "offset": off, "padded": padded})
        if cid in (b"fmt ", b"smpl", b"data"):
            if cid in bodies:
                raise ValueError("duplicate %r chunk at offset %d" % (cid, off))
            bodies[cid] = data[body:body + size]
        off = nxt
    if off != end:
        raise ValueError("chunks end at %d but the RIFF chunk ends at %d" % (off, end))

    if b"fmt " not in bodies:
        raise ValueError("missing 'fmt ' chunk")
    if b"data" not in bodies:
        raise ValueError("missing 'data' chunk")

    fb = bodies[b"fmt "]
    if len(fb) < 16:
        raise ValueError("'fmt ' chunk of %d bytes is shorter than 16" % len(fb))
    af, ch, sr, br, ba, bits = struct.unpack_from("<HHIIHH", fb, 0)
    fmt = {"audio_format": af, "channels": ch, "sample_rate": sr, "byte_rate": br,
           "block_align": ba, "bits": bits, "extra": fb[16:]}

    smpl = None
    if b"smpl" in bodies:
        sb = bodies[b"smpl"]
        if len(sb) < 36:
            raise ValueError("'smpl' chunk of %d bytes is shorter than its 36-byte header" % len(sb))
        (manu, prod, period, note, frac, sfmt, soff, nloops, sds) = struct.unpack_from("<9I", sb, 0)
        if 36 + 24 * nloops > len(sb):
            raise ValueError("'smpl' chunk of %d bytes cannot hold its %d loops (needs %d)"
                             % (len(sb), nloops, 36 + 24 * nloops))
        loops = []
        for k in range(nloops):
            cue, typ, start, endb, fraction, plays = struct.unpack_from("<6I", sb, 36 + 24 * k)
            loops.append({"cue_id": cue, "type": typ, "start": start, "end": endb,
                          "fraction": fraction, "play_count": plays})
        smpl = {"manufacturer": manu, "product": prod, "sample_period": period,
                "midi_unity_note": note, "pitch_fraction": frac, "smpte_format": sfmt,
                "smpte_offset": soff, "loop_count": nloops, "sampler_data_size": sds,
                "loops": loops, "sampler_data": sb[36 + 24 * nloops:], "size": len(sb)}

    return {"riff_size": riff_size, "file_len": n, "trailing": max(0, n - riff_end),
            "chunks": chunks, "fmt": fmt, "smpl": smpl, "data": bodies[b"data"]}


def check_wellformed(info):
    """Human-readable violations of the canonical exporter layout (empty list = well-formed)."""
    v = []
    if info["riff_size"] != info["file_len"] - 8:
        v.append("RIFF size %d != file length %d - 8" % (info["riff_size"], info["file_len"]))

    ids = [c["id"] for c in info["chunks"]]
    if ids not in ([b"fmt ", b"data"], [b"fmt ", b"smpl", b"data"]):
        v.append("chunk sequence %r is not fmt, [smpl], data" % (ids,))

    total = 12 + sum(8 + c["size"] + (1 if c["padded"] else 0) for c in info["chunks"])
    if total != info["file_len"]:
        v.append("header + chunks add up to %d bytes, file has %d" % (total, info["file_len"]))
    pos = 12
    for c in info["chunks"]:
        if c["offset"] != pos:
            v.append("chunk %r at offset %d, expected %d" % (c["id"], c["offset"], pos))
        pos = c["offset"] + 8 + c["size"] + (1 if c["padded"] else 0)

    f = info["fmt"]
    fsize = next((c["size"] for c in info["chunks"] if c["id"] == b"fmt "), None)
    if fsize != 16:
        v.append("fmt chunk size %r != 16" % (fsize,))
    if f["audio_format"] != 1:
        v.append("audio_format %d != 1 (PCM)" % f["audio_format"])
    if f["channels"] < 1:
        v.append("channels %d < 1" % f["channels"])
    if f["bits"] != 16:
        v.append("bits %d != 16" % f["bits"])
    if f["block_align"] != f["channels"] * 2:
        v.append("block_align %d != channels %d * 2" % (f["block_align"], f["channels"]))
    if f["byte_rate"] != f["sample_rate"] * f["block_align"]:
        v.append("byte_rate %d != sample_rate %d * block_align %d"
                 % (f["byte_rate"], f["sample_rate"], f["block_align"]))
    if f["block_align"] > 0 and len(info["data"]) % f["block_align"]:
        v.append("data length %d is not a multiple of block_align %d" % (len(info["data"]), f["block_align"]))
    dsize = next((c["size"] for c in info["chunks"] if c["id"] == b"data"), None)
    if dsize != len(info["data"]):
        v.append("data chunk size %r != %d bytes held" % (dsize, len(info["data"])))

    s = info["smpl"]
    if s is not None:
        want = 36 + 24 * s["loop_count"] + s["sampler_data_size"]
        if s["size"] != want:
            v.append("smpl size %d != 36 + 24*%d + %d = %d"
                     % (s["size"], s["loop_count"], s["sampler_data_size"], want))
        if len(s["loops"]) != s["loop_count"]:
            v.append("smpl holds %d loops, header says %d" % (len(s["loops"]), s["loop_count"]))
    return v
