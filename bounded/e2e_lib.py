"""End-to-end monitors (DESIGN 2.8 kind 3): run the real `ls` / `export` on images serialised by the
independent writers in this directory and evaluate the property statement as a predicate over
(logical model, files written, stdout).  Runs under /venv/bin/python.  BOUNDED - never counted as proved."""
import contextlib
import io
import os
import re
import shutil
import sys
import tempfile

HERE = os.path.dirname(os.path.abspath(__file__))
if HERE not in sys.path:
    sys.path.insert(0, HERE)

import akai_writer as aw      # noqa: E402
import cdda_writer as cw      # noqa: E402
import roland_writer as rw    # noqa: E402
import wavparse as wp         # noqa: E402


class Workdir:
    def __enter__(self):
        self.path = tempfile.mkdtemp(prefix="verif_e2e_")
        return self

    def __exit__(self, *a):
        shutil.rmtree(self.path, ignore_errors=True)

    def file(self, name, data):
        p = os.path.join(self.path, name)
        with open(p, "wb") as f:
            f.write(data)
        return p

    def sub(self, name):
        p = os.path.join(self.path, name)
        os.makedirs(p, exist_ok=True)
        return p


def read_tree(root):
    out = {}
    for d, _, files in os.walk(root):
        for fn in files:
            p = os.path.join(d, fn)
            with open(p, "rb") as f:
                out[os.path.relpath(p, root).replace(os.sep, "/")] = f.read()
    return out


def do_export(image, outdir):
    """image: path or opened image object.  Returns (stdout, exception or None)."""
    from smpl_extract.actions import export_samples_to_wav
    buf = io.StringIO()
    err = None
    with contextlib.redirect_stdout(buf):
        try:
            export_samples_to_wav(image, outdir)
        except BaseException as e:  # noqa
            if isinstance(e, (KeyboardInterrupt,)) or type(e).__name__ == "Timeout":
                raise
            err = e
    return buf.getvalue(), err


def do_ls(image, path):
    from smpl_extract.actions import ls_action
    buf = io.StringIO()
    err = None
    with contextlib.redirect_stdout(buf):
        try:
            ls_action(image, path)
        except BaseException as e:  # noqa
            if isinstance(e, (KeyboardInterrupt,)) or type(e).__name__ == "Timeout":
                raise
            err = e
    return buf.getvalue(), err


def open_image(path):
    from smpl_extract.actions import determine_image_type
    return determine_image_type(path)


def open_with_history(path, history, workdir):
    """The image OBJECT after a history of earlier actions on it (the public actions accept an opened image):
    "ls" / "ls:<path>" / "export".  Their results are discarded; only the state they leave behind matters."""
    img = open_image(path)
    for k, op in enumerate(history):
        if op == "export":
            do_export(img, workdir.sub(f"_earlier{k}"))
        elif op == "ls":
            do_ls(img, "")
        elif op.startswith("ls:"):
            do_ls(img, op[3:])
        elif op == "open-other":
            pass
    return img


def exported_lines(stdout):
    return [l[len("Exported "):] for l in stdout.splitlines() if l.startswith("Exported ")]


def wav_info(data):
    """(info, problems) using the independent parser."""
    try:
        info = wp.parse_wav(data, strict=False)
    except ValueError as e:
        return None, [f"not a RIFF/WAVE file: {e}"]
    return info, wp.check_wellformed(info)


SAFE_COMPONENT = re.compile(r"^\w[\w \-.#()]*$", re.ASCII)


def component_problems(relpath):
    """C06 wording: non-empty, word chars / space - . # ( ), begins with a word char, no trailing space or dot."""
    bad = []
    for comp in relpath.split("/"):
        if not comp or not SAFE_COMPONENT.match(comp) or comp[-1] in " .":
            bad.append(comp)
    return bad


def ls_table_names(stdout):
    """Names of the `Item` column of a directory listing (InfoTable)."""
    lines = stdout.splitlines()
    names = []
    seen_header = False
    for l in lines:
        if not seen_header:
            if re.search(r"\bItem\b.*\bType\b", l):
                seen_header = True
                col = l.index("Type")
            continue
        if not l.strip() or set(l.strip()) <= set("-=+| "):
            continue
        names.append(l[:col].rstrip().strip("| ").rstrip())
    return names


# ---------------------------------------------------------------------------------- AKAI expectations
def akai_partition_dirname(i):
    return chr(ord("A") + i)      # "A:" sanitised to "A"


def is_sample_type(t):
    return t in (0xF3, 0x73)


def akai_expected_mono(model):
    """Expected exports for models whose names need no sanitising and form no L/R pairs:
    {relpath: (pcm, rate)}."""
    out = {}
    for pi, p in enumerate(model["partitions"]):
        for v in p["volumes"]:
            if v.get("type", 3) == 0:
                continue
            for f in v["files"]:
                if not is_sample_type(f["type"]):
                    continue
                h = f.get("header", {})
                pcm = bytes(f.get("pcm", b""))
                n = len(pcm) // 2
                s, e = h.get("start", 0), h.get("end", n)
                rate = h.get("rate", 44100) or 44100
                out[f"{akai_partition_dirname(pi)}/{v['name']}/{f['name']}.wav"] = (pcm[2 * s:2 * e], rate)
    return out


def pcm_words(seed, n):
    """n distinct-ish 16-bit words as bytes (deterministic)."""
    out = bytearray()
    x = (seed * 2654435761) & 0xFFFFFFFF
    for i in range(n):
        x = (x * 1103515245 + 12345 + i) & 0xFFFFFFFF
        out += ((x >> 8) & 0xFFFF).to_bytes(2, "little")
    return bytes(out)


def load_helpers(filename, wanted):
    """Load selected top-level functions / constants of a helper script of this directory WITHOUT running its top level
    (the self-tests insert /repo into sys.path and import the package, which would shadow $VERIF_REPO)."""
    import ast
    path = os.path.join(HERE, filename)
    tree = ast.parse(open(path).read())
    keep = []
    for node in tree.body:
        if isinstance(node, ast.FunctionDef) and node.name in wanted:
            keep.append(node)
        elif isinstance(node, ast.ClassDef) and node.name in wanted:
            keep.append(node)
        elif isinstance(node, ast.Assign) and any(isinstance(t, ast.Name) and t.id in wanted for t in node.targets):
            keep.append(node)
    mod = ast.Module(body=keep, type_ignores=[])
    import random
    import akai_program_writer as pw
    ns = {"random": random, "pw": pw}
    exec(compile(mod, path, "exec"), ns)
    return ns
