"""Independent writer of bin/cue pairs (stdlib only).

Public API
----------
build_cue(tracks, bin_name="img.bin", style=None) -> str
write_bin_cue(dirpath, bin_bytes, cue_text, bin_name="img.bin", cue_name="img.cue") -> cue_path
frames_of(index)                 -> (mm*60+ss)*75+ff     index = (nn, mm, ss, ff)
msf_of(frames, number=1)         -> (number, mm, ss, ff)
expected_track_ranges(tracks, bin_len) -> [(number, title, offset, length)]   oracle for AUDIO tracks

tracks = [{"number": 1, "mode": "AUDIO", "title": str|None, "indices": [(nn, mm, ss, ff), ...]}]

style (all optional):
  "case":          "upper" | "lower" | "mixed"     case of keywords and of the mode token
  "indent":        bool (default True)              standard 2/4-blank indentation
  "lead":          str                              extra leading blanks on every line (e.g. " \t")
  "trail":         str                              trailing blanks on every line
  "blank_lines":   int                              that many blank lines after every line
  "blank_fill":    str                              content of the inserted blank lines (blanks only)
  "leading_blank_lines": int                        blank lines before the first line
  "header_extra":  [str]                            unknown lines before FILE   (REM/PERFORMER/...)
  "file_extra":    [str]                            unknown lines between FILE and the first TRACK
  "track_extra":   [str]                            unknown lines right after every TRACK line
  "track_extra_after": [str]                        unknown lines after the INDEX lines of every track
  "title_first":   bool (default True)              TITLE before (True) or after (False) the INDEX lines
  "eol":           "\n" | "\r\n"
  "final_eol":     bool (default True)
"""

import os

SECTOR_BYTES = 2352          # one audio frame: 588 stereo 16-bit samples
FRAMES_PER_SECOND = 75

DEFAULT_HEADER_EXTRA = ['REM GENRE "Test"', 'REM DATE 1999', 'PERFORMER "Nobody"', 'TITLE "Album"']
DEFAULT_TRACK_EXTRA = ['PERFORMER "Nobody"', "FLAGS DCP", "PREGAP 00:02:00"]


def frames_of(index):
    _nn, mm, ss, ff = index
    return (mm * 60 + ss) * FRAMES_PER_SECOND + ff


def msf_of(frames, number=1):
    return (number, frames // (60 * FRAMES_PER_SECOND), (frames // FRAMES_PER_SECOND) % 60,
            frames % FRAMES_PER_SECOND)


def _case(word, how):
    if how == "upper" or how is None:
        return word.upper()
    if how == "lower":
        return word.lower()
    if how == "mixed":
        return "".join(c.upper() if i % 2 == 0 else c.lower() for i, c in enumerate(word))
    raise ValueError("unknown case style %r" % (how,))


def build_cue(tracks, bin_name="img.bin", style=None):
    st = dict(style or {})
    how = st.get("case", "upper")
    indent = st.get("indent", True)
    lead, trail = st.get("lead", ""), st.get("trail", "")
    for blanks in (lead, trail, st.get("blank_fill", "")):
        if blanks.strip(" \t"):
            raise ValueError("lead/trail/blank_fill must consist of blanks and tabs only")
    eol = st.get("eol", "\n")

    i1 = "  " if indent else ""
    i2 = "    " if indent else ""
    lines = []
    for x in st.get("header_extra", []):
        lines.append(x)
    if '"' in bin_name:
        raise ValueError("bin_name must not contain a double quote")
    lines.append('%s "%s" %s' % (_case("FILE", how), bin_name, _case("BINARY", how)))
    for x in st.get("file_extra", []):
        lines.append(i1 + x)
    for t in tracks:
        lines.append("%s%s %02d %s" % (i1, _case("TRACK", how), t["number"], _case(t.get("mode", "AUDIO"), how)))
        for x in st.get("track_extra", []):
            lines.append(i2 + x)
        title_line = None
        if t.get("title") is not None:
            if '"' in t["title"]:
                raise ValueError("title must not contain a double quote")
            title_line = '%s%s "%s"' % (i2, _case("TITLE", how), t["title"])
        if title_line and st.get("title_first", True):
            lines.append(title_line)
        for (nn, mm, ss, ff) in t.get("indices", []):
            lines.append("%s%s %02d %02d:%02d:%02d" % (i2, _case("INDEX", how), nn, mm, ss, ff))
        if title_line and not st.get("title_first", True):
            lines.append(title_line)
        for x in st.get("track_extra_after", []):
            lines.append(i2 + x)

    out = [st.get("blank_fill", "")] * st.get("leading_blank_lines", 0)
    for ln in lines:
        out.append(lead + ln + trail)
        out.extend([st.get("blank_fill", "")] * st.get("blank_lines", 0))
    text = eol.join(out)
    if st.get("final_eol", True):
        text += eol
    return text


def write_bin_cue(dirpath, bin_bytes, cue_text, bin_name="img.bin", cue_name="img.cue"):
    """Writes <dirpath>/<bin_name> and <dirpath>/<cue_name>; returns the cue path.
    `bin_name` must be the name used in build_cue."""
    os.makedirs(dirpath, exist_ok=True)
    with open(os.path.join(dirpath, bin_name), "wb") as f:
        f.write(bin_bytes)
    cue_path = os.path.join(dirpath, cue_name)
    with open(cue_path, "w", encoding="ascii", newline="") as f:
        f.write(cue_text)
    return cue_path


def expected_track_ranges(tracks, bin_len):
    """[(number, title, byte offset, byte length)] for the AUDIO tracks having at least one index:
    a track runs from its first index to the first index of the next audio track; the last one
    runs to the end of the bin, truncated to a whole number of stereo 16-bit frames (4 bytes)."""
    audio = [t for t in tracks if t.get("mode", "AUDIO").lower() == "audio" and t.get("indices")]
    out = []
    for k, t in enumerate(audio):
        off = frames_of(t["indices"][0]) * SECTOR_BYTES
        if k + 1 < len(audio):
            length = frames_of(audio[k + 1]["indices"][0]) * SECTOR_BYTES - off
        else:
            length = max(0, bin_len - off)
            length -= length % 4
        out.append((t["number"], t.get("title"), off, length))
    return out
