"""Independent writer of AKAI S1000/S3000 PROGRAM files + listing oracle (stdlib only).

Companion of akai_writer.py: the bytes returned by ``program_body_bytes`` go into a model file as
``{"name": ..., "type": 0xF0 | 0x70, "data": <bytes>}``.  Nothing of ``smpl_extract`` is imported;
all offsets are literal numbers in the tables below (S1000 program / keygroup block layout:
PRNAME@3, PRGNUM@15, ... VOSCL@70, VSSCL@71; KGIDENT@0, NXTKG@1, LONOTE@3 ... VZONES@31, four
24-byte velocity zones @34/58/82/106, KBEAT@130, AHOLD@131, CP1-4@132, VZOUT1-4@136, VSS1-4@140,
KV_LO@148).

Public API
----------
program_body_bytes(prog: dict) -> bytes
expected_listing(prog: dict, file_name: str, file_type: int = 0xF0) -> dict
parse_ls_tree(text: str) -> dict | list          (nested structure of the printed tree)
parse_ls_output(text: str) -> dict                (title, type_name, tree, truncated, clipped_lines)
compare_listing(expected: dict, parsed_tree) -> list[str]     (human-readable differences)
note_name(akai_note_byte: int) -> str             (24 -> "C0", 60 -> "C3", 127 -> "G8", 21 -> "A-1")
cents_text(raw_int8: int) -> str                  (how a raw cents byte is printed)
keygroup_block_bytes(kg: dict, next_address: int) -> bytes (150)
program_header_bytes(header, first_keygroup_address, number_of_keygroups) -> bytes (150)
slot_address(slot: int, block_len: int = 150) -> int

File layout
-----------
  0                      program header block   (block_len bytes, default 150)
  block_len * (s + 1)    keygroup slot s         (block_len bytes each)

The header holds the byte address (within the file) of the FIRST keygroup of the chain, each keygroup
holds the byte address of the NEXT keygroup of the chain.  Chain order (= logical order = the order of
``prog["keygroups"]``) is independent of slot order: addresses may point backwards.  The file is as
long as the highest used slot (keygroup or decoy) requires.

Logical model
-------------
  prog = {
    "header": {<HEADER_FIELDS names>: value, ...}          # missing fields take the AKAI defaults below
    "keygroups": [ {"slot": int, <KEYGROUP_FIELDS names>..., "zones": [zone | None, ... up to 4]} ],
    "decoy_slots": {slot: bytes(<= block_len)},            # optional, unused slots only
    "block_len": 150,                                      # optional; 192 = S3000-sized blocks
    "last_next_address": int,                              # optional; NXTKG of the last keygroup of the
                                                           # chain (default: address just past the file)
    "first_keygroup_address": int,                         # optional override (fault injection)
  }
  zone = {"sample_name": str<=12, "low_vel", "high_vel", "tune_cents" (raw int8), "tune_semitones",
          "loudness", "filter", "pan", "loop_mode" 0..4, "constant_pitch" (CPn byte), "aux_out_offset"
          (VZOUTn byte), "vel_to_sample_start" (VSSn int16), "internal": bytes(4)}
  A zone that is None, or whose sample_name is empty / all spaces, is an EMPTY zone: its name field is
  12 AKAI spaces (code 10); a reader must not list it.  Zone slots beyond len(zones) are empty zones
  with default parameters.

Rendering conventions of ``expected_listing`` (how a CORRECT parse is printed by the tool's ``ls``)
  ints -> str(int);  0/non-0 flags -> "False"/"True";  midi_channel 255 -> "Omni";
  aux_output_select 255 -> "Off";  priority 0..3 -> Low/Normal/High/Hold;
  voice_reassign 0/1 -> "Oldest"/"Quietiest" (sic, the tool's label);
  voice_output_scale raw 0/1/2 -> "-6"/"0"/"12";  stereo_output_scale raw 0/1 -> "0"/"6";
  zone loop_mode 0..4 -> "Loop as sample", "Loop in release", "Loop until release", "No loop",
  "Play until end";  cents bytes: raw 0 -> "0", otherwise repr((100/255)*(raw+128) - 50) (the tool's
  linear int8 -> +-50 cent map);  notes: AKAI numbering C0 = 24, C3 = 60, G8 = 127 with the octave
  number changing at C (21, 22, 23 = "A-1", "A#-1", "B-1").
  The per-zone byte CPn is printed by the tool under the key ``enable_key_tracking`` as
  "False" for 0 and "True" otherwise; the oracle follows that labelling (the S1000 parameter list
  describes CPn as "constant pitch, 0=TRACK 1=CONST", so the label reads inverted - noted, not judged).
"""

import re
import struct

BLOCK_LEN = 150
ZONE_LEN = 24
ZONE_SLOTS = 4
ZONE_BASE = 34
AKAI_SPACE = 10

_ALPHABET = "0123456789 ABCDEFGHIJKLMNOPQRSTUVWXYZ#+-."
_ENC = {c: i for i, c in enumerate(_ALPHABET)}


def _encode_name(text, length=12):
    text = text.upper()
    if len(text) > length:
        raise ValueError("name %r longer than %d characters" % (text, length))
    try:
        out = [_ENC[c] for c in text]
    except KeyError as e:
        raise ValueError("character %r of %r is not in the AKAI alphabet" % (e.args[0], text))
    return bytes(out + [AKAI_SPACE] * (length - len(out)))


def _printed_name(text):
    """A stored name as printed: upper-cased, trailing padding spaces removed."""
    return text.upper().rstrip(" ")


# --------------------------------------------------------------------------- layout tables
# (model field, offset, struct format, default, printed key, render kind)

HEADER_FIELDS = (
    ("program_id",           0, "B",   1, "program_id",             "int"),
    # 1..2   first keygroup address, u16le           (computed)
    # 3..14  program name, 12 AKAI characters
    ("midi_program_number", 15, "B",   0, "midi_program_number",    "int"),
    ("midi_channel",        16, "B",   0, "midi_channel",           "midi_channel"),
    ("polyphony",           17, "B",  15, "polyphony",              "int"),
    ("priority",            18, "B",   1, "priority",               "priority"),
    ("low_key",             19, "B",  24, "low_key",                "note"),
    ("high_key",            20, "B", 127, "high_key",               "note"),
    ("octave_shift",        21, "b",   0, "octave_shift",           "int"),
    ("aux_output_select",   22, "B", 255, "aux_output_select",      "aux"),
    ("mix_output_level",    23, "B",  99, "mix_output_level",       "int"),
    ("mix_output_pan",      24, "b",   0, "mix_output_pan",         "int"),
    ("volume",              25, "B",  80, "volume",                 "int"),
    ("vel_to_volume",       26, "b",  20, "vel_to_volume",          "int"),
    ("key_to_volume",       27, "b",   0, "key_to_volume",          "int"),
    ("pres_to_volume",      28, "b",   0, "pres_to_volume",         "int"),
    ("pan_lfo_rate",        29, "B",  50, "pan_lfo_rate",           "int"),
    ("pan_lfo_depth",       30, "B",   0, "pan_lfo_depth",          "int"),
    ("pan_lfo_delay",       31, "B",   0, "pan_lfo_delay",          "int"),
    ("key_to_pan",          32, "b",   0, "key_to_pan",             "int"),
    ("lfo_rate",            33, "B",  50, "lfo_rate",               "int"),
    ("lfo_depth",           34, "B",   0, "lfo_depth",              "int"),
    ("lfo_delay",           35, "B",   0, "lfo_delay",              "int"),
    ("mod_to_lfo_depth",    36, "B",  30, "mod_to_lfo_depth",       "int"),
    ("pres_to_lfo_depth",   37, "B",   0, "pres_to_lfo_depth",      "int"),
    ("vel_to_lfo_depth",    38, "B",   0, "vel_to_lfo_depth",       "int"),
    ("bend_to_pitch",       39, "B",   2, "bend_to_pitch",          "int"),
    ("pres_to_pitch",       40, "b",   0, "pres_to_pitch",          "int"),
    ("keygroup_crossfade",  41, "B",   0, "keygroup_crossfade",     "bool"),
    # 42     number of keygroups                     (computed)
    ("internal_program_number", 43, "B", 0, None,                   None),
    # 44..55 key temperaments, 12 x u8
    ("fx_output",           56, "B",   0, "fx_output",              "bool"),
    ("mod_to_pan",          57, "b",   0, "mod_to_pan",             "int"),
    ("stereo_coherence",    58, "B",   0, "stereo_coherence",       "bool"),
    ("lfo_desync",          59, "B",   1, "lfo_desync",             "bool"),
    ("pitch_law",           60, "B",   0, "pitch_law",              "int"),
    ("voice_reassign",      61, "B",   0, "voice_reassign",         "reassign"),
    ("softped_to_volume",   62, "B",  10, "softped_to_volume",      "int"),
    ("softped_to_attack",   63, "B",  10, "softped_to_attack",      "int"),
    ("softped_to_filter",   64, "B",  10, "softped_to_filter",      "int"),
    ("tune_cents",          65, "b",   0, "tune_cents",             "cents"),
    ("tune_semitones",      66, "b",   0, "tune_semitones",         "int"),
    ("key_to_lfo_rate",     67, "b",   0, "key_to_lfo_rate",        "int"),
    ("key_to_lfo_depth",    68, "b",   0, "key_to_lfo_depth",       "int"),
    ("key_to_lfo_delay",    69, "b",   0, "key_to_lfo_delay",       "int"),
    ("voice_output_scale",  70, "B",   1, "voice_output_scale_db",  "vscale"),
    ("stereo_output_scale", 71, "B",   0, "stereo_output_scale_db", "sscale"),
    # 72..block_len-1  reserved / later-model parameters ("tail", default zeros)
)
HEADER_FIRST_KG_OFFSET = 1
HEADER_NAME_OFFSET = 3
HEADER_GROUPS_OFFSET = 42
HEADER_TEMPER_OFFSET = 44
HEADER_TAIL_OFFSET = 72

KEYGROUP_FIELDS = (
    ("block_id",                   0, "B",   2, "block_id",                          "int"),
    # 1..2   next keygroup address, u16le            (computed)
    ("low_key",                    3, "B",  24, "low_key",                           "note"),
    ("high_key",                   4, "B", 127, "high_key",                          "note"),
    ("tune_cents",                 5, "b",   0, "tune_cents",                        "cents"),
    ("tune_semitones",             6, "b",   0, "tune_semitones",                    "int"),
    ("filter_freq",                7, "B",  99, "filter_cutoff",                     "int"),
    ("key_to_filter_freq",         8, "B",  12, "key_to_filter_cutoff",              "int"),
    ("vel_to_filter_freq",         9, "b",   0, "velocity_to_filter_cutoff",         "int"),
    ("pres_to_filter_freq",       10, "b",   0, "pressure_to_filter_cutoff",         "int"),
    ("env2_to_filter_freq",       11, "b",   0, "env2_to_filter_cutoff",             "int"),
    ("env1_attack",               12, "B",   0, "env1_attack",                       "int"),
    ("env1_decay",                13, "B",  30, "env1_decay",                        "int"),
    ("env1_sustain",              14, "B",  99, "env1_sustain",                      "int"),
    ("env1_release",              15, "B",  45, "env1_release",                      "int"),
    ("env1_vel_to_attack",        16, "b",   0, "env1_velocity_to_attack",           "int"),
    ("env1_vel_to_release",       17, "b",   0, "env1_velocity_to_release",          "int"),
    ("env1_offvel_to_release",    18, "b",   0, "env1_off_velocity_to_release",      "int"),
    ("env1_key_to_decay_release", 19, "b",   0, "env1_key_to_decay_and_release",     "int"),
    ("env2_attack",               20, "B",   0, "env2_attack",                       "int"),
    ("env2_decay",                21, "B",  50, "env2_decay",                        "int"),
    ("env2_sustain",              22, "B",  99, "env2_sustain",                      "int"),
    ("env2_release",              23, "B",  45, "env2_release",                      "int"),
    ("env2_vel_to_attack",        24, "b",   0, "env2_velocity_to_attack",           "int"),
    ("env2_vel_to_release",       25, "b",   0, "env2_velocity_to_release",          "int"),
    ("env2_offvel_to_release",    26, "b",   0, "env2_off_velocity_to_release",      "int"),
    ("env2_key_to_decay_release", 27, "b",   0, "env2_key_to_decay_and_release",     "int"),
    ("vel_to_env2_filter",        28, "b",   0, "velocity_to_env2_to_filter_cutoff", "int"),
    ("env2_to_pitch",             29, "b",   0, "env2_to_pitch",                     "int"),
    ("velocity_zone_crossfade",   30, "B",   1, "velocity_zone_crossfade",           "bool"),
    ("num_velocity_zones",        31, "B",   4, None,                                None),   # zone SLOTS in the block
    ("internal_xfade_left",       32, "B",   0, None,                                None),
    ("internal_xfade_right",      33, "B",   0, None,                                None),
    # 34..129  four velocity zones of 24 bytes
    ("beat_detune",              130, "b",   0, "beat_detune",                       "int"),
    ("hold_attack_until_loop",   131, "B",   0, "hold_attack_until_loop",            "bool"),
    # 132..135 CP1..4, 136..139 VZOUT1..4, 140..147 VSS1..4 (int16le): per-zone arrays
    ("vel_to_loudness_offset",   148, "b",   0, "velocity_to_volume_offset",         "int"),
    ("internal_149",             149, "B",   0, None,                                None),
)
KEYGROUP_NEXT_OFFSET = 1
KEYGROUP_CP_OFFSET = 132        # + zone index, u8
KEYGROUP_VZOUT_OFFSET = 136     # + zone index, u8
KEYGROUP_VSS_OFFSET = 140       # + 2 * zone index, int16le

# zone-relative: (model field, offset in the 24-byte zone, fmt, default, printed key, kind)
ZONE_FIELDS = (
    # 0..11  sample name, 12 AKAI characters
    ("low_vel",        12, "B",   0, "low_velocity",         "int"),
    ("high_vel",       13, "B", 127, "high_velocity",        "int"),
    ("tune_cents",     14, "b",   0, "tune_cents",           "cents"),
    ("tune_semitones", 15, "b",   0, "tune_semitones",       "int"),
    ("loudness",       16, "b",   0, "loudness_offset",      "int"),
    ("filter",         17, "b",   0, "filter_cutoff_offset", "int"),
    ("pan",            18, "b",   0, "pan_offset",           "int"),
    ("loop_mode",      19, "B",   0, "loop_mode",            "loop_mode"),
    # 20..23 internal (velocity cross-fade factors, sample header address)
)
ZONE_INTERNAL_OFFSET = 20
# per-zone arrays living outside the zone block: (model field, default, printed key, kind)
ZONE_ARRAY_FIELDS = (
    ("constant_pitch",      0, "enable_key_tracking",      "bool"),
    ("aux_out_offset",      0, "aux_out_offset",           "int"),
    ("vel_to_sample_start", 0, "velocity_to_sample_start", "int"),
)

_PRIORITY = {0: "Low", 1: "Normal", 2: "High", 3: "Hold"}
_REASSIGN = {0: "Oldest", 1: "Quietiest"}
_VSCALE = {0: "-6", 1: "0", 2: "12"}
_SSCALE = {0: "0", 1: "6"}
_LOOP_MODE = {0: "Loop as sample", 1: "Loop in release", 2: "Loop until release", 3: "No loop",
              4: "Play until end"}
_NOTE_NAMES = ("C", "C#", "D", "D#", "E", "F", "F#", "G", "G#", "A", "A#", "B")


# --------------------------------------------------------------------------- rendering

def note_name(b):
    """AKAI note byte -> printed name; C0 = 24, C3 = 60, G8 = 127, octave changes at C."""
    if not 0 <= b <= 127:
        raise ValueError("note byte %r outside 0..127" % (b,))
    return "%s%d" % (_NOTE_NAMES[b % 12], b // 12 - 2)


def cents_text(raw):
    """Printed form of a raw int8 cents byte (linear -128..127 -> -50..+50, 0 stays the int 0)."""
    if not -128 <= raw <= 127:
        raise ValueError("cents byte %r outside int8" % (raw,))
    if raw == 0:
        return "0"
    return repr((100 / 255) * (raw + 128) - 50)


def _enum_text(table, what):
    def f(v):
        if v not in table:
            raise ValueError("%s value %r has no defined meaning (expected one of %r)"
                             % (what, v, sorted(table)))
        return table[v]
    return f


_RENDER = {
    "int": lambda v: str(int(v)),
    "bool": lambda v: "False" if v == 0 else "True",
    "note": note_name,
    "midi_channel": lambda v: "Omni" if v == 255 else str(int(v)),
    "aux": lambda v: "Off" if v == 255 else str(int(v)),
    "priority": _enum_text(_PRIORITY, "priority"),
    "reassign": _enum_text(_REASSIGN, "voice_reassign"),
    "vscale": _enum_text(_VSCALE, "voice_output_scale"),
    "sscale": _enum_text(_SSCALE, "stereo_output_scale"),
    "loop_mode": _enum_text(_LOOP_MODE, "loop_mode"),
    "cents": cents_text,
}


# --------------------------------------------------------------------------- serialiser

def _put(buf, off, fmt, value, what):
    if isinstance(value, bool):
        value = int(value)
    try:
        struct.pack_into("<" + fmt, buf, off, value)
    except struct.error as e:
        raise ValueError("%s = %r does not fit format %r: %s" % (what, value, fmt, e))


def _fill(buf, table, model, what):
    known = set()
    for name, off, fmt, default, _key, _kind in table:
        known.add(name)
        _put(buf, off, fmt, model.get(name, default), "%s.%s" % (what, name))
    return known


def slot_address(slot, block_len=BLOCK_LEN):
    """Byte address within the program file of keygroup slot `slot` (0 = right after the header)."""
    if not isinstance(slot, int) or isinstance(slot, bool) or slot < 0:
        raise ValueError("slot %r is not a non-negative int" % (slot,))
    return block_len * (slot + 1)


def program_header_bytes(header, first_keygroup_address, number_of_keygroups):
    """The 150-byte program header block."""
    header = dict(header or {})
    buf = bytearray(BLOCK_LEN)
    known = _fill(buf, HEADER_FIELDS, header, "header")
    _put(buf, HEADER_FIRST_KG_OFFSET, "H", first_keygroup_address, "first keygroup address")
    buf[HEADER_NAME_OFFSET:HEADER_NAME_OFFSET + 12] = _encode_name(header.get("program_name", ""), 12)
    _put(buf, HEADER_GROUPS_OFFSET, "B", header.get("number_of_keygroups", number_of_keygroups),
         "number of keygroups")
    temper = list(header.get("key_temperaments", [0] * 12))
    if len(temper) != 12:
        raise ValueError("key_temperaments must have 12 entries, got %d" % len(temper))
    for i, t in enumerate(temper):
        _put(buf, HEADER_TEMPER_OFFSET + i, "B", t, "header.key_temperaments[%d]" % i)
    tail = bytes(header.get("tail", b""))
    if len(tail) > BLOCK_LEN - HEADER_TAIL_OFFSET:
        raise ValueError("header tail longer than %d bytes" % (BLOCK_LEN - HEADER_TAIL_OFFSET))
    buf[HEADER_TAIL_OFFSET:HEADER_TAIL_OFFSET + len(tail)] = tail
    unknown = set(header) - known - {"program_name", "key_temperaments", "tail", "number_of_keygroups"}
    if unknown:
        raise ValueError("unknown header fields %r" % sorted(unknown))
    return bytes(buf)


def _zone_is_empty(z):
    return z is None or _printed_name(z.get("sample_name", "")) == ""


def _zone_slots(kg):
    zones = list(kg.get("zones", []))
    if len(zones) > ZONE_SLOTS:
        raise ValueError("a keygroup has %d zone slots, %d zones given" % (ZONE_SLOTS, len(zones)))
    return zones + [None] * (ZONE_SLOTS - len(zones))


def keygroup_block_bytes(kg, next_address):
    """The 150-byte keygroup block; `next_address` goes into the next-keygroup-address field."""
    buf = bytearray(BLOCK_LEN)
    known = _fill(buf, KEYGROUP_FIELDS, kg, "keygroup")
    _put(buf, KEYGROUP_NEXT_OFFSET, "H", next_address, "next keygroup address")
    zone_known = {n for n, *_ in ZONE_FIELDS} | {n for n, *_ in ZONE_ARRAY_FIELDS} | {"sample_name", "internal"}
    for i, z in enumerate(_zone_slots(kg)):
        base = ZONE_BASE + ZONE_LEN * i
        zd = dict(z or {})
        unknown = set(zd) - zone_known
        if unknown:
            raise ValueError("unknown zone fields %r" % sorted(unknown))
        name = "" if _zone_is_empty(z) else zd["sample_name"]
        buf[base:base + 12] = _encode_name(name, 12)
        for fname, off, fmt, default, _key, _kind in ZONE_FIELDS:
            _put(buf, base + off, fmt, zd.get(fname, default), "zone[%d].%s" % (i, fname))
        internal = bytes(zd.get("internal", b"\x00" * 4))
        if len(internal) != 4:
            raise ValueError("zone[%d].internal must be 4 bytes" % i)
        buf[base + ZONE_INTERNAL_OFFSET:base + ZONE_LEN] = internal
        _put(buf, KEYGROUP_CP_OFFSET + i, "B", zd.get("constant_pitch", 0), "zone[%d].constant_pitch" % i)
        _put(buf, KEYGROUP_VZOUT_OFFSET + i, "B", zd.get("aux_out_offset", 0), "zone[%d].aux_out_offset" % i)
        _put(buf, KEYGROUP_VSS_OFFSET + 2 * i, "h", zd.get("vel_to_sample_start", 0),
             "zone[%d].vel_to_sample_start" % i)
    unknown = set(kg) - known - {"slot", "zones"}
    if unknown:
        raise ValueError("unknown keygroup fields %r" % sorted(unknown))
    return bytes(buf)


def program_body_bytes(prog):
    """Serialise the logical program model into the complete program file body."""
    block_len = prog.get("block_len", BLOCK_LEN)
    if block_len < BLOCK_LEN:
        raise ValueError("block_len %r smaller than %d" % (block_len, BLOCK_LEN))
    keygroups = list(prog.get("keygroups", []))
    decoys = dict(prog.get("decoy_slots") or {})
    used = {}
    for i, kg in enumerate(keygroups):
        if "slot" not in kg:
            raise ValueError("keygroup %d has no 'slot'" % i)
        s = kg["slot"]
        slot_address(s, block_len)
        if s in used:
            raise ValueError("slot %d used by keygroups %d and %d" % (s, used[s], i))
        used[s] = i
    for s in decoys:
        slot_address(s, block_len)
        if s in used:
            raise ValueError("decoy slot %d is used by keygroup %d" % (s, used[s]))
        if len(bytes(decoys[s])) > block_len:
            raise ValueError("decoy slot %d longer than a block" % s)
    nslots = max(list(used) + list(decoys) + [-1]) + 1
    total = block_len * (nslots + 1)
    if total > 0xFFFF:
        raise ValueError("program of %d bytes: addresses do not fit the u16 fields" % total)
    out = bytearray(total)

    first = slot_address(keygroups[0]["slot"], block_len) if keygroups else block_len
    first = prog.get("first_keygroup_address", first)
    out[0:BLOCK_LEN] = program_header_bytes(prog.get("header"), first, len(keygroups))
    for s, blob in decoys.items():
        a = slot_address(s, block_len)
        blob = bytes(blob)
        out[a:a + len(blob)] = blob
    for i, kg in enumerate(keygroups):
        if i + 1 < len(keygroups):
            nxt = slot_address(keygroups[i + 1]["slot"], block_len)
        else:
            nxt = prog.get("last_next_address", total)
        a = slot_address(kg["slot"], block_len)
        out[a:a + BLOCK_LEN] = keygroup_block_bytes(kg, nxt)
    return bytes(out)


# --------------------------------------------------------------------------- oracle

def _render_table(table, model, what):
    out = {}
    for name, _off, _fmt, default, key, kind in table:
        if key is None:
            continue
        v = model.get(name, default)
        if isinstance(v, bool):
            v = int(v)
        try:
            out[key] = _RENDER[kind](v)
        except ValueError as e:
            raise ValueError("%s.%s: %s" % (what, name, e))
    return out


def expected_listing(prog, file_name, file_type=0xF0):
    """What `ls <partition>:/<volume>/<file_name>` must print for `prog`.

    Returns {
      "title": file_name as printed, "type_name": "S3000 Program" | "S1000 Program",
      "header": {printed key: text, ..., "key_temperaments": [12 texts]}   (print order),
      "number_of_keygroups": int,
      "keygroups": [ {"fields": {printed key: text} (print order),
                      "zones":  [ {printed key: text} ... ] } ... ]          (chain order; zones =
                      the non-empty zones in stored order, first key "sample_name"),
      "file_name": text,
      "tree": the complete expected tree in the shape parse_ls_tree returns }
    """
    header = dict(prog.get("header") or {})
    keygroups = list(prog.get("keygroups", []))
    hdr = {}
    rendered = _render_table(HEADER_FIELDS, header, "header")
    for name, _off, _fmt, _default, key, _kind in HEADER_FIELDS:
        if key is None:
            continue
        hdr[key] = rendered[key]
        if key == "program_id":
            hdr["program_name"] = _printed_name(header.get("program_name", ""))
        if key == "keygroup_crossfade":
            hdr["number_of_keygroups"] = str(len(keygroups))
            hdr["key_temperaments"] = [str(int(t)) for t in header.get("key_temperaments", [0] * 12)]
    kgs = []
    for ki, kg in enumerate(keygroups):
        fields = _render_table(KEYGROUP_FIELDS, kg, "keygroups[%d]" % ki)
        zones = []
        for zi, z in enumerate(_zone_slots(kg)):
            if _zone_is_empty(z):
                continue
            what = "keygroups[%d].zones[%d]" % (ki, zi)
            zt = {"sample_name": _printed_name(z["sample_name"])}
            zt.update(_render_table(ZONE_FIELDS, z, what))
            for name, default, key, kind in ZONE_ARRAY_FIELDS:
                zt[key] = _RENDER[kind](int(z.get(name, default)))
            zones.append(zt)
        kgs.append({"fields": fields, "zones": zones})

    tree = dict(hdr)
    tree_kgs = []
    for k in kgs:
        d = dict(k["fields"])
        d["velocity_zones"] = [dict(z) for z in k["zones"]] if k["zones"] else "None"
        tree_kgs.append(d)
    tree["keygroups"] = tree_kgs if tree_kgs else "None"
    tree["file_name"] = _printed_name(file_name)
    type_names = {0xF0: "S3000 Program", 0x70: "S1000 Program"}
    if file_type not in type_names:
        raise ValueError("file type %r is not a program type" % (file_type,))
    return {"title": _printed_name(file_name), "type_name": type_names[file_type],
            "header": hdr, "number_of_keygroups": len(keygroups), "keygroups": kgs,
            "file_name": _printed_name(file_name), "tree": tree}


# --------------------------------------------------------------------------- ls text parser

_LINE = re.compile(r"^((?:  )*)([^\s:][^\s]*?):(?: (.*))?$")
_ITEM = re.compile(r"^(.*)\[(\d+)\]$")
_TRUNC = re.compile(r"^\(\.\.\.\) exceeded (\d+) lines$")


def parse_ls_output(text):
    """Parse the complete text printed by `ls` for a leaf element.

    Returns {"title": str | None, "type_name": str | None, "tree": nested dict/list,
             "truncated": bool (the tool stopped after its row limit),
             "clipped_lines": [line numbers cut to 80 columns with '...'], "unparsed": [lines]}.
    Tree conventions: `key: value` -> {"key": "value"} (value keeps inner/leading spaces; `key: ` ->
    ""); `key:` followed by deeper lines -> nested dict, or a list when all children are `key[i]:`
    items (ordered by i); an empty container is printed by the tool as `key: None` -> "None".
    """
    lines = text.split("\n")
    title = type_name = None
    start = 0
    for i, ln in enumerate(lines[:3]):
        if len(ln) >= 10 and set(ln) == {"-"}:
            if i >= 1:
                parts = lines[i - 1].rsplit("    ", 1)      # name + " " + "  " + " " + type name
                if len(parts) == 2:
                    title, type_name = parts[0], parts[1].strip()
                else:
                    title = lines[i - 1]
            start = i + 1
            break
    root = {}
    stack = [(-1, root)]            # (depth, container dict)
    truncated = False
    clipped, unparsed = [], []
    for n, ln in enumerate(lines[start:], start=start + 1):
        if ln == "":
            continue
        if _TRUNC.match(ln):
            truncated = True
            continue
        if len(ln) == 80 and ln.endswith("..."):
            clipped.append(n)
        m = _LINE.match(ln)
        if not m:
            unparsed.append(ln)
            continue
        depth = len(m.group(1)) // 2
        key, val = m.group(2), m.group(3)
        while stack[-1][0] >= depth:
            stack.pop()
        parent = stack[-1][1]
        if val is None:
            child = {}
            parent[key] = child
            stack.append((depth, child))
        else:
            parent[key] = val

    def fold(node, own_key):
        if not isinstance(node, dict):
            return node
        items = []
        for k, v in node.items():
            m2 = _ITEM.match(k)
            if not (m2 and m2.group(1) == own_key):
                items = None
                break
            items.append((int(m2.group(2)), v))
        if items and [i for i, _v in items] == list(range(len(items))):
            return [fold(v, "%s[%d]" % (own_key, i)) for i, v in items]
        return {k: fold(v, k) for k, v in node.items()}

    tree = {k: fold(v, k) for k, v in root.items()}
    return {"title": title, "type_name": type_name, "tree": tree, "truncated": truncated,
            "clipped_lines": clipped, "unparsed": unparsed}


def parse_ls_tree(text):
    """Nested dict/list structure of the tree printed by `ls` (title and divider lines skipped)."""
    return parse_ls_output(text)["tree"]


# --------------------------------------------------------------------------- comparison

def _diff(exp, got, where, out):
    if isinstance(exp, dict):
        if not isinstance(got, dict):
            out.append("%s: expected a mapping with keys %r, tool printed %r" % (where, list(exp), got))
            return
        for k in exp:
            if k not in got:
                out.append("%s.%s: not printed (expected %r)" % (where, k, exp[k]))
            else:
                _diff(exp[k], got[k], "%s.%s" % (where, k), out)
        for k in got:
            if k not in exp:
                out.append("%s.%s: printed %r but not expected" % (where, k, got[k]))
        ek = [k for k in exp if k in got]
        gk = [k for k in got if k in exp]
        if ek != gk:
            out.append("%s: key order differs: expected %r, printed %r" % (where, ek, gk))
    elif isinstance(exp, list):
        if not isinstance(got, list):
            out.append("%s: expected %d items, tool printed %r" % (where, len(exp), got))
            return
        if len(exp) != len(got):
            out.append("%s: expected %d items, tool printed %d" % (where, len(exp), len(got)))
        for i, (e, g) in enumerate(zip(exp, got)):
            _diff(e, g, "%s[%d]" % (where, i), out)
    else:
        if exp != got:
            out.append("%s: expected %r, tool printed %r" % (where, exp, got))


def compare_listing(expected, parsed_tree):
    """Differences between expected_listing(...) and parse_ls_tree(...) as readable strings
    (empty list = the listing agrees in every header field, keygroup count, keygroup field, zone)."""
    out = []
    tree = parsed_tree
    if not isinstance(tree, dict):
        return ["tool output is not a key/value tree: %r" % (tree,)]
    kgs = tree.get("keygroups")
    n = len(kgs) if isinstance(kgs, list) else 0
    if n != expected["number_of_keygroups"]:
        out.append("keygroups: expected %d listed, tool listed %d" % (expected["number_of_keygroups"], n))
    _diff(expected["tree"], tree, "program", out)
    return out
