"""Independent writer of AKAI S1000/S3000 hard-disk images (stdlib only).

The on-disk layout below is written from the format description, *not* from the
declarations of the package under test; nothing of ``smpl_extract`` is imported.

Public API
----------
build_akai_image(model)      -> bytes
build_akai_image_ex(model)   -> (bytes, layout)
wrap_2352(raw)               -> bytes      MODE1/2352 raw-sector container
wrap_mdx(raw)                -> bytes      Alcohol MDX container (64-byte header)
akai_encode_name(text, n=12) -> bytes      AKAI character coding, padded with 10
akai_decode_name(raw)        -> str
sample_header_bytes(header, default_name="", default_id=3, pcm_len=0) -> bytes (140)
sector_offset(layout, p, sector) -> absolute byte offset of a partition sector
entry_byte_offsets(layout, p, v, f) -> the 24 absolute offsets of a file's directory entry
model_from_json / model_to_json : pcm/data <-> hex strings

Logical model (see module docstring of the task; summary):

  {"partitions": [{"size_sectors": int?, "volumes": [{
        "name", "type": 1|3, "dir_mode": "chain"|"reserved", "dir_sectors": [..]?,
        "type_raw": int?            # full u16 type field (default = type)
        "dir_packing": "stream"|"sector"   # default "stream": the directory is the byte stream over
                                    # its chain, entry k at stream offset 24*k (an entry may straddle
                                    # two sectors: 8192 = 341*24 + 8).  "sector": 341 whole entries
                                    # per sector, 8 slack bytes at the end of each sector.
        "files": [{"name", "type", "raw_name"?, "header"?, "pcm"?, "data"?,
                   "sectors"?, "size"?, "start_sector"?}]}]}]}

``data`` (bytes), when present, is the complete file body and replaces
header+pcm (used for non-sample files).

Geometry: sector = 8192 bytes; sector numbers are relative to the partition;
partitions are laid out back to back.

  0      u16le size (sectors), 00 00, 194-byte magic, 2 checksum bytes, 2F 00   (202 bytes)
  202    100 volume entries x 16: name[12], type u16le, start u16le            (1600 bytes)
  1802   11386 SAT words u16le                                                  (22772 bytes)
  24574  = 3 * 8192 - 2
"""

import json
import struct

SECTOR = 8192
HEADER_LEN = 202
VOLUME_ENTRIES = 100
VOLUME_ENTRY_LEN = 16
VOLUME_TABLE_OFFSET = HEADER_LEN
SAT_OFFSET = VOLUME_TABLE_OFFSET + VOLUME_ENTRIES * VOLUME_ENTRY_LEN   # 1802
SAT_WORDS = 11386
FIRST_DATA_SECTOR = 3

SAT_FREE = 0x0000
SAT_RESERVED = 0x4000
SAT_END = 0xC000

FILE_ENTRY_LEN = 24
ENTRIES_PER_DIR_SECTOR = SECTOR // FILE_ENTRY_LEN      # 341
DIR_END_MARK = 0xD747                                   # u16le at offset 8 of the entry
SAMPLE_HEADER_LEN = 140

assert SAT_OFFSET + 2 * SAT_WORDS == 3 * SECTOR - 2

_ALPHABET = "0123456789 ABCDEFGHIJKLMNOPQRSTUVWXYZ#+-."
_ENC = {c: i for i, c in enumerate(_ALPHABET)}
AKAI_SPACE = 10


# --------------------------------------------------------------------------- names

def akai_encode_name(text, length=12):
    """AKAI-code `text` (upper-cased) and pad with the AKAI space (10) to `length`."""
    text = text.upper()
    if len(text) > length:
        raise ValueError("name %r longer than %d characters" % (text, length))
    try:
        out = [_ENC[c] for c in text]
    except KeyError as e:
        raise ValueError("character %r of %r is not in the AKAI alphabet" % (e.args[0], text))
    out += [AKAI_SPACE] * (length - len(out))
    return bytes(out)


def akai_decode_name(raw):
    """Inverse of akai_encode_name (keeps padding); raises ValueError on codes > 40."""
    try:
        return "".join(_ALPHABET[b] for b in raw)
    except IndexError:
        raise ValueError("byte outside the AKAI alphabet in %r" % (bytes(raw),))


# --------------------------------------------------------------------------- helpers

def _as_bytes(v, what):
    if v is None:
        return b""
    if isinstance(v, (bytes, bytearray, memoryview)):
        return bytes(v)
    if isinstance(v, str):
        return bytes.fromhex(v)
    if isinstance(v, (list, tuple)):
        return bytes(v)
    raise ValueError("%s: cannot interpret %r as bytes" % (what, type(v)))


def partition_magic():
    return b"".join(struct.pack("<H", (3333 * i) & 0xFFFF) for i in range(1, 98))


def partition_header_bytes(size_sectors):
    if not 0 < size_sectors <= 0xFFFF:
        raise ValueError("partition size %r does not fit the u16 size field" % (size_sectors,))
    x = size_sectors // 128 - 1
    c1 = 0x55 if x % 2 == 0 else 0xD5
    c2 = (x // 2 + 0xBA) & 0xFF
    out = struct.pack("<H", size_sectors) + b"\x00\x00" + partition_magic() + bytes([c1, c2]) + b"\x2F\x00"
    assert len(out) == HEADER_LEN
    return out


def sample_header_bytes(header=None, default_name="", default_id=3, pcm_len=0):
    """The 140-byte sample header.

    Defaults: id=default_id, pitch=60, sample_name=default_name, loop_type=2 (no loop),
    cents=semi=0, count=pcm_len//2, start=0, end=count, no loops, rate=44100.
    """
    h = dict(header or {})
    count = h.get("count", pcm_len // 2)
    start = h.get("start", 0)
    end = h.get("end", count)
    loops = list(h.get("loops", []))
    if len(loops) > 8:
        raise ValueError("at most 8 loop entries")
    out = bytearray()
    out += struct.pack("<B", h.get("id", default_id))          # 0
    out += b"\x00"                                              # 1
    out += struct.pack("<B", h.get("pitch", 60))                # 2
    if "raw_sample_name" in h:
        rn = bytes(h["raw_sample_name"])
        if len(rn) != 12:
            raise ValueError("raw_sample_name must be 12 bytes")
        out += rn
    else:
        out += akai_encode_name(h.get("sample_name", default_name), 12)   # 3..14
    out += b"\x00" * 4                                          # 15..18
    out += struct.pack("<Bbb", h.get("loop_type", 2), h.get("cents", 0), h.get("semi", 0))  # 19,20,21
    out += b"\x00" * 4                                          # 22..25
    out += struct.pack("<III", count, start, end)               # 26..37
    for lp in loops:                                            # 38..133
        out += struct.pack("<IHIH", lp.get("at", 0), lp.get("fine", 0),
                           lp.get("coarse", 0), lp.get("duration", 0))
    out += b"\x00" * (12 * (8 - len(loops)))
    out += b"\x00" * 4                                          # 134..137
    out += struct.pack("<H", h.get("rate", 44100))              # 138..139
    assert len(out) == SAMPLE_HEADER_LEN
    return bytes(out)


def file_body_bytes(f):
    """Complete stored content of a model file (header + pcm, or raw `data`)."""
    if "data" in f and f["data"] is not None:
        return _as_bytes(f["data"], "data")
    pcm = _as_bytes(f.get("pcm"), "pcm")
    ftype = f.get("type", 0xF3)
    default_id = 3 if (ftype & 0x80) else 1
    name = f.get("name", "")
    try:
        akai_encode_name(name, 12)
        default_name = name
    except ValueError:
        default_name = ""
    return sample_header_bytes(f.get("header"), default_name, default_id, len(pcm)) + pcm


def file_entry_bytes(f, size, start):
    if "raw_name" in f and f["raw_name"] is not None:
        name = bytes(f["raw_name"])
        if len(name) != 12:
            raise ValueError("raw_name must be exactly 12 bytes")
    else:
        name = akai_encode_name(f.get("name", ""), 12)
    ftype = f.get("type", 0xF3)
    if not 0 <= ftype <= 0xFF:
        raise ValueError("file type must fit one byte")
    if not 0 <= size < (1 << 24):
        raise ValueError("file size %d does not fit the 24-bit size field" % size)
    out = name + b"\x00" * 4 + bytes([ftype]) + size.to_bytes(3, "little") + struct.pack("<H", start) + b"\x00\x00"
    assert len(out) == FILE_ENTRY_LEN
    return out


def dir_terminator_bytes():
    e = bytearray(FILE_ENTRY_LEN)
    struct.pack_into("<H", e, 8, DIR_END_MARK)
    return bytes(e)


# --------------------------------------------------------------------------- allocator

class _Allocator:
    def __init__(self):
        self.owner = {0: "system", 1: "system", 2: "system"}
        self.reserved = {0, 1, 2}          # sectors flagged 0x4000

    def claim(self, sectors, who, reserved=False):
        seen = set()
        for s in sectors:
            if not isinstance(s, int) or isinstance(s, bool):
                raise ValueError("%s: sector %r is not an int" % (who, s))
            if not FIRST_DATA_SECTOR <= s < SAT_WORDS:
                raise ValueError("%s: sector %d outside %d..%d" % (who, s, FIRST_DATA_SECTOR, SAT_WORDS - 1))
            if s in seen:
                raise ValueError("%s: sector %d listed twice" % (who, s))
            if s in self.owner:
                raise ValueError("%s: sector %d already used by %s" % (who, s, self.owner[s]))
            seen.add(s)
        for s in sectors:
            self.owner[s] = who
            if reserved:
                self.reserved.add(s)

    def take_lowest(self, n, who):
        out = []
        s = FIRST_DATA_SECTOR
        while len(out) < n:
            if s >= SAT_WORDS:
                raise ValueError("%s: partition full" % who)
            if s not in self.owner:
                out.append(s)
            s += 1
        self.claim(out, who)
        return out

    def take_reserved_run(self, n, who):
        """Lowest run of n consecutive free sectors that does not merge with another
        directory's 0x4000 run (the system sectors 0..2 in front are harmless: a chain
        read starts at the volume's own first sector)."""
        s = FIRST_DATA_SECTOR
        while s + n <= SAT_WORDS:
            run = range(s, s + n)
            if all(t not in self.owner for t in run) \
                    and ((s - 1) <= 2 or (s - 1) not in self.reserved) \
                    and (s + n) not in self.reserved:
                out = list(run)
                self.claim(out, who, reserved=True)
                return out
            s += 1
        raise ValueError("%s: no room for a reserved run of %d sectors" % (who, n))

    def highest(self):
        return max(self.owner)


def _dir_entry_pos(k, packing):
    """Offset of entry k in the byte stream over the directory chain."""
    if packing == "sector":
        return (k // ENTRIES_PER_DIR_SECTOR) * SECTOR + (k % ENTRIES_PER_DIR_SECTOR) * FILE_ENTRY_LEN
    return k * FILE_ENTRY_LEN


def _dir_capacity(nsectors, packing):
    if packing == "sector":
        return nsectors * ENTRIES_PER_DIR_SECTOR
    return nsectors * SECTOR // FILE_ENTRY_LEN


def _dir_sectors_for(nentries, packing):
    """Smallest number of sectors holding `nentries` entries plus the terminator."""
    n = 1
    while _dir_capacity(n, packing) < nentries + 1:
        n += 1
    return n


def _sectors_needed(nbytes):
    return max(1, -(-nbytes // SECTOR))


# --------------------------------------------------------------------------- partitions

def _build_partition(pmodel, pindex, base_offset):
    volumes = pmodel.get("volumes", [])
    if len(volumes) > VOLUME_ENTRIES:
        raise ValueError("partition %d: more than %d volumes" % (pindex, VOLUME_ENTRIES))
    alloc = _Allocator()

    # pass 1: explicit placements are claimed first so that automatic allocation avoids them
    plan = []
    for vi, v in enumerate(volumes):
        files = v.get("files", [])
        mode = v.get("dir_mode", "chain")
        if mode not in ("chain", "reserved"):
            raise ValueError("volume %d: dir_mode %r" % (vi, mode))
        packing = v.get("dir_packing", "stream")
        if packing not in ("stream", "sector"):
            raise ValueError("volume %d: dir_packing %r" % (vi, packing))
        vplan = {"mode": mode, "dir": None, "files": [], "packing": packing}
        if v.get("dir_sectors") is not None:
            ds = list(v["dir_sectors"])
            if not ds:
                raise ValueError("volume %d: empty dir_sectors" % vi)
            if _dir_capacity(len(ds), packing) < len(files):
                raise ValueError("volume %d: dir_sectors cannot hold %d entries" % (vi, len(files)))
            if mode == "reserved" and any(b != a + 1 for a, b in zip(ds, ds[1:])):
                raise ValueError("volume %d: a reserved directory must use consecutive ascending sectors" % vi)
            alloc.claim(ds, "P%d/V%d/dir" % (pindex, vi), reserved=(mode == "reserved"))
            vplan["dir"] = ds
        for fi, f in enumerate(files):
            body = file_body_bytes(f)
            fplan = {"body": body, "sectors": None}
            if f.get("sectors") is not None:
                fs = list(f["sectors"])
                if len(fs) < _sectors_needed(len(body)):
                    raise ValueError("P%d/V%d/F%d: %d sectors cannot hold %d bytes"
                                     % (pindex, vi, fi, len(fs), len(body)))
                alloc.claim(fs, "P%d/V%d/F%d" % (pindex, vi, fi))
                fplan["sectors"] = fs
            vplan["files"].append(fplan)
        plan.append(vplan)

    # pass 2: automatic allocation, volume by volume: directory first, then files in order
    for vi, (v, vplan) in enumerate(zip(volumes, plan)):
        if vplan["dir"] is None:
            n = _dir_sectors_for(len(vplan["files"]), vplan["packing"])   # room for the terminator
            who = "P%d/V%d/dir" % (pindex, vi)
            if vplan["mode"] == "reserved":
                vplan["dir"] = alloc.take_reserved_run(n, who)
            else:
                vplan["dir"] = alloc.take_lowest(n, who)
        for fi, fplan in enumerate(vplan["files"]):
            if fplan["sectors"] is None:
                fplan["sectors"] = alloc.take_lowest(_sectors_needed(len(fplan["body"])),
                                                     "P%d/V%d/F%d" % (pindex, vi, fi))

    used = alloc.highest() + 1
    size = pmodel.get("size_sectors")
    if size is None:
        size = max(128, -(-used // 128) * 128)
    if size < used:
        raise ValueError("partition %d: size_sectors %d smaller than the %d sectors used" % (pindex, size, used))

    img = bytearray(size * SECTOR)
    img[0:HEADER_LEN] = partition_header_bytes(size)

    sat = [SAT_FREE] * SAT_WORDS
    sat[0] = sat[1] = sat[2] = SAT_RESERVED

    def link_chain(chain):
        for a, b in zip(chain, chain[1:]):
            sat[a] = b
        sat[chain[-1]] = SAT_END

    playout = {"offset": base_offset, "size_sectors": size,
               "volume_table_offset": base_offset + VOLUME_TABLE_OFFSET,
               "sat_offset": base_offset + SAT_OFFSET, "volumes": []}

    for vi in range(VOLUME_ENTRIES):
        off = VOLUME_TABLE_OFFSET + vi * VOLUME_ENTRY_LEN
        if vi >= len(volumes):
            img[off:off + VOLUME_ENTRY_LEN] = bytes([AKAI_SPACE]) * 12 + b"\x00\x00\x00\x00"
            continue
        v, vplan = volumes[vi], plan[vi]
        ds = vplan["dir"]
        vtype = v.get("type_raw", v.get("type", 3))
        if "raw_name" in v and v["raw_name"] is not None:
            vname = bytes(v["raw_name"])
            if len(vname) != 12:
                raise ValueError("volume raw_name must be 12 bytes")
        else:
            vname = akai_encode_name(v.get("name", ""), 12)
        vstart = v.get("start_sector", ds[0])
        img[off:off + VOLUME_ENTRY_LEN] = vname + struct.pack("<HH", vtype, vstart)

        if vplan["mode"] == "reserved":
            for s in ds:
                sat[s] = SAT_RESERVED
        else:
            link_chain(ds)

        packing = vplan["packing"]

        def put_dir(pos, blob):
            """Write blob at stream offset pos of the directory chain; returns absolute spans."""
            spans = []
            while blob:
                k, o = divmod(pos, SECTOR)
                n = min(len(blob), SECTOR - o)
                a = ds[k] * SECTOR + o
                img[a:a + n] = blob[:n]
                spans.append((base_offset + a, n))
                pos, blob = pos + n, blob[n:]
            return spans

        vlayout = {"entry_offset": base_offset + off, "dir_sectors": list(ds),
                   "dir_mode": vplan["mode"], "dir_packing": packing, "files": [],
                   "terminator_offset": None}
        files = v.get("files", [])
        for fi, (f, fplan) in enumerate(zip(files, vplan["files"])):
            body, chain = fplan["body"], fplan["sectors"]
            link_chain(chain)
            for k, s in enumerate(chain):
                chunk = body[k * SECTOR:(k + 1) * SECTOR]
                img[s * SECTOR:s * SECTOR + len(chunk)] = chunk
            fsize = f.get("size", len(body))
            fstart = f.get("start_sector", chain[0])
            spans = put_dir(_dir_entry_pos(fi, packing), file_entry_bytes(f, fsize, fstart))
            vlayout["files"].append({"sectors": list(chain), "entry_offset": spans[0][0],
                                     "entry_spans": spans, "size": fsize, "start": fstart,
                                     "body_len": len(body)})
        k = len(files)
        if k < _dir_capacity(len(ds), packing):
            spans = put_dir(_dir_entry_pos(k, packing), dir_terminator_bytes())
            vlayout["terminator_offset"] = spans[0][0]
            vlayout["terminator_spans"] = spans
        playout["volumes"].append(vlayout)

    img[SAT_OFFSET:SAT_OFFSET + 2 * SAT_WORDS] = struct.pack("<%dH" % SAT_WORDS, *sat)
    playout["sat"] = sat
    return bytes(img), playout


def build_akai_image_ex(model):
    """Serialise `model`; returns (image bytes, layout).

    layout["partitions"][p] = {"offset", "size_sectors", "volume_table_offset", "sat_offset",
        "sat": [11386 ints],
        "volumes": [{"entry_offset", "dir_sectors", "dir_mode", "dir_packing", "terminator_offset",
                     "files": [{"sectors", "entry_offset", "entry_spans", "size", "start", "body_len"}]}]}
    All *_offset values are absolute byte offsets into the returned image.  With stream packing an
    entry can straddle two directory sectors: "entry_offset" is the offset of its first byte and
    "entry_spans" = [(absolute offset, length), ...] covers all 24 bytes (see entry_byte_offsets).
    """
    out = bytearray()
    layout = {"partitions": [], "sector_size": SECTOR}
    for pi, p in enumerate(model.get("partitions", [])):
        raw, pl = _build_partition(p, pi, len(out))
        out += raw
        layout["partitions"].append(pl)
    layout["image_len"] = len(out)
    return bytes(out), layout


def build_akai_image(model):
    return build_akai_image_ex(model)[0]


def sector_offset(layout, p, sector):
    """Absolute byte offset of `sector` of partition `p`."""
    return layout["partitions"][p]["offset"] + sector * SECTOR


def entry_byte_offsets(layout, p, v, f):
    """The 24 absolute byte offsets of the directory entry of file f (handles straddling entries)."""
    out = []
    for a, n in layout["partitions"][p]["volumes"][v]["files"][f]["entry_spans"]:
        out.extend(range(a, a + n))
    return out


# --------------------------------------------------------------------------- containers

def _bcd(n):
    return ((n // 10) % 10) << 4 | (n % 10)


def wrap_2352(raw, first_address=150):
    """MODE1/2352: 12-byte sync, 3-byte BCD MSF address (LBA+150), mode 01, 2048 body, 288 trailer.
    `first_address`: the absolute address (in frames) of the first sector - 150 = 00:02:00 for a data track at the very
    start of the disc, anything later for a track dumped from behind other tracks or from a second session."""
    raw = bytes(raw)
    if len(raw) % 2048:
        raw += b"\x00" * (2048 - len(raw) % 2048)
    sync = b"\x00" + b"\xFF" * 10 + b"\x00"
    out = bytearray()
    for lba in range(len(raw) // 2048):
        a = lba + first_address
        mm, ss, ff = a // (75 * 60), (a // 75) % 60, a % 75
        out += sync + bytes([_bcd(mm), _bcd(ss), _bcd(ff)]) + b"\x01"
        out += raw[lba * 2048:(lba + 1) * 2048]
        out += b"\x00" * 288
    assert len(out) == (len(raw) // 2048) * 2352
    return bytes(out)


def wrap_mdx(raw):
    """Alcohol MDX: 64-byte header then the raw image."""
    raw = bytes(raw)
    hdr = b"MEDIA DESCRIPTOR" + b"\x02\x01" + b"\xA9" + b" " * 25 + b"\xFF" * 4 \
        + struct.pack("<Q", 64 + len(raw)) + b"\x00" * 8
    assert len(hdr) == 64
    return hdr + raw


# --------------------------------------------------------------------------- JSON

def model_to_json(model):
    def enc(o):
        if isinstance(o, (bytes, bytearray)):
            return bytes(o).hex()
        raise TypeError(type(o))
    return json.dumps(model, default=enc)


def model_from_json(text):
    """pcm/data given as hex strings are accepted by the builder directly."""
    return json.loads(text)
