"""Self-test of the bounded-check writers against the REAL tool.

Run:  /venv/bin/python /verif/bounded/selftest_akai.py [-v] [--probes]

Builds AKAI images (raw / MODE1-2352 / MDX / cue->2352) and bin/cue pairs with the independent
writers of this directory, drives smpl_extract's export_samples_to_wav / ls_action on them and
compares every exported WAV (parsed with wavparse) against the logical model.
Exit status 0 = all cases PASS, 1 = at least one FAIL.
"""

import contextlib
import io
import os
import random
import shutil
import sys
import tempfile
import traceback

HERE = os.path.dirname(os.path.abspath(__file__))
sys.path.insert(0, HERE)
sys.path.insert(0, "/repo")

import akai_writer as aw          # noqa: E402
import cdda_writer as cw          # noqa: E402
import wavparse as wp             # noqa: E402
from smpl_extract.actions import export_samples_to_wav, ls_action   # noqa: E402

VERBOSE = "-v" in sys.argv
SAMPLE_TYPES = (0xF3, 0x73)
_rng = random.Random(20260928)


def pcm_words(n):
    return bytes(_rng.randrange(256) for _ in range(2 * n))


def run_captured(fn, *args):
    buf = io.StringIO()
    with contextlib.redirect_stdout(buf):
        fn(*args)
    return buf.getvalue()


def all_wavs(root):
    out = []
    for d, _dirs, files in os.walk(root):
        for f in files:
            out.append(os.path.relpath(os.path.join(d, f), root))
    return sorted(out)


# ----------------------------------------------------------------------------- AKAI oracle

def expected_akai_exports(model):
    """{relative wav path: (rate, data bytes)} for every sample file of the model."""
    exp = {}
    for pi, p in enumerate(model["partitions"]):
        pname = chr(ord("A") + pi)
        for v in p["volumes"]:
            if v.get("type", 3) == 0:
                continue
            for f in v["files"]:
                if f.get("type", 0xF3) not in SAMPLE_TYPES:
                    continue
                pcm = bytes(f.get("pcm", b""))
                h = f.get("header", {})
                count = h.get("count", len(pcm) // 2)
                start, end = h.get("start", 0), h.get("end", count)
                rate = h.get("rate", 44100) or 44100
                rel = os.path.join(pname, v["name"], f["name"] + ".wav")
                exp[rel] = (rate, pcm[2 * start:2 * end])
    return exp


def verify_akai_export(model, image_path, out_dir):
    problems = []
    printed = run_captured(export_samples_to_wav, image_path, out_dir)
    exp = expected_akai_exports(model)
    got = all_wavs(out_dir) if os.path.isdir(out_dir) else []
    for rel in got:
        if rel not in exp:
            problems.append("unexpected output file %r" % rel)
    for rel, (rate, data) in sorted(exp.items()):
        if ("Exported " + rel.replace(os.sep, "/")) not in printed:
            problems.append("no 'Exported %s' line" % rel)
        path = os.path.join(out_dir, rel)
        if not os.path.isfile(path):
            problems.append("missing output %r" % rel)
            continue
        with open(path, "rb") as fh:
            raw = fh.read()
        try:
            info = wp.parse_wav(raw)
        except ValueError as e:
            problems.append("%s: wavparse: %s" % (rel, e))
            continue
        for viol in wp.check_wellformed(info):
            problems.append("%s: %s" % (rel, viol))
        if info["fmt"]["channels"] != 1:
            problems.append("%s: %d channels, expected 1" % (rel, info["fmt"]["channels"]))
        if info["fmt"]["sample_rate"] != rate:
            problems.append("%s: rate %d, expected %d" % (rel, info["fmt"]["sample_rate"], rate))
        if info["data"] != data:
            problems.append("%s: data differs (%d bytes exported, %d expected%s)"
                            % (rel, len(info["data"]), len(data),
                               "" if len(info["data"]) != len(data) else
                               ", first difference at byte %d" % next(
                                   i for i in range(len(data)) if data[i] != info["data"][i])))
    return problems, printed


# ----------------------------------------------------------------------------- models

def main_model():
    """2 partitions x 2 volumes x 3 files; both dir modes, explicit/auto placement,
    fragmented and reverse-ordered chains, a sample filling one sector exactly."""
    def f(name, n, ftype=0xF3, **kw):
        d = {"name": name, "type": ftype, "pcm": pcm_words(n)}
        d.update(kw)
        return d
    return {"partitions": [
        {"volumes": [
            {"name": "VOLUME 001", "type": 3, "dir_mode": "chain", "files": [
                f("SAMPLE 1", 100, header={"rate": 22050, "pitch": 60}),
                f("KICK", 4026, 0x73),                                  # 140 + 8052 = one sector exactly
                f("SNARE", 9000, sectors=[9, 7, 5],                     # reverse-ordered chain
                  header={"start": 10, "end": 8000, "rate": 32000}),
            ]},
            {"name": "VOLUME 002", "type": 1, "dir_mode": "reserved", "files": [
                f("HAT", 5000, 0x73, sectors=[40, 12, 33], header={"rate": 0}),     # rate 0 -> 44100
                f("TOM.1", 8122),                                       # 140 + 16244 = two sectors exactly
                f("PAD#2", 3000, header={"loop_type": 1, "rate": 48000, "semi": -3, "cents": 5,
                                         "loops": [{"at": 2500, "fine": 0, "coarse": 1000,
                                                    "duration": 9999}]}),
            ]},
        ]},
        {"size_sectors": 256, "volumes": [
            {"name": "BASS-LEAD", "type": 3, "dir_mode": "reserved", "dir_sectors": [20, 21], "files": [
                f("BASS", 1, header={"rate": 8000}),
                f("LEAD-X", 12000, sectors=[100, 3, 250, 4], header={"start": 4026, "end": 11999}),
                f("NOISE", 4096),
            ]},
            {"name": "LAST", "type": 1, "dir_mode": "chain", "dir_sectors": [31, 30], "files": [
                f("A", 700, 0x73),
                f("B2", 4026, 0x73, sectors=[29]),
                f("C.3", 20000, 0x73, sectors=[60, 59, 58, 57, 56]),
            ]},
        ]},
    ]}


# ----------------------------------------------------------------------------- cases

CASES = []


def case(fn):
    CASES.append(fn)
    return fn


def _akai_case(tmp, label, model, image_bytes, image_name, cue=None):
    d = os.path.join(tmp, label)
    os.makedirs(d)
    path = os.path.join(d, image_name)
    with open(path, "wb") as fh:
        fh.write(image_bytes)
    target = path
    if cue is not None:
        target = os.path.join(d, "image.cue")
        with open(target, "w", encoding="ascii", newline="") as fh:
            fh.write(cue)
    problems, _printed = verify_akai_export(model, target, os.path.join(d, "out"))
    return problems, target


@case
def akai_raw(tmp):
    m = main_model()
    img, layout = aw.build_akai_image_ex(m)
    problems, path = _akai_case(tmp, "raw", m, img, "main.img")
    # layout bookkeeping must point at the bytes it claims to
    for pi, p in enumerate(m["partitions"]):
        for vi, v in enumerate(p["volumes"]):
            for fi, f in enumerate(v["files"]):
                fl = layout["partitions"][pi]["volumes"][vi]["files"][fi]
                e = img[fl["entry_offset"]:fl["entry_offset"] + 24]
                if e[:12] != aw.akai_encode_name(f["name"]):
                    problems.append("layout entry_offset of %s does not hold its name" % f["name"])
                if int.from_bytes(e[20:22], "little") != fl["sectors"][0]:
                    problems.append("layout start sector of %s mismatch" % f["name"])
                if "sectors" in f and fl["sectors"] != f["sectors"]:
                    problems.append("explicit chain of %s not honoured" % f["name"])
                body = b"".join(img[aw.sector_offset(layout, pi, s):aw.sector_offset(layout, pi, s) + 8192]
                                for s in fl["sectors"])
                if body[140:140 + len(f["pcm"])] != f["pcm"]:
                    problems.append("layout sectors of %s do not hold its pcm" % f["name"])
    # listing
    top = run_captured(ls_action, path, "")
    for name in ("A:", "B:"):
        if name not in top:
            problems.append("ls '' does not list %r" % name)
    part = run_captured(ls_action, path, "B:")
    for name in ("BASS-LEAD", "LAST"):
        if name not in part:
            problems.append("ls 'B:' does not list %r" % name)
    vol = run_captured(ls_action, path, "A:/VOLUME 001")
    for name in ("SAMPLE 1", "KICK", "SNARE"):
        if name not in vol:
            problems.append("ls 'A:/VOLUME 001' does not list %r" % name)
    vol = run_captured(ls_action, path, "B:/LAST")
    for name in ("A", "B2", "C.3"):
        if name not in vol:
            problems.append("ls 'B:/LAST' does not list %r" % name)
    if VERBOSE:
        print(top, part, vol, sep="\n")
    return problems


@case
def akai_smpl_chunk(tmp):
    """The looped sample must carry a smpl chunk with exactly its one loop."""
    m = main_model()
    img = aw.build_akai_image(m)
    d = os.path.join(tmp, "smpl")
    os.makedirs(d)
    path = os.path.join(d, "main.img")
    with open(path, "wb") as fh:
        fh.write(img)
    run_captured(export_samples_to_wav, path, os.path.join(d, "out"))
    with open(os.path.join(d, "out", "A", "VOLUME 002", "PAD#2.wav"), "rb") as fh:
        info = wp.parse_wav(fh.read())
    problems = list(wp.check_wellformed(info))
    if info["smpl"] is None:
        problems.append("PAD#2.wav has no smpl chunk")
    elif info["smpl"]["loop_count"] != 1:
        problems.append("PAD#2.wav smpl loop_count %d, expected 1" % info["smpl"]["loop_count"])
    if VERBOSE and info["smpl"]:
        print({k: v for k, v in info["smpl"].items() if k != "sampler_data"})
    return problems


@case
def akai_2352(tmp):
    m = main_model()
    return _akai_case(tmp, "m2352", m, aw.wrap_2352(aw.build_akai_image(m)), "main.mdf")[0]


@case
def akai_mdx(tmp):
    m = main_model()
    return _akai_case(tmp, "mdx", m, aw.wrap_mdx(aw.build_akai_image(m)), "main.mdx")[0]


@case
def akai_cue_mode1_2352(tmp):
    m = main_model()
    cue = cw.build_cue([{"number": 1, "mode": "MODE1/2352", "title": None, "indices": [(1, 0, 0, 0)]}],
                       bin_name="main.bin")
    return _akai_case(tmp, "cue2352", m, aw.wrap_2352(aw.build_akai_image(m)), "main.bin", cue=cue)[0]


@case
def akai_containers_identical(tmp):
    """All four containers must export byte-identical trees."""
    m = main_model()
    raw = aw.build_akai_image(m)
    d = os.path.join(tmp, "ident")
    os.makedirs(d)
    variants = {"raw.img": raw, "w.mdf": aw.wrap_2352(raw), "w.mdx": aw.wrap_mdx(raw)}
    trees = {}
    for name, data in variants.items():
        p = os.path.join(d, name)
        with open(p, "wb") as fh:
            fh.write(data)
        out = os.path.join(d, "out_" + name)
        run_captured(export_samples_to_wav, p, out)
        trees[name] = {rel: open(os.path.join(out, rel), "rb").read() for rel in all_wavs(out)}
    problems = []
    ref = trees["raw.img"]
    if len(ref) != 12:
        problems.append("raw export has %d files, expected 12" % len(ref))
    for name, t in trees.items():
        if t != ref:
            problems.append("export of %s differs from the raw export" % name)
    return problems


@case
def akai_edge_windows(tmp):
    """Single volume: full-directory-free edge cases of the sample window."""
    m = {"partitions": [{"volumes": [{"name": "EDGE", "type": 3, "dir_mode": "chain", "files": [
        {"name": "ONEWORD", "type": 0xF3, "pcm": pcm_words(1)},
        {"name": "TAIL", "type": 0xF3, "pcm": pcm_words(4026), "header": {"start": 4025, "end": 4026}},
        {"name": "ACROSS", "type": 0xF3, "pcm": pcm_words(8200), "sectors": [11, 10, 3],
         "header": {"start": 4025, "end": 4028}},
    ]}]}]}
    return _akai_case(tmp, "edge", m, aw.build_akai_image(m), "edge.img")[0]


@case
def akai_dir_straddle(tmp):
    """343 files: directory entry 341 straddles the two directory sectors (8192 = 341*24 + 8);
    once over a reverse-ordered linked chain, once over a reserved run."""
    def files():
        return [{"name": "S%d" % i, "type": 0xF3, "pcm": pcm_words(3 + i % 5)} for i in range(343)]
    m = {"partitions": [{"size_sectors": 512, "volumes": [
        {"name": "CHAINED", "type": 3, "dir_mode": "chain", "dir_sectors": [400, 7], "files": files()}]},
        {"size_sectors": 512, "volumes": [
            {"name": "RESERVED", "type": 1, "dir_mode": "reserved", "files": files()}]}]}
    img, layout = aw.build_akai_image_ex(m)
    problems = _akai_case(tmp, "straddle", m, img, "s.img")[0]
    spans = layout["partitions"][0]["volumes"][0]["files"][341]["entry_spans"]
    if [n for _a, n in spans] != [8, 16] or spans[0][0] != 400 * 8192 + 8184 or spans[1][0] != 7 * 8192:
        problems.append("entry 341 spans %r, expected 8 bytes at the end of sector 400 + 16 in sector 7" % (spans,))
    offs = aw.entry_byte_offsets(layout, 0, 0, 341)
    if bytes(img[o] for o in offs)[:12] != aw.akai_encode_name("S341"):
        problems.append("entry_byte_offsets does not address entry 341")
    if layout["partitions"][1]["volumes"][0]["dir_sectors"] != [3, 4]:
        problems.append("reserved directory not allocated at sectors 3,4")
    return problems


def _cdda_case(tmp, label, tracks, bin_bytes, style):
    d = os.path.join(tmp, label)
    cue = cw.build_cue(tracks, "img.bin", style)
    cue_path = cw.write_bin_cue(d, bin_bytes, cue)
    out = os.path.join(d, "out")
    printed = run_captured(export_samples_to_wav, cue_path, out)
    problems = []
    ranges = cw.expected_track_ranges(tracks, len(bin_bytes))
    exp = {}
    for k, (_num, title, off, length) in enumerate(ranges):
        exp[(title or "Untitled Track %d" % (k + 1)) + ".wav"] = bin_bytes[off:off + length]
    got = all_wavs(out) if os.path.isdir(out) else []
    for rel in got:
        if rel not in exp:
            problems.append("unexpected output file %r" % rel)
    for rel, data in exp.items():
        if ("Exported " + rel) not in printed:
            problems.append("no 'Exported %s' line" % rel)
        p = os.path.join(out, rel)
        if not os.path.isfile(p):
            problems.append("missing output %r" % rel)
            continue
        try:
            info = wp.parse_wav(open(p, "rb").read())
        except ValueError as e:
            problems.append("%s: wavparse: %s" % (rel, e))
            continue
        for viol in wp.check_wellformed(info):
            problems.append("%s: %s" % (rel, viol))
        if (info["fmt"]["channels"], info["fmt"]["sample_rate"]) != (2, 44100):
            problems.append("%s: fmt %r" % (rel, info["fmt"]))
        if info["data"] != data:
            problems.append("%s: data differs (%d bytes exported, %d expected)"
                            % (rel, len(info["data"]), len(data)))
    listing = run_captured(ls_action, cue_path, "")
    for rel in exp:
        if rel[:-4] not in listing:
            problems.append("ls does not list %r" % rel[:-4])
    if VERBOSE:
        print(cue)
        print(listing)
    return problems


CDDA_TRACKS = [
    {"number": 1, "mode": "AUDIO", "title": "ALPHA", "indices": [(1, 0, 0, 0)]},
    {"number": 2, "mode": "AUDIO", "title": "BETA", "indices": [(0, 0, 0, 10), (1, 0, 0, 12)]},
    {"number": 3, "mode": "AUDIO", "title": None, "indices": [(1, 0, 0, 25)]},
]


@case
def cdda_plain(tmp):
    bin_bytes = bytes(_rng.randrange(256) for _ in range(40 * 2352 + 10))     # tail: not a multiple of 4
    return _cdda_case(tmp, "cdda_plain", CDDA_TRACKS, bin_bytes, None)


@case
def cdda_two_tracks_whole_frames(tmp):
    bin_bytes = bytes(_rng.randrange(256) for _ in range(30 * 2352))
    tracks = [{"number": 1, "mode": "AUDIO", "title": "ONE", "indices": [(1, 0, 0, 2)]},
              {"number": 2, "mode": "AUDIO", "title": "TWO", "indices": [(1, 0, 0, 17)]}]
    return _cdda_case(tmp, "cdda_two", tracks, bin_bytes, None)


@case
def cdda_styled(tmp):
    bin_bytes = bytes(_rng.randrange(256) for _ in range(40 * 2352 + 8))
    style = {"case": "mixed", "lead": " \t", "trail": "  ", "blank_lines": 1, "blank_fill": "  ",
             "leading_blank_lines": 2, "header_extra": cw.DEFAULT_HEADER_EXTRA,
             "track_extra": cw.DEFAULT_TRACK_EXTRA, "track_extra_after": ["REM end of track"],
             "title_first": False, "eol": "\r\n"}
    return _cdda_case(tmp, "cdda_styled", CDDA_TRACKS, bin_bytes, style)


@case
def cdda_lower(tmp):
    bin_bytes = bytes(_rng.randrange(256) for _ in range(26 * 2352 + 2))
    return _cdda_case(tmp, "cdda_lower", CDDA_TRACKS, bin_bytes, {"case": "lower", "indent": False})


@case
def wavparse_rejects_damage(tmp):
    """wavparse itself: a good file passes, each structural damage is named."""
    import struct
    fmt = struct.pack("<HHIIHH", 1, 1, 44100, 88200, 2, 16)
    data = b"\x01\x02\x03\x04"
    body = b"WAVE" + b"fmt " + struct.pack("<I", 16) + fmt + b"data" + struct.pack("<I", 4) + data
    good = b"RIFF" + struct.pack("<I", len(body)) + body
    problems = []
    info = wp.parse_wav(good)
    if wp.check_wellformed(info) or info["data"] != data:
        problems.append("good file rejected: %r" % wp.check_wellformed(info))
    bad = {
        "short riff size": good[:4] + struct.pack("<I", len(body) - 1) + good[8:],
        "long riff size": good[:4] + struct.pack("<I", len(body) + 1) + good[8:],
        "truncated": good[:-1],
        "data size too big": good[:40] + struct.pack("<I", 5) + good[44:],
        "no data": b"RIFF" + struct.pack("<I", 28) + body[:28],
        "bad magic": b"RIFX" + good[4:],
        "bad form": good[:8] + b"WAVX" + good[12:],
    }
    for name, blob in bad.items():
        try:
            wp.parse_wav(blob)
            problems.append("damage %r accepted" % name)
        except ValueError:
            pass
    wrong_rate = good[:28] + struct.pack("<I", 1) + good[32:]
    if not wp.check_wellformed(wp.parse_wav(wrong_rate)):
        problems.append("byte_rate violation not reported")
    trailing = wp.parse_wav(good + b"\x00\x00", strict=False)
    if not any("RIFF size" in s for s in wp.check_wellformed(trailing)):
        problems.append("trailing bytes not reported by check_wellformed")
    return problems


# ----------------------------------------------------------------------------- probes
# Inputs on which the real tool was observed to deviate from the oracle.  Run with --probes; they
# are reported as OBSERVED/not observed and do not change the exit status.

PROBES = []


def probe(fn):
    PROBES.append(fn)
    return fn


@probe
def probe_akai_empty_window(tmp):
    """start == end: the window [start, end) is empty, the tool exports pcm[2*start:] instead."""
    m = {"partitions": [{"volumes": [{"name": "V", "type": 3, "dir_mode": "chain", "files": [
        {"name": "A", "type": 0xF3, "pcm": pcm_words(100), "header": {"start": 50, "end": 50}},
        {"name": "B", "type": 0xF3, "pcm": pcm_words(10)}]}]}]}
    return _akai_case(tmp, "p_emptywin", m, aw.build_akai_image(m), "x.img")[0]


@probe
def probe_akai_sector_packed_directory(tmp):
    """dir_packing='sector' (341 whole entries per sector + 8 slack bytes): the tool reads the
    directory as one byte stream, so entries 341.. are read 8 bytes out of step and vanish."""
    m = {"partitions": [{"size_sectors": 512, "volumes": [
        {"name": "V", "type": 3, "dir_mode": "chain", "dir_packing": "sector",
         "files": [{"name": "S%d" % i, "type": 0xF3, "pcm": pcm_words(3)} for i in range(345)]}]}]}
    return _akai_case(tmp, "p_sectorpack", m, aw.build_akai_image(m), "x.img")[0]


@probe
def probe_cdda_zero_length_track(tmp):
    """Two audio tracks with the same first index: the first is empty, the tool exports it to EOF."""
    tracks = [{"number": 1, "mode": "AUDIO", "title": "A", "indices": [(1, 0, 0, 0)]},
              {"number": 2, "mode": "AUDIO", "title": "B", "indices": [(1, 0, 0, 5)]},
              {"number": 3, "mode": "AUDIO", "title": "C", "indices": [(1, 0, 0, 5)]},
              {"number": 4, "mode": "AUDIO", "title": "D", "indices": [(1, 0, 0, 8)]}]
    return _cdda_case(tmp, "p_zerotrack", tracks, bytes(_rng.randrange(256) for _ in range(10 * 2352)), None)


# ----------------------------------------------------------------------------- driver

def main():
    tmp = tempfile.mkdtemp(prefix="selftest_akai_")
    failed = 0
    try:
        for fn in CASES:
            try:
                problems = fn(tmp)
            except Exception:
                problems = ["exception:\n" + traceback.format_exc()]
            if problems:
                failed += 1
                print("FAIL %s" % fn.__name__)
                for p in problems[:20]:
                    print("     " + p.replace("\n", "\n     "))
                if len(problems) > 20:
                    print("     ... %d more" % (len(problems) - 20))
            else:
                print("PASS %s" % fn.__name__)
        if "--probes" in sys.argv:
            for fn in PROBES:
                try:
                    problems = fn(tmp)
                except Exception:
                    problems = ["exception:\n" + traceback.format_exc()]
                print("PROBE %s: %s" % (fn.__name__, "deviation OBSERVED" if problems else "no deviation"))
                for p in problems[:6]:
                    print("     " + p.replace("\n", "\n     "))
                if len(problems) > 6:
                    print("     ... %d more" % (len(problems) - 6))
    finally:
        shutil.rmtree(tmp, ignore_errors=True)
    print("SUMMARY: %d/%d cases passed -> %s" % (len(CASES) - failed, len(CASES), "FAIL" if failed else "PASS"))
    return 1 if failed else 0


if __name__ == "__main__":
    sys.exit(main())
