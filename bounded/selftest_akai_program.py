"""Self-test of akai_program_writer against the REAL tool's `ls`.

Run:  /venv/bin/python /verif/bounded/selftest_akai_program.py [-v] [--probes]

Builds AKAI images (samples + programs in one volume) with akai_writer + akai_program_writer, runs
smpl_extract.actions.ls_action on every program path and compares parse_ls_tree(output) with
expected_listing(model): every header field, the keygroup count, every keygroup field in CHAIN order
and every non-empty velocity zone (sample name, velocity range and the other zone parameters).
Exit status 0 = all cases PASS, 1 = at least one FAIL.  --probes additionally runs inputs on which
the real tool was observed to deviate from the oracle (reported, exit status unchanged).
"""

import contextlib
import io
import os
import random
import shutil
import struct
import sys
import tempfile
import traceback

HERE = os.path.dirname(os.path.abspath(__file__))
sys.path.insert(0, HERE)
sys.path.insert(0, "/repo")

import akai_writer as aw                    # noqa: E402
import akai_program_writer as pw            # noqa: E402
from smpl_extract.actions import ls_action  # noqa: E402

VERBOSE = "-v" in sys.argv


def run_ls(image_path, path):
    buf = io.StringIO()
    with contextlib.redirect_stdout(buf):
        ls_action(image_path, path)
    return buf.getvalue()


# ----------------------------------------------------------------------------- model generator
# in-range value sets per model field; fields not listed use the range implied by their format

NOTE_BYTES_C_TO_GSHARP = [b for b in range(24, 128) if b % 12 <= 8]       # C .. G#
NOTE_BYTES_A_TO_B = [b for b in range(21, 128) if b % 12 >= 9]             # A, A#, B

HEADER_RANGES = {
    "program_id": [1], "midi_program_number": range(0, 128), "midi_channel": list(range(16)) + [255],
    "polyphony": range(0, 32), "priority": range(0, 4), "octave_shift": range(-2, 3),
    "aux_output_select": list(range(8)) + [255], "bend_to_pitch": range(0, 25),
    "pres_to_pitch": range(-12, 13), "keygroup_crossfade": (0, 1), "fx_output": (0, 1),
    "stereo_coherence": (0, 1), "lfo_desync": (0, 1), "pitch_law": range(0, 5),
    "voice_reassign": (0, 1), "tune_cents": range(-128, 128), "voice_output_scale": range(0, 3),
    "stereo_output_scale": (0, 1), "internal_program_number": range(0, 256),
}
KEYGROUP_RANGES = {
    "block_id": [2], "tune_cents": range(-128, 128), "velocity_zone_crossfade": (0, 1),
    "hold_attack_until_loop": (0, 1), "num_velocity_zones": [4],
    "internal_xfade_left": range(0, 256), "internal_xfade_right": range(0, 256),
    "internal_149": range(0, 256),
}
ZONE_RANGES = {
    "tune_cents": range(-128, 128), "loop_mode": range(0, 5), "constant_pitch": (0, 1),
    "aux_out_offset": range(0, 8), "vel_to_sample_start": range(-9999, 10000),
}
FMT_RANGE = {"B": range(0, 100), "b": range(-50, 51)}


class Picker:
    """Hands out values that are distinct within one block as far as the field's range allows."""

    def __init__(self, rng):
        self.rng = rng
        self.used = set()

    def pick(self, candidates):
        candidates = list(candidates)
        free = [c for c in candidates if c not in self.used and c != 0] \
            or [c for c in candidates if c not in self.used] or candidates
        v = self.rng.choice(free)
        self.used.add(v)
        return v

    def note_pair(self, notes):
        a, b = self.pick(notes), self.pick(notes)
        return min(a, b), max(a, b)


def make_header(rng, name, notes=NOTE_BYTES_C_TO_GSHARP):
    p = Picker(rng)
    h = {"program_name": name}
    for fname, _off, fmt, _default, _key, kind in pw.HEADER_FIELDS:
        if kind == "note":
            continue
        h[fname] = p.pick(HEADER_RANGES.get(fname, FMT_RANGE[fmt]))
    h["low_key"], h["high_key"] = p.note_pair(notes)
    h["key_temperaments"] = [p.pick(range(0, 51)) for _ in range(12)]
    h["tail"] = bytes(rng.randrange(256) for _ in range(78))
    return h


def make_zone(rng, p, sample_name):
    z = {"sample_name": sample_name}
    for fname, _off, fmt, _default, _key, _kind in pw.ZONE_FIELDS:
        if fname in ("low_vel", "high_vel"):
            continue
        z[fname] = p.pick(ZONE_RANGES.get(fname, FMT_RANGE[fmt]))
    a, b = p.pick(range(0, 128)), p.pick(range(0, 128))
    z["low_vel"], z["high_vel"] = min(a, b), max(a, b)
    for fname, _default, _key, _kind in pw.ZONE_ARRAY_FIELDS:
        z[fname] = p.pick(ZONE_RANGES[fname])
    z["internal"] = bytes(rng.randrange(256) for _ in range(4))
    return z


def make_keygroup(rng, slot, zone_samples, notes=NOTE_BYTES_C_TO_GSHARP):
    p = Picker(rng)
    kg = {"slot": slot}
    for fname, _off, fmt, _default, _key, kind in pw.KEYGROUP_FIELDS:
        if kind == "note":
            continue
        kg[fname] = p.pick(KEYGROUP_RANGES.get(fname, FMT_RANGE[fmt]))
    kg["low_key"], kg["high_key"] = p.note_pair(notes)
    kg["zones"] = [None if s is None else make_zone(rng, p, s) for s in zone_samples]
    return kg


def make_program(seed, name, slots, zones_per_kg, notes=NOTE_BYTES_C_TO_GSHARP, **extra):
    """slots: slot of each keygroup in chain order; zones_per_kg: list of sample-name lists."""
    rng = random.Random(seed)
    prog = {"header": make_header(rng, name, notes),
            "keygroups": [make_keygroup(rng, s, z, notes) for s, z in zip(slots, zones_per_kg)]}
    prog.update(extra)
    return prog


def valid_looking_decoy(rng, name, next_address):
    """A complete, valid keygroup block (own sample name) that is NOT part of the chain."""
    kg = make_keygroup(rng, 0, [name, name])
    return pw.keygroup_block_bytes(kg, next_address)


SAMPLES = ["KICK", "SNARE 1", "HAT.CL", "TOM-LO", "PAD#2", "BASS+SUB", "STR 3", "Z9"]


def sample_files():
    rng = random.Random(7)
    return [{"name": n, "type": 0xF3, "pcm": bytes(rng.randrange(256) for _ in range(2 * (10 + i)))}
            for i, n in enumerate(SAMPLES)]


def volume_model(programs, vol_type=3, vol_name="PROGVOL"):
    """programs: [(file name, file type, prog model)] -> akai_writer model: samples first, programs
    interleaved behind them in one volume."""
    files = sample_files()
    for i, (fname, ftype, prog) in enumerate(programs):
        files.insert(2 + 2 * i if 2 + 2 * i <= len(files) else len(files),
                     {"name": fname, "type": ftype, "data": pw.program_body_bytes(prog)})
    return {"partitions": [{"volumes": [{"name": vol_name, "type": vol_type, "dir_mode": "chain",
                                         "files": files}]}]}


# ----------------------------------------------------------------------------- independent byte checks

def check_bytes(prog, body):
    """Writer post-conditions read back with plain struct (no tool involved)."""
    problems = []
    bl = prog.get("block_len", 150)
    kgs = prog["keygroups"]
    used = [k["slot"] for k in kgs] + list((prog.get("decoy_slots") or {}))
    if len(body) != bl * (max(used + [-1]) + 2):
        problems.append("file length %d, expected %d" % (len(body), bl * (max(used + [-1]) + 2)))
    if body[0] != prog["header"].get("program_id", 1):
        problems.append("byte 0 is not the program id")
    if body[42] != len(kgs):
        problems.append("byte 42 (number of keygroups) = %d, expected %d" % (body[42], len(kgs)))
    addr = struct.unpack_from("<H", body, 1)[0]
    for i, kg in enumerate(kgs):
        if addr != bl * (kg["slot"] + 1):
            problems.append("chain step %d points at %d, expected slot %d = %d"
                            % (i, addr, kg["slot"], bl * (kg["slot"] + 1)))
            break
        if body[addr] != kg.get("block_id", 2) or body[addr + 3] != kg["low_key"]:
            problems.append("block at %d does not hold keygroup %d" % (addr, i))
        for zi, z in enumerate((kg["zones"] + [None] * 4)[:4]):
            raw = body[addr + 34 + 24 * zi:addr + 46 + 24 * zi]
            want = aw.akai_encode_name("" if z is None else z["sample_name"])
            if raw != want:
                problems.append("keygroup %d zone slot %d name bytes %r, expected %r" % (i, zi, raw, want))
        addr = struct.unpack_from("<H", body, addr + 1)[0]
    for s, blob in (prog.get("decoy_slots") or {}).items():
        if body[bl * (s + 1):bl * (s + 1) + len(blob)] != bytes(blob):
            problems.append("decoy slot %d was not stored verbatim" % s)
    return problems


# ----------------------------------------------------------------------------- the check

STATS = {"programs": 0, "header_fields": 0, "keygroups": 0, "keygroup_fields": 0, "zones": 0}


def check_program_listing(image_path, vol_name, fname, ftype, prog, listed_as=None):
    """Run the real `ls` on the program and compare with the oracle; returns problems.
    listed_as: name under which the tool lists the file (its de-duplicated "safe" name) when that
    differs from the directory name."""
    problems = check_bytes(prog, pw.program_body_bytes(prog))
    path = "A:/%s/%s" % (vol_name, listed_as or fname)
    try:
        text = run_ls(image_path, path)
    except Exception:
        return problems + ["ls_action(%r) raised:\n%s" % (path, traceback.format_exc())]
    if VERBOSE:
        print(text)
    out = pw.parse_ls_output(text)
    exp = pw.expected_listing(prog, fname, ftype)
    tree = pw.parse_ls_tree(text)
    if tree != out["tree"]:
        problems.append("parse_ls_tree and parse_ls_output disagree")
    if out["title"] != (listed_as or exp["title"]) or out["type_name"] != exp["type_name"]:
        problems.append("title line %r / %r, expected %r / %r"
                        % (out["title"], out["type_name"], listed_as or exp["title"], exp["type_name"]))
    if out["truncated"]:
        problems.append("listing truncated by the tool's row limit")
    if out["clipped_lines"]:
        problems.append("lines clipped to 80 columns: %r" % (out["clipped_lines"],))
    if out["unparsed"]:
        problems.append("lines that are not `key: value`: %r" % (out["unparsed"][:5],))

    # explicit walk (header fields, keygroup count, keygroup fields in chain order, zones)
    for key, want in exp["header"].items():
        STATS["header_fields"] += 1
        got = tree.get(key)
        if got != want:
            problems.append("header %s: expected %r, tool printed %r" % (key, want, got))
    if tree.get("file_name") != exp["file_name"]:
        problems.append("file_name: expected %r, tool printed %r" % (exp["file_name"], tree.get("file_name")))
    listed = tree.get("keygroups")
    listed = listed if isinstance(listed, list) else []
    if len(listed) != exp["number_of_keygroups"]:
        problems.append("expected %d keygroups, tool listed %d" % (exp["number_of_keygroups"], len(listed)))
    for ki, (ekg, gkg) in enumerate(zip(exp["keygroups"], listed)):
        STATS["keygroups"] += 1
        for key, want in ekg["fields"].items():
            STATS["keygroup_fields"] += 1
            if gkg.get(key) != want:
                problems.append("keygroup %d (slot %d) %s: expected %r, tool printed %r"
                                % (ki, prog["keygroups"][ki]["slot"], key, want, gkg.get(key)))
        gz = gkg.get("velocity_zones")
        gz = gz if isinstance(gz, list) else []
        if not ekg["zones"] and gkg.get("velocity_zones") != "None":
            problems.append("keygroup %d: no active zone expected, tool printed %r"
                            % (ki, gkg.get("velocity_zones")))
        if len(gz) != len(ekg["zones"]):
            problems.append("keygroup %d: expected %d zones, tool listed %d" % (ki, len(ekg["zones"]), len(gz)))
        for zi, (ez, gzz) in enumerate(zip(ekg["zones"], gz)):
            STATS["zones"] += 1
            for key, want in ez.items():
                if gzz.get(key) != want:
                    problems.append("keygroup %d zone %d %s: expected %r, tool printed %r"
                                    % (ki, zi, key, want, gzz.get(key)))
    # whole-tree comparison (also catches extra keys and key order)
    if not problems:
        problems += ["tree: " + d for d in pw.compare_listing(exp, tree)]
    STATS["programs"] += 1
    return ["%s: %s" % (fname, p) for p in problems]


def listing_rows(listing, name):
    """Rows of a directory listing whose first column is exactly `name`: [type column text]."""
    return [ln[len(name):].strip() for ln in listing.split("\n")
            if ln.startswith(name + " ") and ln[len(name):len(name) + 2].strip() == ""
            and "  " not in ln[len(name):].strip()]


def run_volume(tmp, label, programs, vol_type=3, listed_as=None):
    listed_as = listed_as or {}
    d = os.path.join(tmp, label)
    os.makedirs(d)
    model = volume_model(programs, vol_type)
    path = os.path.join(d, "p.img")
    with open(path, "wb") as fh:
        fh.write(aw.build_akai_image(model))
    problems = []
    listing = run_ls(path, "A:/PROGVOL")
    type_names = {0xF0: "S3000 Program", 0x70: "S1000 Program"}
    for fname, ftype, _prog in programs:
        rows = listing_rows(listing, listed_as.get(fname, fname))
        if rows != [type_names[ftype]]:
            problems.append("volume listing rows for %r: %r, expected one %r"
                            % (listed_as.get(fname, fname), rows, type_names[ftype]))
    for s in SAMPLES:
        if listing_rows(listing, s) != ["S3000 Sample"]:
            problems.append("volume listing rows for sample %r: %r" % (s, listing_rows(listing, s)))
    for fname, ftype, prog in programs:
        problems += check_program_listing(path, "PROGVOL", fname, ftype, prog, listed_as.get(fname))
    return problems


# ----------------------------------------------------------------------------- cases

CASES = []


def case(fn):
    CASES.append(fn)
    return fn


@case
def a_three_keygroups_sequential(tmp):
    """(a) keygroups in slots 0,1,2 = chain order; S3000 and S1000 file types."""
    p1 = make_program(101, "SEQ THREE", [0, 1, 2], [["KICK"], ["SNARE 1", "HAT.CL"], ["TOM-LO"]])
    p2 = make_program(102, "SEQ.S1000", [0, 1, 2], [["PAD#2", "STR 3", "Z9"], ["KICK"], ["BASS+SUB"]])
    return run_volume(tmp, "a", [("SEQ THREE", 0xF0, p1), ("SEQ.S1000", 0x70, p2)])


@case
def b_out_of_order_with_decoys(tmp):
    """(b) chain order differs from address order, next-keygroup addresses point backwards, decoy
    blocks (valid-looking and garbage) sit in unused slots."""
    rng = random.Random(5)
    # chain = slots 2 -> 0 -> 1 : 450 -> 150 (backwards) -> 300 ; trailing decoy in slot 3
    p1 = make_program(201, "BACK 201", [2, 0, 1], [["KICK", "SNARE 1"], ["HAT.CL"], ["TOM-LO", "PAD#2", "Z9"]],
                      decoy_slots={3: valid_looking_decoy(rng, "DECOY", 150)})
    # chain = slots 4 -> 0 -> 2 with decoys in between (1: valid block looping to itself, 3: garbage, 5: 0xFF)
    p2 = make_program(202, "GAPS-202", [4, 0, 2], [["BASS+SUB"], ["STR 3", "KICK"], ["Z9"]],
                      decoy_slots={1: valid_looking_decoy(rng, "DECOY", 300),
                                   3: bytes(rng.randrange(256) for _ in range(150)),
                                   5: b"\xFF" * 150})
    # strictly descending addresses
    p3 = make_program(203, "DESCENDING", [2, 1, 0], [["KICK"], ["SNARE 1"], ["HAT.CL"]])
    problems = []
    body = pw.program_body_bytes(p1)
    nxt = [struct.unpack_from("<H", body, a + 1)[0] for a in (450, 150)]
    if struct.unpack_from("<H", body, 1)[0] != 450 or nxt != [150, 300]:
        problems.append("BACK 201: chain addresses are not 450 -> 150 -> 300")
    return problems + run_volume(tmp, "b", [("BACK 201", 0xF0, p1), ("GAPS-202", 0x70, p2),
                                            ("DESCENDING", 0xF0, p3)], vol_type=1)


@case
def c_single_keygroup(tmp):
    """(c) one keygroup: in slot 0 with 4 zones; in slot 2 behind two decoys; various values of the
    last keygroup's (unused) next address."""
    rng = random.Random(6)
    p1 = make_program(301, "SINGLE", [0], [["KICK", "SNARE 1", "HAT.CL", "TOM-LO"]])
    p2 = make_program(302, "SINGLE AT 2", [2], [["PAD#2"]],
                      decoy_slots={0: valid_looking_decoy(rng, "DECOY", 300),
                                   1: valid_looking_decoy(rng, "DECOY", 450)})
    p3 = make_program(303, "LASTNEXT 0", [1, 0], [["KICK"], ["Z9"]], last_next_address=0)
    p4 = make_program(304, "LASTNEXT BK", [0, 1], [["KICK"], ["Z9"]], last_next_address=150,
                      decoy_slots={2: valid_looking_decoy(rng, "DECOY", 150)})
    return run_volume(tmp, "c", [("SINGLE", 0xF0, p1), ("SINGLE AT 2", 0xF0, p2),
                                 ("LASTNEXT 0", 0x70, p3), ("LASTNEXT BK", 0xF0, p4)])


@case
def d_zone_counts_0_1_2_4(tmp):
    """(d) keygroups with 0, 1, 2 and 4 active zones; once in slot order, once shuffled; empty zone
    slots carry decoy parameters that must not be listed."""
    zones = [[], ["KICK"], ["SNARE 1", "HAT.CL"], ["TOM-LO", "PAD#2", "BASS+SUB", "STR 3"]]
    p1 = make_program(401, "ZONES 0124", [0, 1, 2, 3], zones)
    p2 = make_program(402, "ZONES 4201", [3, 1, 0, 2], [zones[3], zones[2], zones[0], zones[1]])
    # trailing empty zones that are not all-default: parameters present, name blank
    rng = random.Random(8)
    pk = Picker(rng)
    for kg in p2["keygroups"]:
        while len(kg["zones"]) < 4:
            kg["zones"].append(make_zone(rng, pk, ""))
    p3 = make_program(403, "NO KEYGROUPS", [], [])
    return run_volume(tmp, "d1", [("ZONES 0124", 0xF0, p1)]) \
        + run_volume(tmp, "d2", [("ZONES 4201", 0x70, p2), ("NO KEYGROUPS", 0xF0, p3)])


@case
def e_special_values(tmp):
    """Omni / Off / every enum value / extreme raw cents / name forms."""
    programs = []
    for i, (chan, aux, prio, reass, vs, ss, cents, lm) in enumerate([
            (255, 255, 0, 0, 0, 0, -128, 0), (0, 0, 1, 1, 1, 1, 127, 1), (15, 7, 2, 0, 2, 0, 0, 2),
            (9, 3, 3, 1, 1, 1, 1, 3), (1, 255, 1, 0, 0, 1, -1, 4)]):
        name = ["A", "LONG NAME 12", "1.2+3-4#5", " LEAD SPACE", "X  Y"][i]
        p = make_program(500 + i, name, [1, 0], [["KICK"], ["Z9", "PAD#2"]])
        p["header"].update(midi_channel=chan, aux_output_select=aux, priority=prio, voice_reassign=reass,
                           voice_output_scale=vs, stereo_output_scale=ss, tune_cents=cents,
                           low_key=24, high_key=127)
        p["keygroups"][0].update(tune_cents=cents, low_key=24 + i, high_key=127 - 3 - 12 * i)
        p["keygroups"][0]["zones"][0].update(loop_mode=lm, tune_cents=cents, low_vel=0, high_vel=127,
                                            vel_to_sample_start=[-9999, 9999, 0, 1, -1][i])
        programs.append(("E%d" % i, 0xF0 if i % 2 else 0x70, p))
    return run_volume(tmp, "e", programs)


@case
def f_block_len_192(tmp):
    """S3000-sized blocks (header and keygroups 192 bytes apart, first keygroup address 192)."""
    p = make_program(601, "BLOCK 192", [1, 2, 0], [["KICK"], ["SNARE 1", "Z9"], []], block_len=192,
                     decoy_slots={3: b"\x02" + b"\x55" * 191})
    problems = []
    body = pw.program_body_bytes(p)
    if len(body) != 192 * 5 or struct.unpack_from("<H", body, 1)[0] != 384:
        problems.append("192-byte layout: length %d, first address %d"
                        % (len(body), struct.unpack_from("<H", body, 1)[0]))
    return problems + run_volume(tmp, "f", [("BLOCK 192", 0xF0, p)])


@case
def g_parser_unit(tmp):
    """parse_ls_tree on hand-written text (no tool involved)."""
    text = ("NAME    S3000 Program\n" + "-" * 80 + "\n"
            "a: 1\nb: \nc:\n  c[0]: x\n  c[1]:\n    k:  v w\n    e: None\nd:\n  p: q: r\nz: end\n\n")
    out = pw.parse_ls_output(text)
    want = {"a": "1", "b": "", "c": ["x", {"k": " v w", "e": "None"}], "d": {"p": "q: r"}, "z": "end"}
    problems = []
    if out["tree"] != want:
        problems.append("parsed %r, expected %r" % (out["tree"], want))
    if (out["title"], out["type_name"]) != ("NAME", "S3000 Program"):
        problems.append("title parsed as %r / %r" % (out["title"], out["type_name"]))
    t2 = pw.parse_ls_output(text + "\n(...) exceeded 300 lines\n")
    if not t2["truncated"] or t2["tree"] != want:
        problems.append("row-limit marker not recognised")
    for bad in ({"header": {"polyphony": 256}}, {"header": {"octave_shift": -129}},
                {"header": {"program_name": "THIRTEEN CHARS"}}, {"header": {"nonsense": 1}},
                {"keygroups": [{"slot": 0}, {"slot": 0}]}, {"keygroups": [{"slot": 0}], "decoy_slots": {0: b""}},
                {"keygroups": [{"slot": 0, "zones": [{"sample_name": "a_b"}]}]},
                {"keygroups": [{"slot": 0, "zones": [{}] * 5}]}):
        try:
            pw.program_body_bytes(bad)
            problems.append("writer accepted malformed model %r" % (bad,))
        except ValueError:
            pass
    for b, n in ((24, "C0"), (60, "C3"), (127, "G8"), (59, "B2"), (57, "A2"), (21, "A-1"), (61, "C#3")):
        if pw.note_name(b) != n:
            problems.append("note_name(%d) = %r, expected %r" % (b, pw.note_name(b), n))
    return problems


@case
def h_program_named_like_a_sample(tmp):
    """A program whose directory name equals a sample's (usual on AKAI disks): the tool lists the
    later entry under the de-duplicated name "KICK (2)"; that path must show the program (its
    file_name line still carries the directory name)."""
    p = make_program(905, "KICK", [1, 0], [["KICK"], ["KICK", "Z9"]])
    return run_volume(tmp, "h", [("KICK", 0xF0, p)], listed_as={"KICK": "KICK (2)"})


# ----------------------------------------------------------------------------- probes

PROBES = []


def probe(fn):
    PROBES.append(fn)
    return fn


@probe
def probe_note_names_A_to_B(tmp):
    """Key bytes whose pitch class is A, A# or B (e.g. 57 = A2 when C3 = 60 / C0 = 24): the tool
    numbers octaves from A, so it prints A3 / A#3 / B3 - one octave above the C..G# notes it
    prints for the same octave (it prints 56 as G#2 and 57 as A3, 59 as B3 and 60 as C3)."""
    p = make_program(901, "NOTES AB", [0], [["KICK"]])
    p["header"].update(low_key=57, high_key=59)
    p["keygroups"][0].update(low_key=21, high_key=118)
    return run_volume(tmp, "p_notes", [("NOTES AB", 0xF0, p)])


@probe
def probe_zone_gap(tmp):
    """Zone slot 0 empty, slot 1 active: the tool drops the empty zone but pairs the remaining zone
    with the per-slot arrays (CPn / VZOUTn / VSSn) of slot 0."""
    p = make_program(902, "ZONE GAP", [0], [[None, "KICK"]])
    z = p["keygroups"][0]["zones"][1]
    z.update(constant_pitch=1, aux_out_offset=5, vel_to_sample_start=1234)
    return run_volume(tmp, "p_gap", [("ZONE GAP", 0xF0, p)])


@probe
def probe_row_limit(tmp):
    """A program with 8 single-zone keygroups needs 63 + 8*47 = 439 rows; the tool prints 301."""
    p = make_program(903, "EIGHT KG", list(range(8)), [["KICK"]] * 8)
    return run_volume(tmp, "p_rows", [("EIGHT KG", 0xF0, p)])


@probe
def probe_vzones_byte_counts_active_zones(tmp):
    """Keygroup byte 31 (VZONES) set to the number of ACTIVE zones (2) instead of 4 while the block
    still has four 24-byte zone slots: the tool uses byte 31 as the number of zone slots present and
    reads everything behind the zones from the wrong offsets."""
    p = make_program(904, "VZONES 2", [0], [["KICK", "Z9"]])
    p["keygroups"][0]["num_velocity_zones"] = 2
    return run_volume(tmp, "p_vzones", [("VZONES 2", 0xF0, p)])


# ----------------------------------------------------------------------------- driver

def main():
    tmp = tempfile.mkdtemp(prefix="selftest_akai_program_")
    failed = 0
    try:
        for fn in CASES:
            try:
                problems = fn(tmp)
            except Exception:
                problems = ["exception:\n" + traceback.format_exc()]
            if problems:
                failed += 1
                print("FAIL %s" % fn.__name__)
                for p in problems[:25]:
                    print("     " + p.replace("\n", "\n     "))
                if len(problems) > 25:
                    print("     ... %d more" % (len(problems) - 25))
            else:
                print("PASS %s" % fn.__name__)
        compared = dict(STATS)
        if "--probes" in sys.argv:
            for fn in PROBES:
                try:
                    problems = fn(tmp)
                except Exception:
                    problems = ["exception:\n" + traceback.format_exc()]
                print("PROBE %s: %s" % (fn.__name__, "deviation OBSERVED" if problems else "no deviation"))
                for p in problems[:12]:
                    print("     " + p.replace("\n", "\n     "))
                if len(problems) > 12:
                    print("     ... %d more" % (len(problems) - 12))
    finally:
        shutil.rmtree(tmp, ignore_errors=True)
    print("compared: %(programs)d programs, %(header_fields)d header fields, %(keygroups)d keygroups, "
          "%(keygroup_fields)d keygroup fields, %(zones)d zones" % compared)
    print("SUMMARY: %d/%d cases passed -> %s" % (len(CASES) - failed, len(CASES), "FAIL" if failed else "PASS"))
    return 1 if failed else 0


if __name__ == "__main__":
    sys.exit(main())
