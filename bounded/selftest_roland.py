"""
selftest_roland -- drive the REAL smpl_extract tool over images produced by the
independent writer roland_writer.py and compare every exported WAV against the
logical model.

Run:  /venv/bin/python /verif/bounded/selftest_roland.py [-v]
Exit status 0 iff every check passed.
"""

import contextlib
import copy
import io
import os
import random
import shutil
import struct
import sys
import tempfile
import traceback

sys.dont_write_bytecode = True       # leave no __pycache__ in /verif or /repo

HERE = os.path.dirname(os.path.abspath(__file__))
sys.path.insert(0, HERE)
sys.path.insert(0, "/repo")

import roland_writer as rw                                    # noqa: E402
from smpl_extract.actions import export_samples_to_wav        # noqa: E402
from smpl_extract.actions import ls_action                    # noqa: E402

VERBOSE = "-v" in sys.argv[1:]
WPC = rw.WORDS_PER_CLUSTER          # 4608 words per cluster
ORPHAN_VOLUME = "_Orphan_perf"
NO_VOLUME_NAME = "All Performances"   # pseudo-volume when the disk has no volume

RESULTS = []                         # (ok, case, message)
FINDINGS = []                        # reader behaviour worth reporting


def check(ok, case, message):
    RESULTS.append((bool(ok), case, message))
    if VERBOSE or not ok:
        print("  [%s] %s: %s" % ("ok" if ok else "FAIL", case, message))
    return bool(ok)


# ------------------------------------------------------------------ models

def pcm_words(seed, n_words):
    rnd = random.Random(seed)
    return struct.pack("<%dH" % n_words,
                       *(rnd.randrange(0x10000) for _ in range(n_words)))


def sample(name, seed, n_words, loop_mode, freq_code, start, sus_end, rel_end,
           **extra):
    s = {"name": name, "loop_mode": loop_mode, "freq_code": freq_code,
         "mode": 0, "original_key": 60,
         "points": {"start": start, "sustain_start": start + 1,
                    "sustain_end": sus_end, "release_start": sus_end + 1,
                    "release_end": rel_end},
         "pcm": pcm_words(seed, n_words)}
    s.update(extra)
    return s


def main_model(fat_version):
    samples = [
        # 0..6: every loop mode, every frequency code
        sample("LM0 FWD END", 100, 3000, 0, 0, 10, 2000, 2900),
        sample("LM1 FWD REL", 101, 3000, 1, 1, 0, 1500, 2999),
        sample("LM2 ONESHOT", 102, 5000, 2, 2, 100, 4700, 4900),   # 2 clusters
        sample("LM3 FWD ONE", 103, 9300, 3, 3, 7, 200, 9250),      # 3 clusters
        sample("LM4 ALT", 104, 2000, 4, 4, 0, 1999, 1999),
        sample("LM5 REV ONE", 105, 2500, 5, 5, 50, 2400, 2450),
        sample("LM6 REV LOOP", 106, 6000, 6, 0, 3, 5800, 5900,
               fine={"start": 17, "sustain_end": 255, "release_end": 1}),
        # 7: permuted explicit chain
        sample("PERM CHAIN", 107, 3 * WPC, 0, 1, 5, 3 * WPC - 10, 3 * WPC - 5,
               clusters=[40, 38, 39]),
        # 8: permuted chain, window ends exactly on the last word of the chain
        sample("END AT CLUST", 108, 3 * WPC, 1, 3, 4000, 2 * WPC - 1,
               3 * WPC - 1, clusters=[34, 32, 33]),
        # 9: window ends exactly on the last word of the FIRST cluster
        sample("END CLUST0", 109, 2 * WPC, 0, 2, 0, WPC - 1, 2 * WPC - 1),
        # 10: cluster_top = 1, automatic allocation
        sample("TOP1 AUTO", 110, 5000, 0, 1, 20, 4900, 4950, cluster_top=1),
        # 11: cluster_top = 1, explicit permuted chain (leading cluster last
        #     on disk)
        sample("TOP1 PERM", 111, 2 * WPC, 3, 4, 1, 100, 2 * WPC - 1,
               cluster_top=1, clusters=[50, 48, 47]),
        # 12: cluster_top = 2, reversed mode across a cluster border
        sample("TOP2 REV", 112, 2 * WPC, 5, 0, WPC - 3, WPC + 3, WPC + 9,
               cluster_top=2),
        # 13: single word window
        sample("ONE WORD", 113, 100, 0, 5, 42, 42, 60),
        # 14: referenced by no partial -> must not be exported
        sample("UNREFERENCED", 114, 1000, 0, 0, 0, 999, 999),
        # 15: only reachable through the orphan performance
        sample("ORPHAN ONLY", 115, 1200, 6, 3, 0, 1100, 1150),
    ]
    # Sharing: sample 0 sits in partials 0, 5 and 6; partial 2 in patches 1
    # and 4; patch 1 in three performances, patches 2 and 3 in two; samples 10
    # and 13 twice inside patch 3 (via partials 4 and 7, the reader keeps one).  No sample is reachable
    # through two different patches of the SAME performance -- that situation
    # is exercised separately in finding_dup_across_patches().
    partials = [
        {"name": "PARTIAL 0", "samples": [0, 1, 2, 3]},
        {"name": "PARTIAL 1", "samples": [4, -1, 5]},
        {"name": "PARTIAL 2", "samples": [6, 7]},
        {"name": "PARTIAL 3", "samples": [-1, 8, -1, 9]},
        {"name": "PARTIAL 4", "samples": [10, 11, 12, 13]},
        {"name": "PARTIAL 5", "samples": [15, 0]},
        {"name": "PARTIAL 6", "samples": [0]},
        {"name": "PARTIAL 7", "samples": [13, 10]},
    ]
    patches = [
        {"name": "PATCH 0", "partials": [0]},
        {"name": "PATCH 1", "partials": [1, 2]},
        {"name": "PATCH 2", "partials": [3, 6]},
        {"name": "PATCH 3", "partials": [4, 7]},
        {"name": "PATCH 4", "partials": [5, 2]},
    ]
    performances = [
        {"name": "PERF 0", "patches": [0, 1]},
        {"name": "PERF 1", "patches": [1, 2]},           # shares patch 1
        {"name": "PERF 2", "patches": [2]},              # shares patch 2
        {"name": "PERF 3", "patches": [1, 3]},           # shares patch 1
        {"name": "PERF ORPHAN", "patches": [3, 4]},      # in no volume
    ]
    volumes = [
        {"name": "VOLUME A", "performances": [0, 1]},
        {"name": "VOLUME B", "performances": [2, 3]},
    ]
    return {"fat_version": fat_version, "disk_name": "SELFTEST",
            "volumes": volumes, "performances": performances,
            "patches": patches, "partials": partials, "samples": samples}


def no_orphan_model(fat_version):
    """Every performance belongs to a volume; a performance is shared."""
    m = main_model(fat_version)
    m["volumes"][1]["performances"] = [2, 3, 4, 0]
    return m


def no_volume_model(fat_version):
    """A disk without any volume: every performance is an orphan."""
    m = main_model(fat_version)
    m["volumes"] = []
    return m


def dup_across_patches_model(fat_version):
    """Smallest well-formed disk on which ONE performance reaches the SAME
    sample through TWO patches (both patches list partial 0)."""
    n = 100
    return {
        "fat_version": fat_version, "disk_name": "DUP",
        "volumes": [{"name": "V", "performances": [0]}],
        "performances": [{"name": "P", "patches": [0, 1]}],
        "patches": [{"name": "PA0", "partials": [0]},
                    {"name": "PA1", "partials": [0]}],
        "partials": [{"name": "PT0", "samples": [0]}],
        "samples": [sample("S", 7, n, 0, 1, 0, n - 1, n - 1)],
    }


# ------------------------------------------------------- model -> expectation

def reachable_samples(model, perf_index):
    out = []
    perf = model["performances"][perf_index]
    for pa in perf["patches"]:
        if pa < 0:
            continue
        for pt in model["patches"][pa]["partials"]:
            if pt < 0:
                continue
            for s in model["partials"][pt]["samples"]:
                if s >= 0 and s not in out:
                    out.append(s)
    return out


def expected_tree(model):
    """{(volume_name, performance_name): {sample_name: sample_index}}"""
    tree = {}
    referenced = set()
    for vol in model["volumes"]:
        for p in vol["performances"]:
            if p < 0:
                continue
            referenced.add(p)
            key = (vol["name"], model["performances"][p]["name"])
            tree[key] = {model["samples"][s]["name"]: s
                         for s in reachable_samples(model, p)}
    pseudo = ORPHAN_VOLUME if model["volumes"] else NO_VOLUME_NAME
    for p, perf in enumerate(model["performances"]):
        if p not in referenced:
            key = (pseudo, perf["name"])
            tree[key] = {model["samples"][s]["name"]: s
                         for s in reachable_samples(model, p)}
    return tree


# ------------------------------------------------------------- WAV parsing

def parse_wav(path):
    with open(path, "rb") as f:
        blob = f.read()
    if blob[0:4] != b"RIFF" or blob[8:12] != b"WAVE":
        raise ValueError("not a RIFF/WAVE file")
    pos = 12
    fmt = None
    data = None
    while pos + 8 <= len(blob):
        cid = blob[pos:pos + 4]
        size = struct.unpack_from("<I", blob, pos + 4)[0]
        body = blob[pos + 8:pos + 8 + size]
        if cid == b"fmt ":
            fmt = struct.unpack_from("<HHIIHH", body, 0)
        elif cid == b"data":
            data = body
        pos += 8 + size + (size & 1)
    if fmt is None or data is None:
        raise ValueError("fmt/data chunk missing")
    return {"format": fmt[0], "channels": fmt[1], "rate": fmt[2],
            "bits": fmt[5], "data": data}


def list_tree(root):
    found = {}
    for dirpath, _dirs, files in os.walk(root):
        for fn in files:
            rel = os.path.relpath(os.path.join(dirpath, fn), root)
            found[tuple(rel.split(os.sep))] = os.path.join(dirpath, fn)
    return found


# ------------------------------------------------------------------- driver

def run_case(case, model, on_surplus=None):
    """Build, export with the real tool, compare.  `on_surplus(surplus, found)`
    may claim unexpected files (it returns the ones it explains/reports)."""
    tmp = tempfile.mkdtemp(prefix="roland_selftest_", dir="/tmp")
    try:
        image, layout = rw.build_roland_image_ex(model)
        img_path = os.path.join(tmp, "image.img")
        out_dir = os.path.join(tmp, "out")
        os.mkdir(out_dir)
        with open(img_path, "wb") as f:
            f.write(image)

        # --- writer self-consistency
        n_used = len(layout["used_clusters"])
        check(len(image) == 0x2b1000 + (2 + layout["total_clusters"]) * 0x2400,
              case, "image length matches 0x2b1000+(2+clusters)*0x2400")
        check(struct.unpack_from("<H", image, layout["fat_offset"])[0] == 0xFFFA,
              case, "FAT id word")
        check(struct.unpack_from("<H", image, layout["fat_offset"] + 2)[0]
              == layout["total_clusters"] - n_used, case, "FAT unused count")
        for i, smp in enumerate(model["samples"]):
            rec = layout["samples"][i]
            d = image[rec["dir_offset"]:rec["dir_offset"] + 32]
            p = image[rec["param_offset"]:rec["param_offset"] + 48]
            ok = (d[:16].rstrip(b" ").decode() == smp["name"] and d[16] == 0x44
                  and struct.unpack_from("<H", d, 28)[0] == rec["clusters"][0]
                  and p[36] == smp["loop_mode"]
                  and struct.unpack_from("<H", p, 40)[0]
                  == smp.get("cluster_top", 0))
            if not ok:
                check(False, case, "layout offsets of sample %d" % i)
        check(True, case, "layout offsets locate the sample records")

        # --- the real tool: export
        try:
            with contextlib.redirect_stdout(io.StringIO()):
                export_samples_to_wav(img_path, out_dir)
            check(True, case, "export_samples_to_wav returned")
        except Exception:
            check(False, case, "export_samples_to_wav raised:\n"
                  + traceback.format_exc())
            return

        # --- the real tool: ls
        buf = io.StringIO()
        try:
            with contextlib.redirect_stdout(buf):
                ls_action(img_path, "")
            listing = buf.getvalue()
            check(True, case, "ls_action returned")
        except Exception:
            listing = buf.getvalue()
            check(False, case, "ls_action raised:\n" + traceback.format_exc())

        tree = expected_tree(model)
        for vol_name in sorted({k[0] for k in tree}):
            check(vol_name in listing, case,
                  "ls root lists volume %r" % vol_name)
        if not any(k[0] == ORPHAN_VOLUME for k in tree):
            check(ORPHAN_VOLUME not in listing, case,
                  "ls root does not list %r" % ORPHAN_VOLUME)

        # --- compare the exported tree
        found = list_tree(out_dir)
        expected_paths = {}
        for (vol, perf), smps in tree.items():
            for sname, sidx in smps.items():
                expected_paths[(vol, perf, sname + ".wav")] = sidx
        missing = sorted(set(expected_paths) - set(found))
        surplus = sorted(set(found) - set(expected_paths))
        if on_surplus is not None and surplus:
            explained = on_surplus(surplus, found)
            surplus = [x for x in surplus if x not in explained]
        check(not missing, case, "no missing exports %s" % (missing[:6],))
        check(not surplus, case, "no unexpected exports %s" % (surplus[:6],))

        n_ok = 0
        for rel, sidx in sorted(expected_paths.items()):
            if rel not in found:
                continue
            smp = model["samples"][sidx]
            exp_pcm, exp_rate = rw.expected_sample_export(smp)
            try:
                wav = parse_wav(found[rel])
            except Exception as e:
                check(False, case, "%s: unparsable WAV (%s)" % ("/".join(rel), e))
                continue
            problems = []
            if wav["rate"] != exp_rate:
                problems.append("rate %d != %d" % (wav["rate"], exp_rate))
            if wav["channels"] != 1 or wav["bits"] != 16 or wav["format"] != 1:
                problems.append("fmt ch=%d bits=%d tag=%d"
                                % (wav["channels"], wav["bits"], wav["format"]))
            if wav["data"] != exp_pcm:
                n = min(len(wav["data"]), len(exp_pcm))
                first = next((k for k in range(n)
                              if wav["data"][k] != exp_pcm[k]), n)
                problems.append("pcm differs: got %d bytes, expected %d, "
                                "first difference at byte %d"
                                % (len(wav["data"]), len(exp_pcm), first))
            if problems:
                check(False, case, "%s (sample %d, loop_mode %d, chain %s, "
                      "top %d): %s"
                      % ("/".join(rel), sidx, smp["loop_mode"],
                         layout["samples"][sidx]["clusters"],
                         smp.get("cluster_top", 0), "; ".join(problems)))
            else:
                n_ok += 1
        check(n_ok == len(expected_paths), case,
              "%d/%d exported WAVs carry the expected PCM and rate"
              % (n_ok, len(expected_paths)))
    finally:
        shutil.rmtree(tmp, ignore_errors=True)


def writer_unit_checks():
    case = "writer-unit"
    m = main_model(1)
    a = rw.build_roland_image(m)
    b, lay = rw.build_roland_image_ex(copy.deepcopy(m))
    check(a == b, case, "build is deterministic")
    # version flag words
    check(a[lay["fat_version_offset"]:lay["fat_version_offset"] + 4]
          == b"\xff\xff\xff\xff", case, "v1 flag words")
    c, lay2 = rw.build_roland_image_ex(main_model(2))
    check(c[lay2["fat_version_offset"]:lay2["fat_version_offset"] + 2]
          == b"\xfe\xff", case, "v2 flag word")
    # chain of sample 7 is 40 -> 38 -> 39 -> end
    fo = lay["fat_offset"]
    w = lambda k: struct.unpack_from("<H", a, fo + 2 * k)[0]
    check((w(40), w(38), w(39) >= 0xFFF8) == (38, 39, True), case,
          "explicit permuted chain written as next-pointers")
    check(w(0) == 0xFFFA and w(1) == lay["total_clusters"]
          - len(lay["used_clusters"]), case, "FAT header words")
    # counts in the ID area
    check(struct.unpack_from("<5H", a, 276) == (2, 5, 5, 8, 16), case,
          "ID area counts")
    # data placement of a permuted chain
    pcm = m["samples"][7]["pcm"]
    check(a[0x2b1000 + 38 * 0x2400:0x2b1000 + 39 * 0x2400]
          == pcm[0x2400:0x4800], case, "second data cluster placed at 38")
    # raw overrides
    m2 = main_model(1)
    m2["samples"][0]["raw_dir"] = bytes(range(32))
    m2["samples"][0]["raw_param"] = bytes(range(48))
    d, lay3 = rw.build_roland_image_ex(m2)
    r = lay3["samples"][0]
    check(d[r["dir_offset"]:r["dir_offset"] + 32] == bytes(range(32))
          and d[r["param_offset"]:r["param_offset"] + 48] == bytes(range(48)),
          case, "raw_dir/raw_param overrides")
    for lvl in rw.LEVELS:
        ok = all("dir_offset" in e and "param_offset" in e for e in lay[lvl])
        check(ok and len(lay[lvl]) == len(m[lvl]), case,
              "layout records every %s entry" % lvl)


def finding_dup_across_patches(fat_version):
    """Reader behaviour on a well-formed disk, reported, not hidden:
    a sample reachable through two patches of one performance is exported
    twice, the second copy as '<name> (2).wav'."""
    case = "dup-across-patches/fat_v%d" % fat_version
    print("case %s" % case)
    model = dup_across_patches_model(fat_version)
    exp_pcm, exp_rate = rw.expected_sample_export(model["samples"][0])

    def on_surplus(surplus, found):
        explained = []
        for rel in surplus:
            if rel == ("V", "P", "S (2).wav"):
                wav = parse_wav(found[rel])
                same = wav["data"] == exp_pcm and wav["rate"] == exp_rate
                FINDINGS.append(
                    "%s: volume V / performance P (patches PA0, PA1 both list "
                    "partial PT0 -> sample index 0 'S'): the tool wrote "
                    "V/P/S.wav AND V/P/S (2).wav (%s); expected exactly one "
                    "file for the one referenced sample"
                    % (case, "identical PCM and rate" if same
                       else "CONTENT DIFFERS from the sample"))
                explained.append(rel)
        return explained

    before = len(FINDINGS)
    run_case(case, model, on_surplus=on_surplus)
    if len(FINDINGS) == before:
        print("  note: duplicate-export behaviour not observed any more")


def main():
    writer_unit_checks()
    for name, builder in (("main-model", main_model),
                          ("no-orphan", no_orphan_model),
                          ("no-volume", no_volume_model)):
        for ver in (1, 2):
            case = "%s/fat_v%d" % (name, ver)
            print("case %s" % case)
            try:
                run_case(case, builder(ver))
            except Exception:
                check(False, case, "harness error:\n" + traceback.format_exc())
    for ver in (1, 2):
        try:
            finding_dup_across_patches(ver)
        except Exception:
            check(False, "dup-across-patches/fat_v%d" % ver,
                  "harness error:\n" + traceback.format_exc())

    failed = [r for r in RESULTS if not r[0]]
    print()
    if FINDINGS:
        print("READER FINDINGS (well-formed input, behaviour reported, not "
              "counted as writer failure): %d" % len(FINDINGS))
        for f in FINDINGS:
            print(" * " + f)
        print()
    print("checks: %d passed, %d failed" % (len(RESULTS) - len(failed),
                                            len(failed)))
    if failed:
        print("FAIL")
        for _ok, case, msg in failed:
            print(" - %s: %s" % (case, msg.splitlines()[0]))
        return 1
    print("PASS")
    return 0


if __name__ == "__main__":
    sys.exit(main())
