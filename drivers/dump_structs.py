"""Run under /venv/bin/python: dump the LIVE construct declarations (field order, byte offsets, widths, formats,
adapters, expression trees) of the header structs as JSON.  `.compile()`d structs are reached through `.defersubcon`."""
import sys, os, json
REPO = os.environ.get("VERIF_REPO", "/repo")
sys.path.insert(0, REPO)
import construct as C
from construct import core


def unwrap(c):
    """Follow wrappers down to the thing that defines the on-disk bytes; collect the wrapper names."""
    chain = []
    while True:
        if isinstance(c, core.Compiled):
            c = c.defersubcon
            continue
        if isinstance(c, core.Renamed):
            c = c.subcon
            continue
        if isinstance(c, (core.Adapter, core.Subconstruct)) and not isinstance(c, (core.Array, core.Padded, core.FixedSized, core.NullStripped, core.Lazy)) \
                and type(c).__name__ not in ("Array", "Padded", "FixedSized"):
            if isinstance(c, (core.Struct, core.Sequence)):
                break
            chain.append(type(c).__name__)
            nxt = getattr(c, "subcon", None)
            if nxt is None:
                break
            c = nxt
            continue
        break
    return c, chain


def expr_tree(e):
    from construct import expr as X
    if isinstance(e, X.BinExpr):
        return {"op": e.op.__name__, "lhs": expr_tree(e.lhs), "rhs": expr_tree(e.rhs)}
    if isinstance(e, X.UniExpr):
        return {"op": e.op.__name__, "operand": expr_tree(e.operand)}
    if type(e).__name__ == "FuncPath":
        f = getattr(e, "_FuncPath__func", None)
        return {"func": getattr(f, "__name__", repr(f)), "operand": expr_tree(getattr(e, "_FuncPath__operand", None))}
    if isinstance(e, X.Path2) or isinstance(e, X.Path):
        return {"path": str(e)}
    if isinstance(e, (int, float, str, bool)) or e is None:
        return {"const": e}
    if callable(e):
        code = getattr(e, "__code__", None)
        return {"callable": getattr(e, "__name__", "?"), "file": code.co_filename if code else None, "line": code.co_firstlineno if code else None}
    return {"repr": repr(e)}


def describe(c):
    base, chain = unwrap(c)
    d = {"class": type(base).__name__, "wrappers": chain}
    try:
        d["size"] = c.sizeof()
    except Exception:
        d["size"] = None
    if isinstance(base, core.FormatField):
        d["fmt"] = base.fmtstr
    if isinstance(base, core.BytesInteger):
        d["bytes_integer"] = {"length": base.length, "signed": base.signed, "swapped": base.swapped}
    if isinstance(base, core.Const):
        v = base.value
        d["const"] = v.hex() if isinstance(v, (bytes, bytearray)) else v
    if isinstance(base, core.Computed):
        d["computed"] = expr_tree(base.func)
    if isinstance(base, core.Array):
        d["count"] = base.count if isinstance(base.count, int) else expr_tree(base.count)
        d["element"] = describe(base.subcon)
    if isinstance(base, core.Struct):
        d["fields"] = fields(base)
    if type(base).__name__ == "SubStreamConstruct":
        d["substream_class"] = getattr(base.substream_class, "__name__", str(base.substream_class))
        d["kwargs"] = {k: expr_tree(v) for k, v in base.kwargs.items()}
        d["args"] = [expr_tree(v) for v in base.args]
    for w in ("Pointer", "ExprValidator", "Mapping", "MappingDefault", "Enum", "EnumWrapper"):
        pass
    # mapping tables of Enum / Mapping adapters along the chain
    cur = c
    maps = []
    seen = 0
    while cur is not None and seen < 12:
        seen += 1
        if isinstance(cur, core.Compiled):
            cur = cur.defersubcon
            continue
        if hasattr(cur, "decmapping") and isinstance(getattr(cur, "decmapping"), dict):
            maps.append({str(k): str(v) for k, v in cur.decmapping.items()})
        if type(cur).__name__ == "EnumWrapper":
            maps.append({"__enum__": cur.recast.__name__, **{str(m.value): m.name for m in cur.recast}})
        if isinstance(cur, core.Pointer):
            d["pointer"] = expr_tree(cur.offset)
        if isinstance(cur, core.Rebuild):
            d["rebuild"] = expr_tree(cur.func)
        cur = getattr(cur, "subcon", None)
    if maps:
        d["mappings"] = maps
    return d


FMT_KIND = {"<B": "u8", ">B": "u8", "<b": "i8", ">b": "i8", "<H": "u16le", ">H": "u16be", "<h": "i16le", ">h": "i16be", "<L": "u32le", ">L": "u32be",
            "<l": "i32le", ">l": "i32be", "<Q": "u64le", ">Q": "u64be", "<I": "u32le", ">I": "u32be"}


def shape(c, depth=0):
    """The declaration TREE of a construct (classes, nesting, constants, length fields, switch tables, rebuild expressions)."""
    if depth > 12:
        return "..."
    if isinstance(c, core.Compiled):
        return shape(c.defersubcon, depth)
    if isinstance(c, core.Renamed):
        return shape(c.subcon, depth)
    n = type(c).__name__
    if isinstance(c, core.Struct):
        return {"Struct": [[getattr(sc, "name", None), shape(sc, depth + 1)] for sc in c.subcons]}
    if isinstance(c, core.FormatField):
        return FMT_KIND.get(c.fmtstr, c.fmtstr)
    if isinstance(c, core.BytesInteger):
        return f"{'i' if c.signed else 'u'}{8 * c.length}{'le' if c.swapped else 'be'}" if isinstance(c.length, int) else {"BytesInteger": expr_tree(c.length)}
    if isinstance(c, core.Bytes):
        return {"Bytes": c.length if isinstance(c.length, int) else expr_tree(c.length)}
    if isinstance(c, core.Const):
        v = c.value
        return {"Const": v.hex() if isinstance(v, (bytes, bytearray)) else v}
    if isinstance(c, core.Prefixed):
        return {"Prefixed": {"length": shape(c.lengthfield, depth + 1), "includelength": bool(c.includelength), "sub": shape(c.subcon, depth + 1)}}
    if isinstance(c, core.Switch):
        return {"Switch": {"key": expr_tree(c.keyfunc), "cases": {str(int(k) if isinstance(k, int) else k): shape(v, depth + 1) for k, v in c.cases.items()},
                           "default": shape(c.default, depth + 1)}}
    if isinstance(c, core.GreedyRange):
        return {"GreedyRange": shape(c.subcon, depth + 1)}
    if isinstance(c, core.Array):
        return {"Array": {"count": c.count if isinstance(c.count, int) else expr_tree(c.count), "sub": shape(c.subcon, depth + 1)}}
    if isinstance(c, core.Rebuild):
        return {"Rebuild": {"sub": shape(c.subcon, depth + 1), "func": expr_tree(c.func)}}
    if isinstance(c, core.Lazy):
        return {"Lazy": shape(c.subcon, depth + 1)}
    if n == "Enum":
        return {"Enum": shape(c.subcon, depth + 1), "map": {str(k): int(v) for k, v in c.encmapping.items() if isinstance(k, str)}}
    if isinstance(c, core.ExprValidator):
        v = None
        try:         # construct keeps the validator only in the closure of `_validate`
            v = c._validate.__closure__[0].cell_contents
        except Exception:
            pass
        return {"ExprValidator": {"sub": shape(c.subcon, depth + 1), "validator": expr_tree(v)}}
    if isinstance(c, core.Padded):
        return {"Padded": {"length": c.length if isinstance(c.length, int) else expr_tree(c.length), "sub": shape(c.subcon, depth + 1)}}
    if isinstance(c, core.ExprAdapter):
        return {"ExprAdapter": shape(c.subcon, depth + 1)}
    if n == "GreedyBytes" or c is core.GreedyBytes:
        return "GreedyBytes"
    if isinstance(c, core.Subconstruct) and getattr(c, "subcon", None) is not None:
        return {n: shape(c.subcon, depth + 1)}
    return n


SHAPES = {
    "formats.wav:RiffStruct": ("smpl_extract.formats.wav", "RiffStruct"),
    "alcohol.mdf:MdfSectorHeaderConstruct": ("smpl_extract.alcohol.mdf", "MdfSectorHeaderConstruct"),
    "alcohol.mdx:MdxHeaderConstruct": ("smpl_extract.alcohol.mdx", "MdxHeaderConstruct"),
}


def fields(struct):
    if isinstance(struct, core.Compiled):
        struct = struct.defersubcon
    out, off = [], 0
    for sc in struct.subcons:
        name = getattr(sc, "name", None)
        d = describe(sc)
        d["name"] = name
        d["offset"] = off
        out.append(d)
        if d["size"] is None:
            off = None
            break
        off += d["size"]
    return out


TARGETS = {
    "akai.sample:SampleHeaderConstruct": ("smpl_extract.akai.sample", "SampleHeaderConstruct"),
    "akai.sample:LoopDataConstruct": ("smpl_extract.akai.sample", "LoopDataConstruct"),
    "akai.file_entry:FileEntryConstruct": ("smpl_extract.akai.file_entry", "FileEntryConstruct"),
    "akai.volume:VolumeEntryConstruct": ("smpl_extract.akai.volume", "VolumeEntryConstruct"),
    "akai.partition:PartitionHeaderConstruct": ("smpl_extract.akai.partition", "PartitionHeaderConstruct"),
    "roland.sample_entry:SampleParamEntryStruct": ("smpl_extract.roland.s7xx.sample_entry", "SampleParamEntryStruct"),
    "roland.sample_entry:SampleParamLoopPointStruct": ("smpl_extract.roland.s7xx.sample_entry", "SampleParamLoopPointStruct"),
    "akai.program:ProgramHeaderConstruct": ("smpl_extract.akai.program", "ProgramHeaderConstruct"),
    "akai.keygroup:KeygroupConstruct": ("smpl_extract.akai.keygroup", "KeygroupConstruct"),
    "akai.keygroup:VelocityZoneConstruct": ("smpl_extract.akai.keygroup", "VelocityZoneConstruct"),
    "formats.wav:WavFormatChunkStruct": ("smpl_extract.formats.wav", "WavFormatChunkStruct"),
    "formats.wav:WavLoopStruct": ("smpl_extract.formats.wav", "WavLoopStruct"),
    "formats.wav:WavSampleChunkStruct": ("smpl_extract.formats.wav", "WavSampleChunkStruct"),
    "alcohol.mdf:MdfSectorHeaderConstruct": ("smpl_extract.alcohol.mdf", "MdfSectorHeaderConstruct"),
    "alcohol.mdx:MdxHeaderConstruct": ("smpl_extract.alcohol.mdx", "MdxHeaderConstruct"),
}


def main():
    import importlib
    out, errors = {}, {}
    for key, (mod, name) in TARGETS.items():
        try:
            m = importlib.import_module(mod)
            s = getattr(m, name)
            out[key] = {"fields": fields(s), "size": None}
            try:
                out[key]["size"] = s.sizeof()
            except Exception:
                pass
        except Exception as e:
            errors[key] = repr(e)
    shapes = {}
    for key, (mod, name) in SHAPES.items():
        try:
            shapes[key] = shape(getattr(importlib.import_module(mod), name))
        except Exception as e:
            errors[key] = repr(e)
    json.dump({"structs": out, "shapes": shapes, "errors": errors, "construct": C.__version__}, sys.stdout, default=str)


if __name__ == "__main__":
    main()
