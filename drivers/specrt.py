"""Concrete reading of contract clauses (CPython).  Same clause text as the symbolic reading."""
import ast
import copy


def forall(*a):
    if len(a) == 3:
        lo, hi, f = a
        return all(f(j) for j in range(lo, hi))
    raise ValueError("unbounded forall has no concrete reading")


def exists(*a):
    if len(a) == 3:
        lo, hi, f = a
        return any(f(j) for j in range(lo, hi))
    raise ValueError("unbounded exists has no concrete reading")


def implies(a, b):
    return (not a) or bool(b)


def iff(a, b):
    return bool(a) == bool(b)


def ite(c, a, b):
    return a if c else b


def seq_eq(a, b):
    return list(a) == list(b)


def is_none(v):
    return v is None


def present(v):
    return v is not None


def opt_val(v):
    return v


def strlen(s):
    return len(s)


def imin(*a):
    return min(*a)


def imax(*a):
    return max(*a)


def to_real(x):
    return x


def absv(x):
    return abs(x)


def distinct(*a):
    return len(set(a)) == len(a)


BASE_ENV = {k: v for k, v in globals().items() if not k.startswith("_") and callable(v)}


class _OldRewriter(ast.NodeTransformer):
    def __init__(self):
        self.olds = []

    def visit_Call(self, node):
        if isinstance(node.func, ast.Name) and node.func.id == "old":
            k = len(self.olds)
            self.olds.append(node.args[0])
            return ast.Subscript(value=ast.Name(id="__old__", ctx=ast.Load()),
                                 slice=ast.Constant(value=k), ctx=ast.Load())
        return self.generic_visit(node)


class Clause:
    def __init__(self, label, text, defs=None):
        self.label = label
        self.text = text
        tree = ast.parse(text.strip(), mode="eval")
        rw = _OldRewriter()
        tree = rw.visit(tree)
        ast.fix_missing_locations(tree)
        self.code = compile(tree, f"<clause {label}>", "eval")
        self.old_codes = []
        for e in rw.olds:
            ex = ast.Expression(body=e)
            ast.fix_missing_locations(ex)
            self.old_codes.append(compile(ex, f"<old {label}>", "eval"))
        self.olds = None

    def snapshot(self, env):
        self.olds = [copy.deepcopy(eval(c, dict(env))) for c in self.old_codes]

    def holds(self, env):
        e = dict(env)
        e["__old__"] = self.olds or []
        return bool(eval(self.code, e))


def make_env(defs, extra):
    env = dict(BASE_ENV)
    env.update(extra)
    # spec definitions become Python lambdas over the same text
    for name, (params, text) in (defs or {}).items():
        env[name] = eval(f"lambda {', '.join(params)}: ({text})", env)
    return env
