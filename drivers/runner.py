"""Run under /venv/bin/python.  Calls the *real* functions of /repo with concrete inputs and
evaluates the concrete reading of their contracts.  Modes:
  replay  - one input set (counter-model of a refuted VC, or a recorded replay file)
  bounded - bounded stand-in (DESIGN 2.8 kind 2): every input of the contract's small-scope
            generator; never counted as proved.
Job on stdin (JSON), report on stdout (JSON)."""
import sys, os, json, signal, importlib, resource, time, traceback

HERE = os.path.dirname(os.path.dirname(os.path.abspath(__file__)))
REPO = os.environ.get("VERIF_REPO", "/repo")
sys.path.insert(0, HERE)
sys.path.insert(0, os.path.join(HERE, "drivers"))
sys.path.insert(0, REPO)

import specrt  # noqa


class Timeout(Exception):
    pass


def _alarm(signum, frame):
    raise Timeout()


def call_with_limit(fn, args, kwargs, seconds):
    # the limit is CPU time of this process (ITIMER_PROF: user + system), so that a loaded machine cannot turn a slow but
    # finishing call into a "timeout"; a generous wall-clock alarm (10x) remains for calls that block without computing
    signal.signal(signal.SIGALRM, _alarm)
    signal.signal(signal.SIGPROF, _alarm)
    signal.setitimer(signal.ITIMER_PROF, seconds)
    signal.setitimer(signal.ITIMER_REAL, 10 * seconds)
    try:
        return ("return", fn(*args, **kwargs))
    except Timeout:
        return ("timeout", None)
    except MemoryError:
        return ("memory", None)
    except RecursionError:
        return ("raise", "RecursionError")
    except BaseException as e:  # noqa
        return ("raise", e)
    finally:
        signal.setitimer(signal.ITIMER_PROF, 0)
        signal.setitimer(signal.ITIMER_REAL, 0)


def exc_names(e):
    return [c.__name__ for c in type(e).__mro__]


def check_one(con, hooks, inputs, timeout_s):
    """Returns (outcome summary, [failed labels], [checker problems])."""
    built = hooks["build"](inputs)
    env = specrt.make_env(con.defs, built.get("env", {}))
    ens = [specrt.Clause(l, t) for (l, t) in con.ensures_]
    exc_ens = [(e, specrt.Clause(l, t)) for (e, l, t) in getattr(con, "exc_ensures_", [])]
    problems = []
    for c in ens + [c for (_, c) in exc_ens]:
        try:
            c.snapshot(env)
        except Exception as e:
            problems.append(f"old() of {c.label}: {e!r}")
    for (lbl, text) in con.requires_:
        try:
            if not eval(text, dict(env)):
                return {"kind": "precondition-not-met", "requires": lbl}, [], problems
        except Exception as e:
            problems.append(f"requires {lbl}: {e!r}")
    whens = []
    for k, (exc, when, iff) in enumerate(con.raises_):
        if k in con.at_raise:
            whens.append(None)
            continue
        try:
            whens.append(bool(eval(when, dict(env))))
        except Exception as e:
            whens.append(None)
            problems.append(f"raises {exc} when: {e!r}")
    kind, val = call_with_limit(built["call"], built.get("args", []), built.get("kwargs", {}), timeout_s)
    failed = []
    summary = {"kind": kind}
    if kind in ("timeout", "memory"):
        failed.append("termination" if kind == "timeout" else "memory-bound")
    elif kind == "raise":
        names = exc_names(val) if not isinstance(val, str) else [val]
        summary["exception"] = names[0]
        declared = [e for (e, w, iff) in con.raises_]
        for (e, c) in exc_ens:
            if e in names:
                try:
                    if not c.holds(env):
                        failed.append(c.label)
                except Exception as ex:
                    problems.append(f"clause {c.label}: {ex!r}")
        if not any(n in declared for n in names):
            failed.append(f"no-undeclared-exception.{names[0]}")
        else:
            ws = [w for (e, _, _), w in zip(con.raises_, whens) if e in names]
            if ws and all(w is False for w in ws):
                failed.append(f"raises.{names[0]}.when")
    else:
        for (e, _, iff), w in zip(con.raises_, whens):
            if iff and w is True:
                failed.append(f"raises.{e}.iff")
        env["result"] = val
        summary["result"] = hooks.get("show", repr)(val)[:300] if val is not None else None
        if built.get("post_env"):
            env.update(built["post_env"](val))
        for c in ens:
            try:
                if not c.holds(env):
                    failed.append(c.label)
            except Exception as e:
                problems.append(f"clause {c.label}: {e!r}")
    if "oracle" in hooks:
        try:
            failed += list(hooks["oracle"](inputs, kind, val, env))
        except Exception as e:
            problems.append("oracle: " + "".join(traceback.format_exception_only(type(e), e)).strip())
    return summary, failed, problems


# inputs explained by a listed known finding also arrive here as violations (the harness sets them aside afterwards), so the
# search must not stop after a handful of them
VIOLATION_CAP = 60


class NotAuto(Exception):
    pass


def auto_value(desc, v):
    """Concrete Python value for a contract parameter description (generic replay of counter-models on functions that
    have no hand-written builder): scalars, lists, bytes, options, tuples and value records (as attribute namespaces)."""
    import types
    if desc in ("int", "bool", "str"):
        if v is None:
            raise NotAuto("no model value")
        return v
    if isinstance(desc, tuple):
        k = desc[0]
        if k == "bytes":
            return bytes(x & 0xFF for x in (v or []))
        if k == "list":
            return [auto_value(desc[1], x) for x in (v or [])]
        if k == "const":
            return desc[1]
        if k == "opt":
            return None if v is None else auto_value(desc[1], v)
        if k == "tuple":
            return tuple(auto_value(d, x) for d, x in zip(desc[1], v))
        if k == "rec" and isinstance(v, dict):
            return types.SimpleNamespace(**{f: auto_value(d, v.get(f)) for f, d in desc[2].items()})
        if k == "drop":
            return None
    raise NotAuto(f"no generic builder for {desc!r}")


def auto_applicable(con):
    if con.self_desc is not None or getattr(con, "lemma_src", None) or getattr(con, "abstract", False):
        return False
    key = getattr(con, "source_key", None) or con.key.split("#")[0].split("[")[0]
    if "." in key.split(":")[-1] or key.startswith("pyx:"):
        return False

    def ok(d):
        if d in ("int", "bool", "str"):
            return True
        if isinstance(d, tuple):
            if d[0] in ("bytes", "const", "drop"):
                return True
            if d[0] in ("list", "opt"):
                return ok(d[1])
            if d[0] == "tuple":
                return all(ok(x) for x in d[1])
            if d[0] == "rec":
                return all(ok(x) for x in d[2].values())
        return False
    return all(ok(d) for d in con.params.values())


def auto_build(con, inputs):
    key = getattr(con, "source_key", None) or con.key.split("#")[0].split("[")[0]
    modname, fname = key.split(":")
    fn = getattr(importlib.import_module(modname), fname)
    args = {n: auto_value(d, inputs.get(n)) for n, d in con.params.items()}
    return {"call": fn, "kwargs": dict(args), "env": dict(args)}


def main():
    job = json.load(sys.stdin)
    resource.setrlimit(resource.RLIMIT_AS, (6 << 30, 6 << 30))
    mod = importlib.import_module(job["contract_module"])
    from pyvc.contract import REGISTRY
    con = REGISTRY[job["key"]]
    if job.get("lemma"):
        # generic replay of a lemma: its harness body is executed in the real module's namespace
        def lemma_namespace(con):
            lm = con.lemma_module
            if lm.startswith("pyx:") or lm.startswith("pyxfn:"):
                # the same mechanical extraction / translation the VCs were generated from, executed natively
                import math
                import numpy as np
                from pyvc.source import SourceIndex
                text = SourceIndex(os.environ.get("VERIF_REPO", "/repo")).module(lm).text

                def wrap(bits):
                    half, mod = 2 ** (bits - 1), 2 ** bits
                    return lambda v: (int(math.trunc(v)) + half) % mod - half
                ns = {"np": np, "trunc": lambda v: float(math.trunc(v)), "c_cast_double": float, "c_cast_float": float,
                      "cround": lambda v: float(math.floor(abs(v) + 0.5)) * (1 if v >= 0 else -1),
                      "c_cast_short": wrap(16), "c_cast_int": wrap(32), "c_cast_long": wrap(64)}
                exec(text, ns)
                return ns
            return dict(vars(importlib.import_module(lm)))

        def build(inputs, con=con):
            ns = lemma_namespace(con)
            exec(con.lemma_src, ns)
            import ast as _ast
            fname = _ast.parse(con.lemma_src).body[0].name
            args = [inputs[p] for p in con.params]
            return {"call": ns[fname], "args": args, "env": dict(inputs)}
        hooks = {"build": build}
    elif job.get("auto"):
        hooks = {"build": lambda inputs, con=con: auto_build(con, inputs)}
    else:
        hooks = getattr(mod, "CONCRETE")[job["key"]]
    timeout_s = job.get("timeout_s", 2.0)
    out = {"evaluations": 0, "violations": [], "problems": [], "samples": [], "distinct_nontrivial": 0,
           "outcomes": {}}
    t0 = time.time()
    if job["mode"] == "replay":
        summary, failed, problems = check_one(con, hooks, job["inputs"], job.get("timeout_s", 5.0))
        out["evaluations"] = 1
        out["samples"].append({"inputs": job["inputs"], "outcome": summary})
        out["problems"] = problems
        if failed:
            out["violations"].append({"inputs": job["inputs"], "outcome": summary, "failed": failed})
    else:
        seen_nontrivial = set()
        budget = job.get("budget_s", 60)
        if job.get("shard"):
            gen = hooks["small"](job.get("tier", "quick"), job.get("seed", 0), shard=tuple(job["shard"]))
        else:
            gen = hooks["small"](job.get("tier", "quick"), job.get("seed", 0))
        for inputs in gen:
            summary, failed, problems = check_one(con, hooks, inputs, timeout_s)
            out["evaluations"] += 1
            k = summary["kind"] + ":" + str(summary.get("exception", ""))
            out["outcomes"][k] = out["outcomes"].get(k, 0) + 1
            nt = hooks.get("nontrivial", lambda i, s: s["kind"] == "return")(inputs, summary)
            if nt:
                seen_nontrivial.add(json.dumps(inputs, sort_keys=True))
            if len(out["samples"]) < 3 and nt:
                out["samples"].append({"inputs": inputs, "outcome": summary})
            for p in problems:
                if len(out["problems"]) < 10:
                    out["problems"].append(p)
            pref = job.get("clause_prefixes")
            if pref:
                # a shared monitor evaluates clauses of several properties: only this check's own clauses count here
                failed = [f for f in failed if any(f.startswith(x) for x in pref)]
            if failed and len(out["violations"]) < VIOLATION_CAP:
                out["violations"].append({"inputs": inputs, "outcome": summary, "failed": failed})
            if len(out["violations"]) >= VIOLATION_CAP:
                out["stopped_after_violations"] = True
                break
            if time.time() - t0 > budget:
                out["budget_exhausted"] = True
                break
        out["distinct_nontrivial"] = len(seen_nontrivial)
    out["wall_s"] = time.time() - t0
    json.dump(out, sys.stdout)


if __name__ == "__main__":
    main()
