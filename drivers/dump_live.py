"""Run under /venv/bin/python.  Imports the real repo modules (from REPO, default /repo)
and dumps module-level constants, enum tables, regex patterns and symbol references as JSON
on stdout.  Nothing here is hand-copied from the repo: the engine reads these on every run."""
import sys, os, json, importlib, enum, re, types, inspect

REPO = os.environ.get("VERIF_REPO", "/repo")
sys.path.insert(0, REPO)

MODULES = [
    "smpl_extract.util.stream", "smpl_extract.util.sector", "smpl_extract.util.fat",
    "smpl_extract.akai.sat", "smpl_extract.akai.data_types", "smpl_extract.akai.akai_string",
    "smpl_extract.akai.sample", "smpl_extract.akai.file_entry", "smpl_extract.akai.volume",
    "smpl_extract.akai.image", "smpl_extract.akai.partition", "smpl_extract.akai.file",
    "smpl_extract.akai.program", "smpl_extract.akai.keygroup",
    "smpl_extract.roland.s7xx.fat", "smpl_extract.roland.s7xx.data_types",
    "smpl_extract.roland.s7xx.sample_file", "smpl_extract.roland.s7xx.sample_entry",
    "smpl_extract.roland.s7xx.image", "smpl_extract.roland.s7xx.directory_area",
    "smpl_extract.roland.s7xx.volume_entry", "smpl_extract.roland.s7xx.performance_entry",
    "smpl_extract.roland.s7xx.patch_entry", "smpl_extract.roland.s7xx.partial_entry",
    "smpl_extract.transcoder", "smpl_extract.data_streams", "smpl_extract.structural",
    "smpl_extract.base", "smpl_extract.elements", "smpl_extract.cuesheet",
    "smpl_extract.cdda.image", "smpl_extract.actions", "smpl_extract.midi",
    "smpl_extract.generalized.sample", "smpl_extract.generalized.wav",
    "smpl_extract.formats.wav", "smpl_extract.alcohol.mdf", "smpl_extract.alcohol.mdx",
    "smpl_extract.util.constructs", "smpl_extract.info", "smpl_extract.util.dataclass",
]


def enc(v, depth=0):
    if v is None or isinstance(v, (bool, str)):
        return v
    if isinstance(v, enum.Enum):
        val = v.value
        return {"__member__": type(v).__name__ + "." + v.name,
                "value": val if isinstance(val, int) else None}
    if isinstance(v, int):
        return int(v)
    if isinstance(v, float):
        return {"__float__": repr(v)}
    if isinstance(v, (bytes, bytearray)):
        return {"__bytes__": bytes(v).hex()}
    if isinstance(v, re.Pattern):
        return {"__regex__": v.pattern, "flags": int(v.flags)}
    if isinstance(v, type):
        if issubclass(v, enum.Enum):
            return {"__enum__": v.__name__,
                    "module": v.__module__,
                    "members": {m.name: (m.value if isinstance(m.value, int) else None) for m in v},
                    "int": issubclass(v, int)}
        if issubclass(v, BaseException):
            return {"__class__": v.__module__ + ":" + v.__qualname__,
                    "exc_bases": [b.__name__ for b in v.__mro__[1:] if b is not object]}
        return {"__class__": v.__module__ + ":" + v.__qualname__}
    if isinstance(v, types.FunctionType):
        if v.__name__ == "<lambda>":
            try:
                return {"__lambda__": inspect.getsourcefile(v), "lineno": v.__code__.co_firstlineno}
            except Exception:
                return {"__opaque__": "lambda"}
        return {"__func__": v.__module__ + ":" + v.__qualname__}
    if isinstance(v, types.ModuleType):
        return {"__module__": v.__name__}
    if depth < 4:
        if isinstance(v, dict) and not hasattr(v, "__dict__"):
            return {"__dict__": [[enc(k, depth + 1), enc(x, depth + 1)] for k, x in v.items()]}
        if isinstance(v, (list, tuple)):
            return {"__seq__": [enc(x, depth + 1) for x in v], "tuple": isinstance(v, tuple)}
    return {"__opaque__": type(v).__module__ + "." + type(v).__name__}


def main():
    out = {}
    errors = {}
    for name in MODULES:
        try:
            m = importlib.import_module(name)
        except Exception as e:  # a module that no longer imports is reported, not hidden
            errors[name] = repr(e)
            continue
        d = {}
        for k, v in vars(m).items():
            if k.startswith("__"):
                continue
            d[k] = enc(v)
        out[name] = d
    import numpy, construct
    # the exception hierarchy of the construct library itself (a contract may name a class the repository module does not import)
    out["construct.core#exceptions"] = {k: enc(v) for k, v in vars(construct.core).items() if isinstance(v, type) and issubclass(v, BaseException)}
    meta = {"python": sys.version.split()[0], "numpy": numpy.__version__,
            "construct": construct.__version__, "byteorder": sys.byteorder,
            "repo": REPO, "import_errors": errors}
    # character-class tables over ASCII, measured from this interpreter (DESIGN 2.4)
    meta["ascii_w"] = [c for c in range(128) if re.match(r"\w", chr(c))]
    meta["ascii_s"] = [c for c in range(128) if re.match(r"\s", chr(c))]
    meta["ascii_d"] = [c for c in range(128) if re.match(r"\d", chr(c))]
    meta["str_strip_set"] = [c for c in range(128) if chr(c).strip() == ""]
    json.dump({"modules": out, "meta": meta}, sys.stdout)


if __name__ == "__main__":
    main()
