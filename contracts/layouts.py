"""Independent layout tables (DESIGN 4.4): field -> (offset, width, encoding).  Numbers are literals, written from sources other
than the Python declarations: AKAI S1000/S3000 disk format as publicly documented (and as used by the independent writer
/verif/bounded/akai_writer.py), Roland from the in-repo Kaitai description ksy/roland/s770.ksy, WAV from the RIFF `fmt `/`smpl`
specification, MODE1/2352 and Alcohol MDX headers from their published layouts.  Changing a declaration in the repo cannot move these."""

AKAI_LOOP_TYPES = {0: "LOOP_IN_RELEASE", 1: "LOOP_UNTIL_RELEASE", 2: "LOOP_INACTIVE", 3: "PLAY_TO_SAMPLE_END"}

TABLES = {
    "akai.sample:SampleHeaderConstruct": {
        "size": 140,
        "fields": [
            ("id", 0, 1, "u8", {"mapping": {1: "S1000", 3: "S3000"}}),
            ("note_pitch", 2, 1, "u8"),
            ("sample_name", 3, 12, "bytes"),
            ("loop_type", 19, 1, "u8", {"mapping": AKAI_LOOP_TYPES}),
            ("pitch_offset_cents", 20, 1, "i8"),
            ("pitch_offset_semi", 21, 1, "i8"),
            ("samples_cnt", 26, 4, "u32le"),
            ("play_start", 30, 4, "u32le"),
            ("play_end", 34, 4, "u32le"),
            ("loop_data_table", 38, 96, "array", {"count": 8, "element": [("loop_start", 0, 4, "u32le"), ("loop_length_fine", 4, 2, "u16le"),
                                                                            ("loop_length_coarse", 6, 4, "u32le"), ("loop_duration", 10, 2, "u16le")]}),
            ("sampling_rate", 138, 2, "u16le"),
            ("data_address", 140, 0, "tell"),
        ],
        # the exported window: 16-bit words [start, end) right after the 140-byte header
        "exprs": [(("data_stream", "size"), lambda e: 2 * (e["play_end"] - e["play_start"]), ["play_start", "play_end"]),
                  (("data_stream", "offset"), lambda e: 140 + 2 * e["play_start"], ["play_start", "play_end"])],
    },
    "akai.file_entry:FileEntryConstruct": {
        "size": 24,
        "fields": [("name", 0, 12, "bytes"),
                   ("file_type", 16, 1, "u8", {"mapping": {0x73: "SAMPLE_S1000", 0xF3: "SAMPLE_S3000", 0x70: "PROGRAM_S1000", 0xF0: "PROGRAM_S3000"}}),
                   ("size", 17, 3, "u24le"), ("start", 20, 2, "u16le")],
    },
    "akai.volume:VolumeEntryConstruct": {
        "size": 16,
        "fields": [("name", 0, 12, "bytes"), ("type_raw", 12, 2, "u16le"), ("start", 14, 2, "u16le")],
    },
    "akai.partition:PartitionHeaderConstruct": {
        "size": 202,
        "fields": [("size", 0, 2, "u16le")],
    },
    "roland.sample_entry:SampleParamEntryStruct": {
        "size": 48,
        "fields": [("name", 0, 16, "bytes"),
                   ("start_sample", 16, 4, "struct"), ("sustain_loop_start", 20, 4, "struct"), ("sustain_loop_end", 24, 4, "struct"),
                   ("release_loop_start", 28, 4, "struct"), ("release_loop_end", 32, 4, "struct"),
                   ("loop_mode", 36, 1, "u8", {"mapping": {0: "FORWARD_END", 1: "FORWARD_RELEASE", 2: "ONESHOT", 3: "FORWARD_ONESHOT",
                                                           4: "ALTERNATE", 5: "REVERSE_ONESHOT", 6: "REVERSE_LOOP"}}),
                   ("cluster_top", 40, 2, "u16le"), ("num_clusters", 42, 2, "u16le"),
                   ("sample_options", 44, 1, "any"), ("original_key", 45, 1, "u8")],
    },
    "roland.sample_entry:SampleParamLoopPointStruct": {
        "size": 4,
        "fields": [("raw_value", 0, 4, "u32le")],
    },
    "formats.wav:WavFormatChunkStruct": {
        "size": 16,
        "fields": [("audio_format", 0, 2, "u16le"), ("channel_cnt", 2, 2, "u16le"), ("sample_rate", 4, 4, "u32le"),
                   ("byte_rate", 8, 4, "u32le"), ("block_align", 12, 2, "u16le"), ("bits_per_sample", 14, 2, "u16le")],
    },
    "formats.wav:WavLoopStruct": {
        "size": 24,
        "fields": [("cue_id", 0, 4, "u32le"), ("loop_type", 4, 4, "u32le"), ("start_byte", 8, 4, "u32le"), ("end_byte", 12, 4, "u32le"),
                   ("fraction", 16, 4, "u32le"), ("play_cnt", 20, 4, "u32le")],
    },
    "formats.wav:WavSampleChunkStruct": {
        "fields": [("manufacturer", 0, 4, "u32le"), ("product", 4, 4, "u32le"), ("sample_period", 8, 4, "u32le"), ("midi_note", 12, 4, "u32le"),
                   ("pitch_fraction", 16, 4, "u32le"), ("smpte_format", 20, 4, "u32le"), ("smpte_offset", 24, 4, "u32le"),
                   ("sample_loop_cnt", 28, 4, "u32le"), ("sampler_data_size", 32, 4, "u32le")],
    },
    "alcohol.mdf:MdfSectorHeaderConstruct": {
        "size": 16,
        "fields": [("magic", 0, 12, "bytes"), ("id", 12, 3, "u24be")],
    },
    "alcohol.mdx:MdxHeaderConstruct": {
        "size": 64,
        "fields": [("magic", 0, 16, "bytes"), ("version", 16, 2, "bytes"), ("copyright", 18, 26, "bytes"), ("eof", 48, 8, "u64le")],
    },
}

# ---------------------------------------------------------------------------------------------------------------------------
# Declaration TREES (C04): the RIFF container as the WAVE specification and the property statement describe it, written here
# independently of the code: "RIFF" <u32 size of the rest> "WAVE" { <u32 chunk id> <u32 size of the chunk body> <body> }*,
# fmt body = 16 bytes with byte rate and block align COMPUTED from the other fields, smpl body = 9 u32 + 24-byte loops,
# data body = the generator's blocks.  With construct's (trusted) semantics of Prefixed (length of the built sub-construct as u32le, then
# its bytes, length field not included) and GreedyRange (every list element in order) this gives: RIFF size = file length - 8,
# declared chunk sizes add up to the file, smpl size = 36 + 24 * loop count.
def _p(path):
    return {"path": f"this['{path}']"}


def _bin(op, a, b):
    return {"op": op, "lhs": a, "rhs": b}


_FMT_BODY = {"Struct": [
    ["audio_format", "u16le"], ["channel_cnt", "u16le"], ["sample_rate", "u32le"],
    ["byte_rate", {"Rebuild": {"sub": "u32le", "func": _bin("floordiv", _bin("mul", _bin("mul", _p("sample_rate"), _p("channel_cnt")), _p("bits_per_sample")), {"const": 8})}}],
    ["block_align", {"Rebuild": {"sub": "u16le", "func": _bin("floordiv", _bin("mul", _p("channel_cnt"), _p("bits_per_sample")), {"const": 8})}}],
    ["bits_per_sample", "u16le"]]}
_LOOP = {"Struct": [["cue_id", "u32le"], ["loop_type", {"Enum": "u32le", "map": {"FORWARD": 0, "ALTERNATING": 1, "REVERSE": 2, "UNKNOWN": 3}}],
                    ["start_byte", "u32le"], ["end_byte", "u32le"], ["fraction", "u32le"], ["play_cnt", "u32le"]]}
_SMPL_BODY = {"Struct": [
    ["manufacturer", "u32le"], ["product", "u32le"], ["sample_period", "u32le"], ["midi_note", {"ExprAdapter": "u32le"}], ["pitch_fraction", "u32le"],
    ["smpte_format", {"Enum": "u32le", "map": {"NONE": 0, "FPS24": 24, "FPS25": 25, "FPS30_DROP": 29, "FPS30": 30}}], ["smpte_offset", "u32le"],
    ["sample_loop_cnt", {"Rebuild": {"sub": "u32le", "func": {"func": "len", "operand": _p("sample_loops")}}}],
    ["sampler_data_size", {"Rebuild": {"sub": "u32le", "func": {"func": "len", "operand": _p("sampler_data")}}}],
    ["sample_loops", {"Array": {"count": _p("sample_loop_cnt"), "sub": _LOOP}}],
    ["sampler_data", {"Array": {"count": _p("sampler_data_size"), "sub": "u8"}}]]}
_CHUNK = {"Struct": [
    ["riff_id", {"Enum": "u32le", "map": {"FMT": int.from_bytes(b"fmt ", "little"), "SMPL": int.from_bytes(b"smpl", "little"),
                                          "DATA": int.from_bytes(b"data", "little")}}],
    ["data", {"Prefixed": {"length": "u32le", "includelength": False,
                           "sub": {"Switch": {"key": _p("riff_id"), "cases": {"FMT": _FMT_BODY, "SMPL": _SMPL_BODY, "DATA": {"Lazy": {"GreedyRange": "GreedyBytes"}}},
                                              "default": "Pass"}}}}]]}
SHAPES = {
    "formats.wav:RiffStruct": {"Struct": [
        ["fourcc", {"Const": b"RIFF".hex()}],
        ["data", {"Prefixed": {"length": "u32le", "includelength": False,
                               "sub": {"Struct": [["fourcc", {"Const": b"WAVE".hex()}], ["chunks", {"GreedyRange": _CHUNK}]]}}}]]},
}
# C09: what makes a file "MODE1/2352 raw sectors" / "an MDX wrapper" - the detection predicates are `this header parses`, so the
# declaration tree IS the predicate.  A raw sector is recognised by the 12-byte sync pattern and the mode byte 1, whatever its 3-byte
# (BCD minute/second/frame) address: a data track need not start at 00:02:00.  An MDX file by its magic, a copyright field that
# starts with the (c) sign 0xA9, and the 64-bit end-of-data offset at byte 48.  No other validator, no other constant.
SHAPES["alcohol.mdf:MdfSectorHeaderConstruct"] = {"Struct": [
    ["magic", {"Const": (b"\x00" + b"\xff" * 10 + b"\x00").hex()}], ["id", "u24be"], [None, {"Const": 1}]]}
SHAPES["alcohol.mdx:MdxHeaderConstruct"] = {"Struct": [
    ["magic", {"Const": b"MEDIA DESCRIPTOR".hex()}], ["version", {"Default": {"Bytes": 2}}],
    ["copyright", {"ExprValidator": {"sub": {"Default": {"Bytes": 26}}, "validator": {"op": "eq", "lhs": {"path": "obj_[0]"}, "rhs": {"const": 0xA9}}}}],
    [None, {"Padded": {"length": 4, "sub": "Pass"}}], ["eof", "u64le"], [None, {"Padded": {"length": 8, "sub": "Pass"}}]]}
SHAPES_BY_PROPERTY = {"C04": ["formats.wav:RiffStruct"], "C09": ["alcohol.mdf:MdfSectorHeaderConstruct", "alcohol.mdx:MdxHeaderConstruct"]}

# ---------------------------------------------------------------------------------------------------------------------------
# AKAI program header / keygroup / velocity zone (C20): generated from the field tables of the INDEPENDENT program writer
# (bounded/akai_program_writer.py, written by a separate agent from the S1000 format description): printed key = field name,
# offset, one byte, signedness.  Fields behind the variable-size zone block of a keygroup have no static offset in the
# declaration; they are judged by the end-to-end program monitor only.
def _program_tables():
    import importlib.util
    import os
    here = os.path.dirname(os.path.dirname(os.path.abspath(__file__)))
    spec = importlib.util.spec_from_file_location("akai_program_writer_tables", os.path.join(here, "bounded", "akai_program_writer.py"))
    m = importlib.util.module_from_spec(spec)
    spec.loader.exec_module(m)
    kind = {"B": "u8", "b": "i8"}

    def rows(tbl, limit=None):
        out = []
        for (_model, off, fmt, _dflt, key, _k) in tbl:
            if key is None or (limit is not None and off >= limit):
                continue
            out.append((key, off, 1, kind[fmt]))
        return out
    zone = [(key, off, 1, kind[fmt]) for (_m, off, fmt, _d, key, _k) in m.ZONE_FIELDS]
    return {
        "akai.program:ProgramHeaderConstruct": {"size": m.HEADER_TAIL_OFFSET, "fields": rows(m.HEADER_FIELDS) + [
            ("first_keygroup_address", m.HEADER_FIRST_KG_OFFSET, 2, "u16le"), ("program_name", m.HEADER_NAME_OFFSET, 12, "bytes"),
            ("number_of_keygroups", m.HEADER_GROUPS_OFFSET, 1, "u8"), ("key_temperaments", m.HEADER_TEMPER_OFFSET, 12, "array")]},
        "akai.keygroup:KeygroupConstruct": {"fields": rows(m.KEYGROUP_FIELDS, limit=34) + [
            ("next_keygroup_address", m.KEYGROUP_NEXT_OFFSET, 2, "u16le"), ("num_velocity_zones", 31, 1, "u8")]},
        "akai.keygroup:VelocityZoneConstruct": {"size": 24, "fields": zone + [("sample_name", 0, 12, "bytes")]},
    }


TABLES.update(_program_tables())

BY_PROPERTY = {
    "C20": ["akai.sample:SampleHeaderConstruct", "roland.sample_entry:SampleParamEntryStruct", "roland.sample_entry:SampleParamLoopPointStruct",
            "akai.program:ProgramHeaderConstruct", "akai.keygroup:KeygroupConstruct", "akai.keygroup:VelocityZoneConstruct"],
    "C01": ["akai.sample:SampleHeaderConstruct", "akai.file_entry:FileEntryConstruct", "akai.volume:VolumeEntryConstruct",
            "akai.partition:PartitionHeaderConstruct"],
    "C02": ["roland.sample_entry:SampleParamEntryStruct", "roland.sample_entry:SampleParamLoopPointStruct"],
    "C04": ["formats.wav:WavFormatChunkStruct", "formats.wav:WavLoopStruct", "formats.wav:WavSampleChunkStruct"],
    "C09": ["alcohol.mdf:MdfSectorHeaderConstruct", "alcohol.mdx:MdxHeaderConstruct"],
    "C14": ["akai.file_entry:FileEntryConstruct"],
}
