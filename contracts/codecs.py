"""C18: name / note / tuning codecs.  Symbolic lemmas call the *real* functions (inlined, loop-free,
whole integer domain); float- and text-based codecs are enumerated exhaustively on the real code."""
from pyvc.contract import contract

AS = "smpl_extract.akai.akai_string"
MIDI = "smpl_extract.midi"

# expected ASCII code of each valid AKAI byte - written from the property statement (41 characters:
# 0-9, space, A-Z, # + - .), not read from the repo's tables
EXPECT = ("ite(b <= 9, 48 + b, ite(b == 10, 32, ite(b <= 36, 65 + (b - 11), "
          "ite(b == 37, 35, ite(b == 38, 43, ite(b == 39, 45, 46))))))")


@contract("lemma:akai_to_ascii_table", props=["C18"], lemma_module=AS,
          lemma_deps=[AS + ":_fast_akai_to_ascii_byte"],
          lemma_src="def to_ascii(b):\n    return _fast_akai_to_ascii_byte(b)\n")
def _l1(c):
    c.param("b", "int")
    c.raises("InvalidCharacter", "b < 0 or b > 40", iff=True)
    c.ensures(f"result == {EXPECT}", "maps-to-the-listed-character")


@contract("lemma:akai_to_ascii_table_generic", props=["C18"], lemma_module=AS,
          lemma_deps=[AS + ":_char_format_convert_byte"],
          lemma_src="def to_ascii(b):\n    return _char_format_convert_byte(b, CharFormat.AKAI, CharFormat.ASCII)\n")
def _l1b(c):
    c.param("b", "int")
    c.raises("InvalidCharacter", "b < 0 or b > 40", iff=True)
    c.ensures(f"result == {EXPECT}", "maps-to-the-listed-character")


@contract("lemma:akai_ascii_roundtrip", props=["C18"], lemma_module=AS,
          lemma_deps=[AS + ":_fast_akai_to_ascii_byte", AS + ":_char_format_convert_byte"],
          lemma_src="def rt(b):\n    a = _fast_akai_to_ascii_byte(b)\n"
                    "    return _char_format_convert_byte(a, CharFormat.ASCII, CharFormat.AKAI)\n")
def _l2(c):
    c.param("b", "int")
    c.raises("InvalidCharacter", "b < 0 or b > 40", iff=True)
    c.ensures("result == b", "akai->ascii->akai is the identity on valid bytes")


@contract("lemma:ascii_akai_roundtrip", props=["C18"], lemma_module=AS,
          lemma_deps=[AS + ":_fast_akai_to_ascii_byte", AS + ":_char_format_convert_byte"],
          lemma_src="def rt(a):\n    b = _char_format_convert_byte(a, CharFormat.ASCII, CharFormat.AKAI)\n"
                    "    return (b, _fast_akai_to_ascii_byte(b))\n")
def _l3(c):
    c.param("a", "int")
    c.define("valid_ascii", ["a"], "(48 <= a and a <= 57) or (65 <= a and a <= 90) or a == 32 or a == 35 or a == 43 or a == 45 or a == 46")
    c.raises("InvalidCharacter", "not valid_ascii(a)", iff=True)
    c.ensures("result[1] == a", "ascii->akai->ascii is the identity on the 41 characters")
    c.ensures("0 <= result[0] and result[0] <= 40", "akai code in range")


@contract("lemma:note_int_roundtrip", props=["C18"], lemma_module=MIDI,
          lemma_deps=[MIDI + ":MidiNote.from_int_a0", MIDI + ":MidiNote.to_int_a0"],
          lemma_src="def rt(b):\n    n = MidiNote.from_int_a0(b)\n    return n.to_int_a0()\n")
def _l4(c):
    c.param("b", "int")
    c.ensures("result == b", "note number -> note -> note number is the identity for every integer")


@contract("lemma:note_akai_byte_roundtrip", props=["C18"], lemma_module=MIDI,
          lemma_deps=[MIDI + ":MidiNote.from_akai_byte", MIDI + ":MidiNote.to_akai_byte"],
          lemma_src="def rt(b):\n    n = MidiNote.from_akai_byte(b)\n    return n.to_akai_byte()\n")
def _l5(c):
    c.param("b", "int")
    c.ensures("result == b")


@contract("lemma:note_midi_byte_roundtrip", props=["C18"], lemma_module=MIDI,
          lemma_deps=[MIDI + ":MidiNote.from_midi_byte", MIDI + ":MidiNote.to_midi_byte"],
          lemma_src="def rt(b):\n    n = MidiNote.from_midi_byte(b)\n    return n.to_midi_byte()\n")
def _l6(c):
    c.param("b", "int")
    c.ensures("result == b")


@contract("lemma:note_fields", props=["C18"], lemma_module=MIDI,
          lemma_deps=[MIDI + ":MidiNote.from_int_a0"],
          lemma_src="def f(b):\n    n = MidiNote.from_int_a0(b)\n    return (n.scale_degree, n.is_sharp, n.octave)\n")
def _l7(c):
    c.param("b", "int")
    c.ensures("result[2] == b // 12", "octave")
    c.ensures("0 <= result[0] and result[0] <= 6", "degree A..G")
    # only A C D F G carry a sharp (statement: 12 note names per octave)
    c.ensures("implies(result[1], result[0] == 0 or result[0] == 2 or result[0] == 3 or result[0] == 5 or result[0] == 6)", "sharps")


@contract("lemma:tuning_real_roundtrip", props=["C18"], lemma_module="smpl_extract.akai.data_types",
          lemma_deps=["smpl_extract.akai.data_types:parse_akai_tune_cents", "smpl_extract.akai.data_types:build_akai_tune_cents"],
          lemma_src="def rt(x):\n    return build_akai_tune_cents(parse_akai_tune_cents(x))\n")
def _l8(c):
    c.param("x", "int")
    c.requires("-128 <= x and x <= 127")
    c.ensures("result == x", "tuning byte -> cents -> tuning byte (exact real arithmetic; the IEEE-754 reading is the exhaustive check below)")
    c.note = "floats are read as exact reals in this lemma"


# ------------------------------------------------------------------ exhaustive finite domains on the real code
CONCRETE = {}


def _build_codec(inputs):
    kind = inputs["kind"]
    v = inputs["v"]
    if kind == "tune":
        from smpl_extract.akai.data_types import parse_akai_tune_cents, build_akai_tune_cents
        return {"call": lambda: build_akai_tune_cents(parse_akai_tune_cents(v)), "env": {"v": v, "expect": v}}
    if kind == "tune_zero":
        from smpl_extract.akai.data_types import parse_akai_tune_cents
        return {"call": lambda: (parse_akai_tune_cents(v) == 0) == (v == 0), "env": {"v": v, "expect": True}}
    if kind == "akai_byte":
        from smpl_extract.akai.akai_string import char_akai_to_ascii, char_ascii_to_akai
        from smpl_extract.akai.data_types import InvalidCharacter

        def f():
            try:
                s = char_akai_to_ascii(bytes([v]))
            except InvalidCharacter:
                return "rejected"
            return list(char_ascii_to_akai(s))
        return {"call": f, "env": {"v": v, "expect": [v] if v <= 40 else "rejected"}}
    if kind == "ascii_byte":
        from smpl_extract.akai.akai_string import char_akai_to_ascii, char_ascii_to_akai
        from smpl_extract.akai.data_types import InvalidCharacter
        valid = set(b"0123456789 ABCDEFGHIJKLMNOPQRSTUVWXYZ#+-.")

        def f():
            try:
                a = char_ascii_to_akai(bytes([v]))
            except InvalidCharacter:
                return "rejected"
            return char_akai_to_ascii(a)
        return {"call": f, "env": {"v": v, "expect": chr(v) if v in valid else "rejected"}}
    if kind == "note_byte":
        from smpl_extract.midi import MidiNote
        which = inputs["which"]
        fr, to = {"a0": (MidiNote.from_int_a0, MidiNote.to_int_a0), "akai": (MidiNote.from_akai_byte, MidiNote.to_akai_byte),
                  "midi": (MidiNote.from_midi_byte, MidiNote.to_midi_byte)}[which]
        return {"call": lambda: to(fr(v)), "env": {"v": v, "expect": v}}
    if kind == "note_text":
        from smpl_extract.midi import MidiNote, ScaleDegree
        deg, sharp, octv = v
        n = MidiNote(ScaleDegree(deg), bool(sharp), octv)

        def f():
            m = MidiNote.from_string(n.to_string())
            return [int(m.scale_degree), bool(m.is_sharp), m.octave]
        return {"call": f, "env": {"v": v, "expect": [deg, bool(sharp), octv]}}
    if kind == "akai_string":
        from smpl_extract.akai.akai_string import char_akai_to_ascii, char_ascii_to_akai
        return {"call": lambda: list(char_ascii_to_akai(char_akai_to_ascii(bytes(v)))), "env": {"v": v, "expect": list(v)}}
    if kind == "name_field":
        # the 12-byte name field as declared: build -> exactly the codes, blank-padded; parse -> the name without its trailing blanks only
        from smpl_extract.akai.akai_string import AkaiPaddedString
        alphabet = "0123456789 ABCDEFGHIJKLMNOPQRSTUVWXYZ#+-."
        text = "".join(alphabet[i] for i in v)
        fld = AkaiPaddedString(12)
        return {"call": lambda: [list(fld.build(text)), fld.parse(fld.build(text)), fld.parse(bytes(v) + bytes([10] * (12 - len(v))))],
                "env": {"v": v, "expect": [list(v) + [10] * (12 - len(v)), text.rstrip(" "), text.rstrip(" ")]}}
    raise ValueError(kind)


def _small_codec(tier, seed):
    import random
    for x in range(-128, 128):
        yield {"kind": "tune", "v": x}
        yield {"kind": "tune_zero", "v": x}
    for b in range(256):
        yield {"kind": "akai_byte", "v": b}
        yield {"kind": "ascii_byte", "v": b}
        for which in ("a0", "akai", "midi"):
            yield {"kind": "note_byte", "v": b, "which": which}
    for deg in range(7):
        for sharp in (0, 1):
            for octv in range(10):
                yield {"kind": "note_text", "v": [deg, sharp, octv]}
    rnd = random.Random(seed)
    for _ in range(200 if tier == "quick" else 5000):
        n = rnd.randint(0, 12)
        yield {"kind": "akai_string", "v": [rnd.randint(0, 40) for _ in range(n)]}
    for first in range(41):          # every character in first and in last position, blanks inside
        yield {"kind": "name_field", "v": [first, 11]}
        yield {"kind": "name_field", "v": [11, 10, first]}
    for _ in range(200 if tier == "quick" else 5000):
        n = rnd.randint(0, 12)
        yield {"kind": "name_field", "v": [rnd.choice([10, rnd.randint(0, 40)]) for _ in range(n)]}


@contract("finite:codecs", props=["C18"], abstract=True)
def _fin(c):
    c.ensures("result == expect", "round-trip")


CONCRETE["finite:codecs"] = {
    "build": _build_codec, "small": _small_codec,
    "bound": "EXHAUSTIVE finite domains on the real code: all 256 tuning bytes (IEEE-754 doubles as executed), all 256 bytes of "
             "each character codec, all 256 bytes x 3 note codecs, all 14 (degree, sharp) x 10 octaves note texts; plus sampled AKAI strings of length <= 12 "
             "and sampled names through the declared 12-byte name field (build and parse)",
}


# ------------------------------------------------------------------ the string level: AkaiString (the adapter every name field goes through)
# decode is the per-byte table applied position by position - same length, same order, nothing trimmed or dropped (a stored leading
# blank is a character of the name; the trailing pad is removed by the declaration around the adapter, see finite:codecs/name_field)
def _mk_string(k):
    @contract(AS + f":AkaiString._decode[len={k}]", source_key=AS + ":AkaiString._decode", props=["C18"], proof_only=True)
    def _dec(c):
        c.self_obj(("self", AS + ":AkaiString", {}))
        c.param("obj", ("clist", ["int"] * k))
        c.param("context", ("drop",))
        c.param("path", ("drop",))
        c.use = {AS + ":char_akai_to_ascii": "inline", AS + ":_fast_akai_to_ascii": "inline", AS + ":_fast_akai_to_ascii_byte": "inline"}
        valid = " and ".join(f"0 <= obj[{i}] and obj[{i}] <= 40" for i in range(k)) or "True"
        c.raises("ConstructError", f"not ({valid})", iff=True)
        c.ensures(f"len(result) == {k}", "one-character-per-stored-byte")
        for i in range(k):
            c.ensures(f"len(result) == {k} and ord(char_at(result, {i})) == " + EXPECT.replace("b", f"obj[{i}]"), f"character-{i}-is-the-table-image-of-byte-{i}")
        c.modifies()
    return _dec


for _k in (0, 1, 2, 3, 4):          # len = 4: thorough tier only
    _mk_string(_k)


# ------------------------------------------------------------------ the string level, other direction: char_ascii_to_akai over bytes
# (the seed `bytes.maketrans` / translate variant let invalid bytes below 0x29 through: every byte is converted by the per-byte table, and
# ONE invalid byte anywhere rejects the whole name)
VALID_ASCII = "((48 <= {b} and {b} <= 57) or (65 <= {b} and {b} <= 90) or {b} == 32 or {b} == 35 or {b} == 43 or {b} == 45 or {b} == 46)"
TO_AKAI = "ite({b} <= 57 and {b} >= 48, {b} - 48, ite({b} == 32, 10, ite({b} >= 65 and {b} <= 90, {b} - 65 + 11, ite({b} == 35, 37, ite({b} == 43, 38, ite({b} == 45, 39, 40))))))"


def _mk_enc(k):
    @contract(AS + f":char_ascii_to_akai[bytes,len={k}]", source_key=AS + ":char_ascii_to_akai", props=["C18"], proof_only=True)
    def _enc(c):
        c.param("str_in", ("clist", ["byte"] * k))          # a byte string of k bytes (any values 0..255)
        c.use = {AS + ":_char_format_convert": "inline", AS + ":_char_format_convert_byte": "inline"}
        valid = " and ".join(VALID_ASCII.format(b=f"str_in[{i}]") for i in range(k)) or "True"
        c.raises("InvalidCharacter", f"not ({valid})", iff=True)
        c.ensures(f"len(result) == {k}", "one-code-per-character")
        for i in range(k):
            c.ensures(f"len(result) == {k} and result[{i}] == " + TO_AKAI.format(b=f"str_in[{i}]"), f"code-{i}-is-the-table-image-of-character-{i}")
        c.modifies()
    return _enc


for _k in (0, 1, 2, 3):
    _mk_enc(_k)
