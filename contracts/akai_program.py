"""C20 (AKAI programs): how the keygroup chain is followed and what a decoded program carries on."""
from pyvc.contract import contract

P = "smpl_extract.akai.program:"
_FIELDS = ['program_id', 'program_name', 'midi_program_number', 'midi_channel', 'polyphony', 'priority', 'low_key', 'high_key', 'octave_shift',
           'aux_output_select', 'mix_output_level', 'mix_output_pan', 'volume', 'vel_to_volume', 'key_to_volume', 'pres_to_volume', 'pan_lfo_rate',
           'pan_lfo_depth', 'pan_lfo_delay', 'key_to_pan', 'lfo_rate', 'lfo_depth', 'lfo_delay', 'mod_to_lfo_depth', 'pres_to_lfo_depth',
           'vel_to_lfo_depth', 'bend_to_pitch', 'pres_to_pitch', 'keygroup_crossfade', 'number_of_keygroups', 'key_temperaments', 'fx_output',
           'mod_to_pan', 'stereo_coherence', 'lfo_desync', 'pitch_law', 'voice_reassign', 'softped_to_volume', 'softped_to_attack',
           'softped_to_filter', 'tune_cents', 'tune_semitones', 'key_to_lfo_rate', 'key_to_lfo_depth', 'key_to_lfo_delay', 'voice_output_scale_db',
           'stereo_output_scale_db']


@contract(P + "_has_next_keygroup", props=["C20"])
def _hnk(c):
    # the chain is followed from keygroup i to the stored address of the next one exactly when i is not the last of the
    # `number_of_keygroups` keygroups and that address is set - whatever the address is compared to the header's first-keygroup address
    c.param("this", ("rec", "Ctx", {"keygroup_raw": ("rec", "KeygroupRaw", {"next_keygroup_address": "int"}), "_index": "int",
                                    "_": ("rec", "Outer", {"header": ("rec", "Header", {"number_of_keygroups": "int", "first_keygroup_address": "int"})})}))
    c.requires("this.keygroup_raw.next_keygroup_address >= 0 and this._index >= 0")
    c.ensures("result == (this._index + 1 < this._.header.number_of_keygroups and this.keygroup_raw.next_keygroup_address != 0)",
              "follow-the-link-iff-not-the-last-keygroup-and-an-address-is-stored")
    c.modifies()


@contract(P + "_has_valid_first_keygroup", props=["C20"])
def _hvf(c):
    c.param("this", ("rec", "Ctx", {"header": ("rec", "Header", {"number_of_keygroups": "int", "first_keygroup_address": "int"})}))
    c.requires("this.header.first_keygroup_address >= 0 and this.header.number_of_keygroups >= 0")
    c.ensures("result == (this.header.number_of_keygroups != 0 and this.header.first_keygroup_address != 0)", "seek-to-the-first-keygroup-iff-there-is-one")
    c.modifies()


@contract(P + "ProgramAdapter._decode_element", props=["C20"])
def _pde(c):
    c.self_obj(("self", P.rstrip(":") + ":ProgramAdapter", {}))
    hdr = {f: "int" for f in _FIELDS}
    hdr["program_name"] = "str"
    hdr["key_temperaments"] = ("obj", "TemperamentsToken", {})
    hdr["low_key"] = ("obj", "NoteToken", {})
    hdr["high_key"] = ("obj", "NoteToken2", {})
    hdr["first_keygroup_address"] = "int"
    c.param("obj", ("rec", "ProgramContainer", {"header": ("obj", P.rstrip(":") + ":ProgramHeaderContainer", hdr), "keygroups": ("obj", "KeygroupListToken", {})}))
    c.param("child_info", ("rec", "ChildInfo", {"parent": ("obj", "ParentToken", {}), "parent_path": ("clist", ["str"]), "routines": ("drop",), "name": "str"}))
    c.param("context", ("cdict", {"file_type": "str"}))
    c.param("path", "str")
    c.requires("strlen(child_info.name) > 0")
    for f in _FIELDS:
        if f in ("key_temperaments", "low_key", "high_key"):
            c.ensures(f"result.{f} is obj.header.{f}", f"{f}-as-stored")
        else:
            c.ensures(f"result.{f} == obj.header.{f}", f"{f}-as-stored")
    c.ensures("result.keygroups is obj.keygroups", "keygroups-as-decoded-in-chain-order")
    c.ensures("result.file_name == child_info.name and len(result._path) == 2 and result._path[1] == child_info.name and result._parent is child_info.parent", "named-and-placed")
    c.modifies()


# ------------------------------------------------------------------------------------------------------------------ one keygroup
K = "smpl_extract.akai.keygroup:"
_ZF = ["sample_name", "low_velocity", "high_velocity", "tune_cents", "tune_semitones", "loudness_offset", "filter_cutoff_offset", "pan_offset", "loop_mode"]
_KF = ['block_id', 'low_key', 'high_key', 'tune_cents', 'tune_semitones', 'filter_cutoff', 'key_to_filter_cutoff', 'velocity_to_filter_cutoff',
       'pressure_to_filter_cutoff', 'env2_to_filter_cutoff', 'env1_attack', 'env1_decay', 'env1_sustain', 'env1_release', 'env1_velocity_to_attack',
       'env1_velocity_to_release', 'env1_off_velocity_to_release', 'env1_key_to_decay_and_release', 'env2_attack', 'env2_decay', 'env2_sustain',
       'env2_release', 'env2_velocity_to_attack', 'env2_velocity_to_release', 'env2_off_velocity_to_release', 'env2_key_to_decay_and_release',
       'velocity_to_env2_to_filter_cutoff', 'env2_to_pitch', 'velocity_zone_crossfade', 'beat_detune', 'hold_attack_until_loop', 'velocity_to_volume_offset']
_ZONE = ("rec", "VelocityZoneContainer", dict({f: "int" for f in _ZF}, sample_name="str"))


@contract("smpl_extract.util.constructs:sanitize_container#zone", abstract=True, assumed=True,
          note="sanitize_container(container): the container's public items as a dict (here: the nine fields of a velocity-zone container)")
def _sc(c):
    c.param("container", _ZONE)
    c.returns(("cdict", dict({f: "int" for f in _ZF}, sample_name="str")))
    for f in _ZF:
        c.ensures(f"result['{f}'] == container.{f}")


def _mk_keygroup(nz):
    @contract(K + f"KeygroupAdapter._decode[zones={nz}]", source_key=K + "KeygroupAdapter._decode", props=["C20"], proof_only=True)
    def _kd(c):
        c.self_obj(("self", K.rstrip(":") + ":KeygroupAdapter", {}))
        flds = {f: "int" for f in _KF}
        flds["low_key"] = ("obj", "NoteTokenL", {})
        flds["high_key"] = ("obj", "NoteTokenH", {})
        flds.update({"velocity_zones": ("clist", [_ZONE] * nz), "enable_key_tracking": ("list", "bool"), "aux_out_offset": ("list", "int"),
                     "velocity_to_sample_start": ("list", "int"), "num_active_velocity_zones": "int"})
        c.param("obj", ("obj", K.rstrip(":") + ":KeygroupContainer", flds))
        c.param("context", ("drop",))
        c.param("path", "str")
        c.abstract_calls = {"sanitize_container": "smpl_extract.util.constructs:sanitize_container#zone"}
        lens_ok = f"len(obj.enable_key_tracking) == {nz} and len(obj.aux_out_offset) == {nz} and len(obj.velocity_to_sample_start) == {nz}"
        c.raises("ConstructError", f"not ({lens_ok})", iff=True)
        c.ensures(f"len(result.velocity_zones) == {nz}", "as-many-zones-as-stored-non-empty-ones")
        for i in range(nz):
            c.ensures(f"result.velocity_zones[{i}].sample_name == obj.velocity_zones[{i}].sample_name and "
                      f"result.velocity_zones[{i}].low_velocity == obj.velocity_zones[{i}].low_velocity and "
                      f"result.velocity_zones[{i}].high_velocity == obj.velocity_zones[{i}].high_velocity", f"zone-{i}-sample-name-and-velocity-range-in-stored-order")
            c.ensures(f"result.velocity_zones[{i}].enable_key_tracking == obj.enable_key_tracking[{i}] and result.velocity_zones[{i}].aux_out_offset == obj.aux_out_offset[{i}] "
                      f"and result.velocity_zones[{i}].velocity_to_sample_start == obj.velocity_to_sample_start[{i}]", f"zone-{i}-takes-entry-{i}-of-the-per-zone-arrays")
        for f in _KF:
            c.ensures((f"result.{f} is obj.{f}" if f in ("low_key", "high_key") else f"result.{f} == obj.{f}"), f"{f}-as-stored")
        c.modifies()
    return _kd


for _z in (0, 1, 2, 4):
    _mk_keygroup(_z)


# ================================================================================================== C20: SlicingGeneral (per-zone arrays of a keygroup)
# SlicingGeneral._realize evaluates its four bound expressions on the parse context and hands the VALUES on unchanged - zero included
# (a keygroup with no active zone slices its per-zone arrays to [0:0]) - to construct's Slicing; _decode / _encode go through it.
_UC = "smpl_extract.util.constructs:"
_EXPR = lambda: ("obj", "BoundExpression", {"id": "int"})


@contract("construct:evaluate#value-of", abstract=True, assumed=True, note="construct.evaluate(expr, context): the expression's value on this context - ANY integer, 0 included")
def _ev_val(c):
    c.param("expr", ("obj", "BoundExpression", {"id": "int"}))
    c.param("context", ("drop",))
    c.returns("int")
    c.ensures("result == uf_int('value_of_expression', expr.id)")
    c.modifies()


@contract("construct:Slicing#new", abstract=True, note="construct.Slicing(subcon, count, start, stop, step, empty): keeps its arguments")
def _slicing_new(c):
    c.param("subcon", ("drop",))
    c.param("count", "int")
    c.param("start", "int")
    c.param("stop", "int")
    c.param("step", "int")
    c.param("empty", ("drop",))
    c.returns(("obj", "construct.Slicing", {"count": "int", "start": "int", "stop": "int", "step": "int"}))
    c.ensures("result.count == count and result.start == start and result.stop == stop and result.step == step")
    c.modifies()


@contract(_UC + "SlicingGeneral._realize", props=["C20"])
def _sg_realize(c):
    c.self_obj(("self", _UC + "SlicingGeneral", {"subcon": ("drop",), "count": _EXPR(), "start": _EXPR(), "stop": _EXPR(), "step": _EXPR(), "pattern": ("drop",)}))
    c.param("context", ("drop",))
    c.abstract_calls = {"evaluate": "construct:evaluate#value-of", "Slicing": "construct:Slicing#new"}
    c.define("val", ["e"], "uf_int('value_of_expression', e.id)")
    c.ensures("result[0].count == val(self.count) and result[0].start == val(self.start) and result[0].stop == val(self.stop) and result[0].step == val(self.step)",
              "the-slicing-gets-the-evaluated-bounds-as-they-are-zero-included")
    c.ensures("result[1] == val(self.start) and result[2] == val(self.stop) and result[3] == val(self.step)", "and-so-does-the-caller")
    c.modifies()
