"""C17 / C13: cue-sheet text parsing (smpl_extract/cuesheet.py)."""
from pyvc.contract import contract

CUE = "smpl_extract.cuesheet:"
LINES = ("list", "str")


@contract(CUE + "get_nonempty_entry", props=["C17", "C13"])
def _gne(c):
    c.param("lines", LINES)
    c.returns(("tuple", ["str", ("alias", "lines")]))
    c.define("consumed", [], "old(len(lines)) - len(lines)")
    c.ensures("result[1] is lines", "returns-the-same-list")
    c.ensures("consumed() >= 0 and implies(old(len(lines)) > 0, consumed() >= 1)", "consumes-at-least-one-line-when-there-is-one")
    c.ensures("forall(0, consumed() - 1, lambda j: strlen(py_strip(old(lines)[j])) == 0)", "only-blank-lines-are-skipped")
    c.ensures("implies(strlen(result[0]) > 0, consumed() >= 1 and result[0] == py_strip(old(lines)[consumed() - 1]))",
              "the-first-non-blank-line-stripped")
    c.ensures("implies(strlen(result[0]) == 0, len(lines) == 0 and forall(0, old(len(lines)), lambda j: strlen(py_strip(old(lines)[j])) == 0))",
              "empty-text-only-when-every-line-is-blank")
    c.ensures("forall(0, len(lines), lambda j: lines[j] == old(lines)[consumed() + j])", "the-rest-is-kept-in-order")
    c.ensures("py_strip(result[0]) == result[0]", "text-is-stripped")
    c.modifies("lines")
    lp = c.loop(0)
    lp.invariant(
        "len(lines) <= old(len(lines))",
        "forall(0, old(len(lines)) - len(lines), lambda j: strlen(py_strip(old(lines)[j])) == 0)",
        "strlen(text) == 0 and py_strip(text) == text",
        "forall(0, len(lines), lambda j: lines[j] == old(lines)[old(len(lines)) - len(lines) + j])",
    )
    lp.measure("len(lines)")


@contract(CUE + "CueSheetTrackAdapter.parse", props=["C17", "C13"])
def _track(c):
    c.param("cls", ("const", None))
    c.param("lines", LINES)
    c.returns(("tuple", [("drop",), LINES]))
    c.raises("BadCueSheet")
    # termination and progress: at least the TRACK line itself is consumed, nothing is invented
    c.ensures("len(result[1]) < old(len(lines))", "consumes-at-least-the-track-line")
    c.modifies("lines")
    lp = c.loop(0)
    lp.invariant("len(lines) <= old(len(lines)) - 1")
    lp.measure("len(lines)")
    lp.modifies("lines").modifies("track.indices", ("list", "opaque")).modifies("track.unparsed", ("list", "str"))
    # C17, one entry at a time (the entry languages are written here from the cue format, not taken from the code's patterns):
    # only an entry that BEGINS with INDEX / TITLE (any letter case) touches the track's indices / title; any other entry
    # - REM, PERFORMER, FLAGS, PREGAP, or a line that merely MENTIONS `INDEX 01 00:00:00` or `TITLE "x"` further on - changes neither
    IDX = r"\s*[Ii][Nn][Dd][Ee][Xx]\s+\d+\s+\d+:\d+:\d+[\s\S]*"
    TTL = r'\s*[Tt][Ii][Tt][Ll][Ee]\s+"[^\n]*"[\s\S]*'
    lp.step("other-entries-leave-indices-and-title-alone",
            f"implies(not in_re(text, '{IDX}') and not in_re(text, '{TTL}'), "
            "len(track.indices) == prev(len(track.indices)) and track.title == prev(track.title))")
    lp.step("an-index-entry-adds-one-index-and-keeps-the-title",
            f"implies(in_re(text, '{IDX}') and len(lines) <= prev(len(lines)), "
            "track.title == prev(track.title) and (len(track.indices) == prev(len(track.indices)) + 1 or len(track.indices) == prev(len(track.indices))))")
    lp.step("a-title-entry-keeps-the-indices",
            f"implies(in_re(text, '{TTL}'), len(track.indices) == prev(len(track.indices)))")


@contract(CUE + "CueSheetFileAdapter.parse", props=["C17", "C13"])
def _file(c):
    c.param("cls", ("const", None))
    c.param("lines", LINES)
    c.returns(("tuple", [("drop",), LINES]))
    c.raises("BadCueSheet")
    c.ensures("len(result[1]) < old(len(lines))", "consumes-at-least-the-file-line")
    c.modifies("lines")
    lp = c.loop(0)
    lp.invariant("len(lines) <= old(len(lines)) - 1")
    lp.measure("len(lines)")
    lp.modifies("lines").modifies("cue_sheet.tracks", ("list", "opaque"))


@contract(CUE + "parse_cue_sheet", props=["C17", "C13"])
def _pcs(c):
    c.param("lines", LINES)
    c.raises("BadCueSheet")
    c.modifies("lines")
    lp = c.loop(0)
    lp.invariant("len(lines) <= old(len(lines))")
    lp.measure("len(lines)")
    lp.modifies("lines").modifies("cue_sheet_files", ("list", "opaque"))
    # C17: whatever stands before (or between) FILE entries - REM, CATALOG, PERFORMER, TITLE ... or a line that merely mentions
    # `FILE "x" BINARY` further on - opens no file entry; an entry that begins with FILE "<name>" BINARY opens exactly one
    FIL = r'\s*[Ff][Ii][Ll][Ee]\s+"[^\n]*"\s+[Bb][Ii][Nn][Aa][Rr][Yy][\s\S]*'
    lp.step("entries-that-do-not-begin-with-FILE-open-no-file-entry",
            f"implies(not in_re(text, '{FIL}'), len(cue_sheet_files) == prev(len(cue_sheet_files)))")
    lp.step("a-FILE-entry-opens-exactly-one-file-entry",
            f"implies(in_re(text, '{FIL}'), len(cue_sheet_files) == prev(len(cue_sheet_files)) + 1)")



# ================================================================== bounded stand-in: cosmetic transformations on the real parser
CONCRETE = {}


def _build_cue_variants(inputs):
    import os, sys
    here = os.path.dirname(os.path.dirname(os.path.abspath(__file__)))
    sys.path.insert(0, os.path.join(here, "bounded"))
    import cdda_writer as cw
    from smpl_extract.cuesheet import parse_cue_sheet, BadCueSheet

    def summary(text):
        # through the real text reader (smpl_extract.actions.parse_text_file), as the tool does
        import tempfile
        from smpl_extract.actions import parse_text_file
        with tempfile.NamedTemporaryFile("w", suffix=".cue", delete=False, newline="") as tf:
            tf.write(text)
        try:
            lines = parse_text_file(tf.name)
        finally:
            os.unlink(tf.name)
        try:
            f = parse_cue_sheet(lines)
        except BadCueSheet:
            return "BadCueSheet"
        # "... the image produced from it is therefore the same": the sheet opened the way the tool opens it (determine_image_type on the
        # path, next to a bin file), reduced to the kind of image and its top-level listing
        import io, shutil, contextlib
        from smpl_extract.actions import determine_image_type, ls_action
        d = tempfile.mkdtemp(prefix="verif_cue_img_")
        try:
            with open(os.path.join(d, f.bin_file_name), "wb") as bf:
                bf.write(bytes(2352 * 8))
            cue_path = os.path.join(d, "sheet.cue")
            with open(cue_path, "w", newline="") as cf:
                cf.write(text)
            try:
                img = determine_image_type(cue_path)
                buf = io.StringIO()
                with contextlib.redirect_stdout(buf):
                    ls_action(img, "")
                opened = [type(img).__name__, buf.getvalue()]
            except Exception as e:  # noqa
                opened = ["raised " + type(e).__name__]
        finally:
            shutil.rmtree(d, ignore_errors=True)
        return {"bin": f.bin_file_name, "opened": opened,
                "tracks": [[t.number, t.mode.lower(), t.title, [[i.number, i.n_minutes, i.n_seconds, i.n_frames] for i in t.indices]]
                           for t in f.tracks]}

    def run():
        tracks = [{"number": t["number"], "mode": t["mode"], "title": t["title"], "indices": [tuple(i) for i in t["indices"]]}
                  for t in inputs["tracks"]]
        base = summary(cw.build_cue(tracks, "img.bin"))
        styled_text = cw.build_cue(tracks, "img.bin", inputs["style"])
        # unknown lines inserted at one line position (before FILE or inside a track only)
        lines = styled_text.split(inputs["style"].get("eol", "\n"))
        pos = inputs.get("insert_at")
        if pos is not None:
            first_track = next((k for k, l in enumerate(lines) if l.strip().upper().startswith("TRACK")), len(lines))
            file_line = next((k for k, l in enumerate(lines) if l.strip().upper().startswith("FILE")), 0)
            allowed = [k for k in range(len(lines) + 1) if k <= file_line or k > first_track]
            k = allowed[pos % len(allowed)]
            lines.insert(k, inputs.get("insert_text", "REM something"))
        styled = summary(inputs["style"].get("eol", "\n").join(lines))
        return {"base": base, "styled": styled}
    return {"call": run, "env": {}}


def _oracle_cue_variants(inputs, kind, val, env):
    if kind != "return":
        return ["oracle.no-exception-expected"]
    if val["base"] == "BadCueSheet":
        return ["oracle.canonical-sheet-must-parse"]
    want = {"bin": "img.bin", "tracks": [[t["number"], t["mode"].lower(), t["title"], [list(i) for i in t["indices"]]] for t in inputs["tracks"]]}
    bad = []
    if isinstance(val["base"], dict):
        want["opened"] = val["base"].get("opened")          # (the listing itself is judged by C03 / C20; here: the SAME under cosmetic changes)
        if all(t["mode"].upper() == "AUDIO" for t in inputs["tracks"]) and (val["base"].get("opened") or [None])[0] != "CompactDiskAudioImage":
            bad.append(f"oracle.all-audio-sheet-opens-as-CDDA(got {val['base'].get('opened')})")
    if val["base"] != want:
        bad.append(f"oracle.canonical-meaning(expected {want}, parsed {val['base']})")
    if val["styled"] != val["base"]:
        bad.append(f"oracle.same-meaning-under-cosmetic-changes(style={inputs['style']}, insert={inputs.get('insert_at')}: {val['styled']})")
    return bad


def _small_cue_variants(tier, seed, shard=(0, 1)):
    import itertools
    import random
    rnd = random.Random(11000 + seed)
    sheets = [
        [{"number": 1, "mode": "AUDIO", "title": "One", "indices": [[1, 0, 0, 0]]}],
        [{"number": 1, "mode": "AUDIO", "title": None, "indices": [[0, 0, 0, 0], [1, 0, 2, 0]]},
         {"number": 2, "mode": "AUDIO", "title": "Two words", "indices": [[1, 3, 59, 74]]}],
        [{"number": 1, "mode": "MODE1/2352", "title": None, "indices": [[1, 0, 0, 0]]},
         {"number": 2, "mode": "AUDIO", "title": "x", "indices": [[1, 10, 0, 0]]},
         {"number": 3, "mode": "AUDIO", "title": "y z", "indices": [[0, 12, 0, 0], [1, 12, 2, 0]]}],
    ]
    opts = {"case": ["upper", "lower", "mixed"], "lead": ["", " \t"], "trail": ["", "  "], "blank_lines": [0, 2],
            "leading_blank_lines": [0, 3], "indent": [True, False], "eol": ["\n", "\r\n"],
            "header_extra": [[], ['REM GENRE "Test"', 'PERFORMER "Nobody"', 'CATALOG 0000000000000']],
            "track_extra": [[], ['PERFORMER "Nobody"', "FLAGS DCP", "PREGAP 00:02:00", "ISRC ABCDE1234567"]],
            "track_extra_after": [[], ["POSTGAP 00:01:00", "REM end"]], "title_first": [True, False]}
    keys = list(opts)
    combos = list(itertools.product(*[range(len(opts[k])) for k in keys]))
    rnd.shuffle(combos)
    if tier == "quick":
        combos = combos[:150]
    # long sheets: the meaning must not depend on how much unrecognised text surrounds it
    big_header = {"header_extra": [f"REM comment line number {i} with some padding text" for i in range(150)]}
    many = [{"number": i + 1, "mode": "AUDIO", "title": f"Track {i + 1}", "indices": [[1, i, 0, 0]]} for i in range(30)]
    if shard[0] == 0:
        yield {"tracks": sheets[1], "style": big_header}
        yield {"tracks": many, "style": {"track_extra": ['PERFORMER "Somebody with a long name"', "FLAGS DCP", "ISRC ABCDE1234567",
                                                         'SONGWRITER "Another long name here"', "REM x", "REM y"]}}
        yield {"tracks": many, "style": {"blank_lines": 3, "lead": "      ", "trail": "      "}}
        # TRACK numbers are labels: the tracks are read in LISTING order whatever their numbers (restarting, descending, repeated)
        for numbers in ([1, 2, 3, 1, 2], [5, 1, 2, 3, 4], [9, 8, 7], [2, 2, 2, 1]):
            yield {"tracks": [{"number": n, "mode": "AUDIO", "title": f"T{k}", "indices": [[1, k, 0, 0]]} for k, n in enumerate(numbers)], "style": {}}
    k = 0
    for sheet in sheets:
        for combo in combos:
            style = {key: opts[key][i] for key, i in zip(keys, combo)}
            k += 1
            if k % shard[1] != shard[0]:
                continue
            yield {"tracks": sheet, "style": style, "insert_at": (rnd.randrange(40) if k % 3 == 0 else None),
                   "insert_text": rnd.choice(["REM x", "PERFORMER \"p\"", "  flags dcp  ", "SONGWRITER \"s\"", "rem TRACK", "CDTEXTFILE \"a.cdt\"",
                                              # unknown lines that merely MENTION a keyword entry further on
                                              "REM was INDEX 01 00:00:01 before remaster", "REM ORIGINAL TITLE \"Other\"", "rem index 09 11:11:11",
                                              "PERFORMER \"TITLE \"x\"\"", "REM FILE \"other.bin\" BINARY", "ISRC TRACK01INDEX",
                                              # unknown lines that are ONE bare word
                                              "REM", "rem", "FLAGS", "  PREGAP  ", "X"])}


@contract("bounded:cue_cosmetics", props=["C17"], abstract=True)
def _bc(c):
    pass


CONCRETE["bounded:cue_cosmetics"] = {
    "build": _build_cue_variants, "small": _small_cue_variants, "oracle": _oracle_cue_variants, "shards": 4,
    "bound": "sheets whose TRACK numbers restart / descend / repeat (listing order is the order); 3 canonical cue sheets (1..3 tracks, data+audio, with/without TITLE, one or two INDEX lines) x all 2048 combinations "
             "(thorough; 150 sampled quick) of: keyword case, leading/trailing blanks, blank lines, leading blank lines, indentation, CRLF, unknown "
             "lines before FILE, unknown lines after TRACK and after the INDEX lines, TITLE before/after INDEX; plus one unknown line inserted "
             "at a random admissible line position; parsed by the real parse_cue_sheet and compared with the canonical meaning",
    "timeout_s": 5.0, "budget_quick": 100, "budget_thorough": 900,
}


def _payload(inputs):
    # `rem_lines`: that many 80-byte ASCII REM lines in front (the text layer decodes in chunks: what follows lies in a LATER chunk)
    return b"".join(b"REM %04d %s\n" % (i, b"x" * 70) for i in range(inputs.get("rem_lines", 0))) + bytes(inputs["bytes"])


def _build_not_cue(inputs):
    import os, sys, tempfile, shutil
    from smpl_extract.actions import determine_image_type, parse_text_file, BadTextFile, attempt_parse_cue_sheet
    from smpl_extract.cuesheet import BadCueSheet

    def run():
        d = tempfile.mkdtemp(prefix="verif_cue_")
        try:
            p = os.path.join(d, "x.cue")
            with open(p, "wb") as f:
                f.write(_payload(inputs))
            with open(os.path.join(d, "img.bin"), "wb") as f:
                f.write(bytes(2352 * 4))
            try:
                lines = parse_text_file(p)
                is_text = True
            except BadTextFile:
                lines, is_text = [], False
            as_cue = None
            if is_text:
                try:
                    img = attempt_parse_cue_sheet(list(lines), d)
                    as_cue = type(img).__name__
                except BadCueSheet:
                    as_cue = "BadCueSheet"
            # the same path opened again in the same process reads the same (twice through the public entry point)
            again = []
            for _ in range(2):
                try:
                    again.append(type(determine_image_type(p)).__name__)
                except BaseException as e:  # noqa
                    again.append("raised " + type(e).__name__)
            return {"is_text": is_text, "as_cue": as_cue, "again": again}
        finally:
            shutil.rmtree(d, ignore_errors=True)
    return {"call": run, "env": {}}


def _oracle_not_cue(inputs, kind, val, env):
    if kind != "return":
        return ["oracle.no-exception-expected"]
    bad = []
    data = _payload(inputs)
    ascii_ = all(b < 128 for b in data)
    if not ascii_ and val["is_text"]:
        bad.append("oracle.non-ascii-is-not-text")
    if ascii_ and not inputs["has_file_line"] and val["as_cue"] != "BadCueSheet":
        bad.append(f"oracle.no-FILE-line-is-not-a-cue-sheet(got {val['as_cue']})")
    if ascii_ and inputs["has_file_line"] and inputs.get("all_audio") and val["as_cue"] != "CompactDiskAudioImage":
        bad.append(f"oracle.all-audio-cue-is-CDDA(got {val['as_cue']})")
    if len(set(val["again"])) != 1:
        bad.append(f"oracle.the-same-file-reads-the-same-when-opened-again({val['again']})")
    if ascii_ and inputs["has_file_line"] and inputs.get("all_audio") and val["again"][0] != "CompactDiskAudioImage":
        bad.append(f"oracle.all-audio-cue-is-CDDA-through-determine_image_type(got {val['again']})")
    return bad


def _small_not_cue(tier, seed, shard=(0, 1)):
    good = 'FILE "img.bin" BINARY\n  TRACK 01 AUDIO\n    INDEX 01 00:00:00\n'
    cases = [
        (good.encode(), True, True),
        (good.lower().encode(), True, True),
        (b'TRACK 01 AUDIO\n  INDEX 01 00:00:00\n', False, False),
        (b'REM nothing here\n\n', False, False),
        (b'', False, False),
        (b'FILE img.bin BINARY\n TRACK 01 AUDIO\n', False, False),
        (good.encode() + b'\xff\xfe', True, True),
        (b'\x80' + good.encode(), True, True),
        ('FILE "img.bin" BINARY\n  TRACK 01 AUDIO\n    TITLE "café"\n    INDEX 01 00:00:00\n'.encode("utf-8"), True, True),
    ]
    for k, (b, has_file, audio) in enumerate(cases):
        if k % shard[1] == shard[0]:
            yield {"bytes": list(b), "has_file_line": has_file, "all_audio": audio}
    # the same behind 4 KiB / 8 KiB / 16 KiB / 80 KiB of 7-bit text: long sheets are sheets, a late non-ASCII byte still means "not text"
    k = len(cases)
    for n in (52, 103, 205, 1000):
        for (b, has_file, audio) in (cases[0], cases[6], cases[8], (b'FILE "img.bin" BINARY\n  TRACK 01 AUDIO\n    INDEX 01 00:00:00\nREM \xe9\n', True, True)):
            k += 1
            if k % shard[1] == shard[0]:
                yield {"bytes": list(b), "has_file_line": has_file, "all_audio": audio, "rem_lines": n}


@contract("bounded:cue_or_not", props=["C17"], abstract=True)
def _bn(c):
    pass


CONCRETE["bounded:cue_or_not"] = {
    "build": _build_not_cue, "small": _small_not_cue, "oracle": _oracle_not_cue,
    "bound": "the last three and a valid sheet again behind 4 / 8 / 16 / 80 KiB of REM lines; 9 files: valid sheets (upper/lower case), text without a FILE line (4 forms incl. empty and unquoted FILE), and three non-ASCII files",
    "timeout_s": 5.0,
}


# ================================================================== C09 / C17: what a parsed cue sheet is opened as
@contract("smpl_extract.cuesheet:parse_cue_sheet#abstract", abstract=True, assumed=False,
          note="shape of parse_cue_sheet's result only (its parsing contracts are above): a file name and a list of tracks with a mode string")
def _pcs_abs(c):
    c.param("lines", LINES)
    c.returns(("rec", "CueSheetFile", {"bin_file_name": "str", "tracks": ("list", ("rec", "CueSheetTrack", {"mode": "str"}))}))
    c.raises("BadCueSheet")


@contract("os.path:join#abstract", abstract=True, assumed=True, note="os.path.join returns some path string")
def _join(c):
    c.param("a", "str")
    c.param("b", "str")
    c.returns("str")


@contract("builtins:open#abstract", abstract=True, assumed=True, note="open(path, 'rb') returns a readable binary file (or raises OSError, not modelled)")
def _open(c):
    c.param("path", "str")
    c.param("mode", "str")
    c.returns(("rec", "OpenedFile", {"path": "str"}))
    c.ensures("result.path == path")


@contract("smpl_extract.actions:determine_image_type#abstract", abstract=True, assumed=True,
          note="the sampler-image branch (MDF/MDX unwrapping, Roland / AKAI detection): its result is tagged kind 1 here")
def _dit(c):
    c.param("file", ("rec", "OpenedFile", {"path": "str"}))
    c.returns(("rec", "OpenedImage", {"kind": "int", "path": "str"}))
    c.ensures("result.kind == 1 and result.path == file.path")


@contract("smpl_extract.cdda.image:CompactDiskAudioImageAdapter.from_bin_cue#abstract", abstract=True, assumed=False,
          note="the CDDA branch (from_bin_cue has its own full contract, contracts/cdda.py): tagged kind 2 here")
def _fbc(c):
    c.param("bin_file_stream", ("rec", "OpenedFile", {"path": "str"}))
    c.param("cue_sheet_file", ("rec", "CueSheetFile", {"bin_file_name": "str", "tracks": ("list", ("rec", "CueSheetTrack", {"mode": "str"}))}))
    c.returns(("rec", "OpenedImage", {"kind": "int", "path": "str"}))
    c.ensures("result.kind == 2 and result.path == bin_file_stream.path")


@contract("smpl_extract.actions:attempt_parse_cue_sheet", props=["C09", "C17"])
def _apcs(c):
    c.param("lines", LINES)
    c.param("directory", "str")
    c.abstract_calls = {"parse_cue_sheet": "smpl_extract.cuesheet:parse_cue_sheet#abstract", "os.path.join": "os.path:join#abstract",
                        "open": "builtins:open#abstract", "determine_image_type": "smpl_extract.actions:determine_image_type#abstract",
                        "CompactDiskAudioImageAdapter.from_bin_cue": "smpl_extract.cdda.image:CompactDiskAudioImageAdapter.from_bin_cue#abstract"}
    # BadCueSheet comes from the parser (a text that is no cue sheet) - never from a sheet that has a data track or only audio tracks
    c.raises("BadCueSheet", "not defined('cue_sheet_file')", at_raise=True)
    # the statement: all tracks audio -> CDDA; a data track -> sampler image (mode compared without regard to letter case)
    c.ensures("implies(exists(0, len(cue_sheet_file.tracks), lambda k: py_lower(cue_sheet_file.tracks[k].mode) != 'audio'), result.kind == 1)",
              "a-data-track-makes-it-a-sampler-image")
    c.ensures("implies(forall(0, len(cue_sheet_file.tracks), lambda k: py_lower(cue_sheet_file.tracks[k].mode) == 'audio'), result.kind == 2)",
              "all-audio-tracks-make-it-CDDA")


# ================================================================================================== parse_text_file (C17 / C09)
# "Text that ... is not ASCII is not treated as a cue sheet": the reader decodes the WHOLE file as ASCII, and a decoding failure anywhere
# in it - the first line or the last - comes out as BadTextFile (which determine_image_type takes as "not text"), never as the codec's own
# UnicodeDecodeError; text that decodes is handed on complete (every line, nothing cut off).
@contract("builtins:open#text", abstract=True, assumed=True, note="open(name, 'r', encoding='ascii'): a text file object (existence of the file is the caller's business)")
def _open_text(c):
    c.param("filename", "str")
    c.param("mode", "str")
    c.returns(("obj", "TextFile", {"lines": ("list", "str"), "consumed": "int"}))
    c.ensures("result.consumed == 0")
    c.modifies()


@contract("io:TextFile.readlines", abstract=True, assumed=True,
          note="TextIOWrapper.readlines(): all remaining lines, or UnicodeDecodeError when a byte of the remaining text is not in the encoding")
def _readlines(c):
    c.binds_receiver = True
    c.returns(("list", "str"))
    c.raises("UnicodeDecodeError")
    c.ensures("self.consumed == len(self.lines) and len(result) == len(self.lines) - old(self.consumed)")
    c.ensures("forall(0, len(result), lambda i: result[i] == self.lines[old(self.consumed) + i])")
    c.modifies("self.consumed")


@contract("io:TextFile.readline", abstract=True, assumed=True, note="TextIOWrapper.readline(): the next line ('' at the end), or UnicodeDecodeError")
def _readline(c):
    c.binds_receiver = True
    c.returns("str")
    c.raises("UnicodeDecodeError")
    c.ensures("self.consumed == imin(len(self.lines), old(self.consumed) + 1)")
    c.ensures("implies(old(self.consumed) < len(self.lines), result == self.lines[old(self.consumed)])")
    c.modifies("self.consumed")


@contract("smpl_extract.actions:parse_text_file", props=["C17", "C09", "C03"])
def _ptf(c):
    c.param("filename", "str")
    c.abstract_calls = {"open": "builtins:open#text", "file.readlines": "io:TextFile.readlines", "file.readline": "io:TextFile.readline"}
    c.raises("BadTextFile")
    c.ensures("len(result) == len(file.lines) and forall(0, len(result), lambda i: result[i] == file.lines[i])", "every-line-of-the-file-in-order")
