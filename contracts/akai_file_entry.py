"""C14 (AKAI half): the file-table scan loop of FileEntriesAdapter._parse stays aligned with the 24-byte entries whatever
one entry holds - entry j is parsed from bytes [24j, 24j+24) - so damage confined to one entry cannot shift another.
The construct parsers it drives are replaced by ASSUMED effect contracts (DESIGN C14)."""
from pyvc.contract import contract
from contracts.rof import ROF

FE = "smpl_extract.akai.file_entry:"


@contract("construct:FileEntryConstruct.sizeof", abstract=True, assumed=True,
          note="sizeof() of the entry struct = 24 (confirmed against the live declaration by layout:akai.file_entry:FileEntryConstruct.total-size)")
def _sz(c):
    c.returns("int")
    c.ensures("result == 24")


@contract("construct:Int16ul.parse_stream", abstract=True, assumed=True,
          note="reads two bytes: advances the cursor by 2, or raises StreamError at the end of the stream")
def _i16(c):
    c.param("stream", ROF)
    c.returns("int")
    c.raises("StreamError")
    c.ensures("stream.cur == old(stream.cur) + 2 and result >= 0")
    c.modifies("stream.cur")


@contract("construct:FileEntryConstruct.parse_stream", abstract=True, assumed=True,
          note="Struct.parse_stream: on success the cursor is after the last consumed byte (start + sizeof = start + 24); on failure "
               "(ConstructError, or RequestedInvalidSector from the Computed file stream) the cursor is anywhere in [start, start + 24]")
def _fe(c):
    c.param("stream", ROF)
    c.returns(("rec", "FileEntryContainer", {"name": "str", "file_type": "int", "size": "int", "start": "int", "file_stream": ("drop",)}))
    c.raises("ConstructError")
    c.raises("RequestedInvalidSector")
    c.ensures("stream.cur == old(stream.cur) + 24")
    c.modifies("stream.cur")


@contract("construct:Lazy(FileAdapter).parse_stream", abstract=True, assumed=True,
          note="Lazy(...).parse_stream on the FILE's own stream: does not touch the table stream; returns a deferred parser")
def _lz(c):
    c.param("file_stream", ("drop",))
    c.returns(("drop",))


@contract("smpl_extract.util.constructs:pull_child_info#abstract", abstract=True, assumed=True, note="context plumbing (pure)")
def _pci(c):
    c.param("context", ("drop",))
    c.returns(("rec", "ChildInfo", {"parent": ("drop",), "routines": ("drop",), "name": ("drop",)}))


@contract(FE + "FileEntriesAdapter._parse", props=["C14", "C13"])
def _parse(c):
    c.self_obj(("self", "smpl_extract.akai.file_entry:FileEntriesAdapter", {"sat": ("const", None), "subcon": ("drop",)}))
    c.param("stream", ROF)
    c.param("context", ("drop",))
    c.param("path", ("const", None))
    c.abstract_calls = {
        "pull_child_info": "smpl_extract.util.constructs:pull_child_info#abstract",
        "self.subcon.sizeof": "construct:FileEntryConstruct.sizeof",
        "Int16ul.parse_stream": "construct:Int16ul.parse_stream",
        "self.subcon.parse_stream": "construct:FileEntryConstruct.parse_stream",
        "Lazy(FileAdapter(this._.sat, FileConstruct)).parse_stream": "construct:Lazy(FileAdapter).parse_stream",
    }
    c.requires("stream.cur >= 0")
    c.raises("ConstructError")
    lp = c.loop(0)
    lp.invariant(
        "table_entry_size == 24",
        # the alignment invariant: at the head of iteration j the table cursor is at 24*j, whatever the earlier entries held
        "stream.cur == 24 * _i0",
        "max_table_entry_cnt == file_table_size // 24 and file_table_size == len(stream.content)",
    )
    lp.modifies("stream.cur").modifies("file_entries", ("list", "opaque"))


# ---------------------------------------------------------------------------------------------------------------- C15
# The same scan over a table stream that is a VIEW of a truncated image: reads of the view may raise SectorReadError.
# construct wraps every failure of a stream read in StreamError (a ConstructError), so the scan declares ConstructError only:
# a raw read of the view outside construct (or outside the try) would let SectorReadError escape and abort the whole export.
from contracts.transcoder import VIEW  # noqa: E402


@contract("VIEW.tell", abstract=True, note="the tell contract proved for every view class (C08)")
def _vtell(c):
    c.returns("int")
    c.ensures("result == self.cur")
    c.modifies()


@contract("construct:Int16ul.parse_stream#view", abstract=True, assumed=True,
          note="construct.stream_read wraps ANY exception of stream.read (SectorReadError included) in StreamError")
def _i16v(c):
    c.param("stream", VIEW)
    c.returns("int")
    c.raises("StreamError")
    c.ensures("stream.cur == old(stream.cur) + 2 and result >= 0")
    c.modifies("stream.cur")


@contract("construct:FileEntryConstruct.parse_stream#view", abstract=True, assumed=True,
          note="as construct:FileEntryConstruct.parse_stream; read failures of the view surface as StreamError (ConstructError)")
def _fev(c):
    c.param("stream", VIEW)
    c.returns(("rec", "FileEntryContainer", {"name": "str", "file_type": "int", "size": "int", "start": "int", "file_stream": ("drop",)}))
    c.raises("ConstructError")
    c.raises("RequestedInvalidSector")
    c.ensures("stream.cur == old(stream.cur) + 24")
    c.modifies("stream.cur")


@contract(FE + "FileEntriesAdapter._parse#cut", source_key=FE + "FileEntriesAdapter._parse", props=["C15"], proof_only=True)
def _parse_cut(c):
    c.self_obj(("self", "smpl_extract.akai.file_entry:FileEntriesAdapter", {"sat": ("const", None), "subcon": ("drop",)}))
    c.param("stream", VIEW)
    c.param("context", ("drop",))
    c.param("path", ("const", None))
    c.abstract_calls = {
        "pull_child_info": "smpl_extract.util.constructs:pull_child_info#abstract",
        "self.subcon.sizeof": "construct:FileEntryConstruct.sizeof",
        "Int16ul.parse_stream": "construct:Int16ul.parse_stream#view",
        "self.subcon.parse_stream": "construct:FileEntryConstruct.parse_stream#view",
        "Lazy(FileAdapter(this._.sat, FileConstruct)).parse_stream": "construct:Lazy(FileAdapter).parse_stream",
    }
    c.requires("stream.cur >= 0")
    # nothing but a construct error may leave the scan: no SectorReadError of the truncated view
    c.raises("ConstructError")
    lp = c.loop(0)
    lp.invariant(
        "table_entry_size == 24",
        "stream.cur == 24 * _i0",
        "max_table_entry_cnt == file_table_size // 24 and file_table_size == len(stream.content)",
    )
    lp.modifies("stream.cur").modifies("file_entries", ("list", "opaque"))


# ---------------------------------------------------------------------------------------------------------------- C14 (Roland half)
# SafeListConstruct._parse (smpl_extract/util/constructs.py) is the list every Roland directory level is read with: one element that
# fails to parse (UnicodeDecodeError / ConstructError / KeyError / IndexError) is left out, every other element is kept, in order.
# Proved per list length (count = 1, 2, 3): the element parser is abstract - it fails on an arbitrary subset of the indices.
def _mk_safelist(n):
    SL = "smpl_extract.util.constructs:"

    @contract(f"construct:evaluate#count={n}", abstract=True, assumed=True, note=f"the declared element count evaluates to {n} (shape parameter of the proof)")
    def _ev(c):
        c.param("expr", ("drop",))
        c.param("context", ("obj", "ParseContext", {"_index": "int"}))
        c.returns(("const", n))

    @contract(f"construct:element._parsereport#abstract[{n}]", abstract=True, assumed=True,
              note="the element parser: for the index found in context._index it either fails with one of the four handled exception classes "
                   "or yields that element's value; which indices fail is arbitrary")
    def _pr(c):
        c.param("stream", ("drop",))
        c.param("context", ("obj", "ParseContext", {"_index": "int"}))
        c.param("path", ("drop",))
        c.returns("int")
        for exc in ("ConstructError", "KeyError", "IndexError", "UnicodeDecodeError"):
            c.raises(exc, "uf_bool('element_is_damaged', context._index)")
        c.ensures("not uf_bool('element_is_damaged', context._index) and result == uf_int('element_value', context._index)")
        c.modifies()

    @contract(SL + f"SafeListConstruct._parse[count={n}]", source_key=SL + "SafeListConstruct._parse", props=["C14", "C13"], proof_only=True)
    def _sl(c):
        c.self_obj(("self", SL + "SafeListConstruct", {"count": ("drop",), "subcon": ("drop",), "predicate": ("const", None)}))
        c.param("stream", ("drop",))
        c.param("context", ("obj", "ParseContext", {"_index": "int"}))
        c.param("path", ("drop",))
        c.abstract_calls = {"evaluate": f"construct:evaluate#count={n}", "self.subcon._parsereport": f"construct:element._parsereport#abstract[{n}]"}
        c.define("bad", ["i"], "uf_bool('element_is_damaged', i)")
        c.define("val", ["i"], "uf_int('element_value', i)")
        good = " + ".join(f"ite(bad({i}), 0, 1)" for i in range(n))
        c.ensures(f"len(result) == {good}", "exactly-the-undamaged-elements-are-kept")
        for i in range(n):
            before = " + ".join([f"ite(bad({j}), 0, 1)" for j in range(i)]) or "0"
            c.ensures(f"implies(not bad({i}), result[{before}] == val({i}))", f"undamaged-element-{i}-is-kept-in-its-place-whatever-the-others-are")
        c.modifies("context._index")
    return _sl


for _n in (1, 2, 3, 4):          # count = 4: thorough tier only
    _mk_safelist(_n)


# ---------------------------------------------------------------------------------------------------------------- the ASSUMED effect contracts, exercised
# The proofs above stand on assumed effect contracts of construct's parsers.  They are not provable here (library code), but they can be
# EXERCISED: the real FileEntryConstruct / Int16ul are run on byte strings and the cursor effect and the exception classes they promise are
# checked.  Bounded, never counted as proved; it narrows what "assumed" hides.
CONCRETE = {}


def _build_effects(inputs):
    import io
    from construct import Container, ConstructError, Int16ul
    from smpl_extract.akai.file_entry import FileEntryConstruct
    from smpl_extract.util.fat import RequestedInvalidSector

    class _Sat:
        def get_segment(self, start):
            if start >= inputs.get("sat_size", 8):
                raise RequestedInvalidSector()
            return io.BytesIO(b"\x00" * 64)

    def run():
        data = bytes(inputs["bytes"])
        st = io.BytesIO(bytes(inputs.get("prefix", 0)) + data)
        st.seek(inputs.get("prefix", 0))
        start = st.tell()
        out = {"start": start}
        try:
            FileEntryConstruct.parse_stream(st, _=Container(sat=_Sat()), sat=_Sat())
            out["entry"] = ("ok", st.tell() - start)
        except BaseException as e:  # noqa
            out["entry"] = (type(e).__name__, st.tell() - start, isinstance(e, (ConstructError, RequestedInvalidSector)))
        st.seek(start)
        try:
            Int16ul.parse_stream(st)
            out["i16"] = ("ok", st.tell() - start)
        except BaseException as e:  # noqa
            out["i16"] = (type(e).__name__, st.tell() - start, isinstance(e, ConstructError))
        out["sizeof"] = FileEntryConstruct.sizeof()
        return out
    return {"call": run, "env": {}}


def _oracle_effects(inputs, kind, val, env):
    if kind != "return":
        return ["oracle.must-not-raise"]
    bad = []
    n = len(inputs["bytes"])
    e = val["entry"]
    if e[0] == "ok":
        if e[1] != 24:
            bad.append(f"assumed.entry-parse-advances-by-24(advanced {e[1]})")
    else:
        if not e[2]:
            bad.append(f"assumed.entry-parse-fails-only-with-ConstructError-or-RequestedInvalidSector({e[0]})")
        if not (0 <= e[1] <= 24):
            bad.append(f"assumed.entry-parse-failure-leaves-the-cursor-within-the-entry({e[1]})")
    i = val["i16"]
    if i[0] == "ok":
        if i[1] != 2:
            bad.append(f"assumed.int16-advances-by-2({i[1]})")
    elif not i[2] or n >= 2:
        bad.append(f"assumed.int16-fails-only-at-the-end-with-StreamError({i[0]}, {n} bytes)")
    if val["sizeof"] != 24:
        bad.append("assumed.sizeof-is-24")
    return bad


def _small_effects(tier, seed, shard=(0, 1)):
    import random
    rnd = random.Random(17000 + seed)
    base = [10] * 12 + [0] * 4 + [0xF3, 10, 0, 0, 3, 0, 0, 0]
    cases = [base, base[:23], base[:1], [], base[:16], [255] * 24, [0] * 24, base[:20] + [255, 255, 0, 0]]
    for pos in range(24):
        for v in (0, 1, 40, 41, 0x7F, 0x80, 0xFF):
            c = list(base)
            c[pos] = v
            cases.append(c)
    for _ in range(200 if tier == "quick" else 3000):
        cases.append([rnd.randrange(256) for _ in range(rnd.choice((24, 24, 24, rnd.randrange(0, 24))))])
    for k, c in enumerate(cases):
        if k % shard[1] == shard[0]:
            yield {"bytes": c, "prefix": (k % 3) * 5, "sat_size": 8}


@contract("assumed:akai_entry_parse_effects", props=["C14", "C15"], abstract=True)
def _ae(c):
    pass


CONCRETE["assumed:akai_entry_parse_effects"] = {
    "build": _build_effects, "small": _small_effects, "oracle": _oracle_effects, "shards": 2,
    "nontrivial": lambda i, s: s["kind"] == "return",
    "bound": "the real FileEntryConstruct.parse_stream / Int16ul.parse_stream / sizeof on 24-byte entries with every byte position set to 7 corner values, "
             "truncated entries of every length, 200 / 3000 random entries, start sectors inside and outside the allocation table: cursor effect and exception "
             "classes promised by the ASSUMED contracts construct:FileEntryConstruct.parse_stream, construct:Int16ul.parse_stream, construct:FileEntryConstruct.sizeof",
    "timeout_s": 5.0, "budget_quick": 60, "budget_thorough": 300,
}


# ---------------------------------------------------------------------------------------------------------------- C14 / C15: realising the files of a volume
# Volume._realize_files: a file whose content cannot be parsed (InvalidFileEntry / ConstructError from its lazy parser - a damaged or
# cut-off file) is left out; every other file of the volume is realised, in table order.  The lazy parser of an entry is abstract (it
# fails or returns arbitrarily); proved for volumes of 1, 2 and 3 entries.
@contract("akai:FileEntry._f_file_content#abstract", abstract=True, assumed=True,
          note="the deferred parser of one file: returns the parsed file or raises InvalidFileEntry / ConstructError (StreamError, MappingError ... are ConstructErrors)")
def _ffc(c):
    c.returns(("obj", "ParsedFileToken", {}))
    c.raises("InvalidFileEntry", "True")
    c.raises("ConstructError", "True")
    c.modifies()


def _mk_realize(n):
    ENTRY = ("obj", "smpl_extract.akai.file_entry:FileEntry", {"name": "str", "file_type": "int", "_file": ("const", None), "_f_file_content": ("drop",)})

    @contract(f"smpl_extract.akai.volume:Volume._realize_files[n={n}]", source_key="smpl_extract.akai.volume:Volume._realize_files", props=["C14", "C15"], proof_only=True)
    def _rf(c):
        c.self_obj(("self", "smpl_extract.akai.volume:Volume", {"file_entries": ("clist", [ENTRY] * n), "_is_files_realized": ("const", False), "_files": ("clist", [])}))
        c.abstract_calls = {"self._f_file_content": "akai:FileEntry._f_file_content#abstract"}
        got = " + ".join(f"ite(self.file_entries[{i}]._file is not None, 1, 0)" for i in range(n))
        whole = f"len(self.file_entries) == {n} and "          # first: later clauses index the table (an entry removed from it is a violation, not an index error)
        c.ensures("self._is_files_realized and len(self.file_entries) == " + str(n), "the-table-is-left-as-it-was")
        c.ensures(whole + f"len(self._files) == {got}", "exactly-the-files-that-could-be-realised")
        for i in range(n):
            before = " + ".join([f"ite(self.file_entries[{j}]._file is not None, 1, 0)" for j in range(i)]) or "0"
            c.ensures(whole + f"implies(self.file_entries[{i}]._file is not None, self._files[{before}] is self.file_entries[{i}]._file)",
                      f"file-{i}-is-realised-in-its-place-whatever-happens-to-the-others")
        c.modifies("self._files", "self._is_files_realized", *[f"self.file_entries[{i}]._file" for i in range(n)])
    return _rf


for _n in (1, 2, 3, 4):          # n = 4: thorough tier only
    _mk_realize(_n)


# ---------------------------------------------------------------------------------------------------------------- C11 / C16: one adapter serves every partition
# FileEntriesAdapter is a module-level object shared by every volume of every partition of every image opened in the process.  Its `sat`
# is an EXPRESSION (resolved against the context of the volume being parsed: that volume's partition table and partition stream), and a
# parse must leave the adapter as it found it - otherwise the first directory realised would decide which table and which stream every
# later listed directory reads through.  The frame of _parse: the table stream's cursor and nothing of `self`.
@contract("construct:sat_expression#abstract", abstract=True, assumed=True, note="the `this._.sat` path expression evaluated on the parse context (pure)")
def _satx(c):
    c.param("context", ("drop",))
    c.returns(("obj", "SatOfThisContext", {}))
    c.modifies()


@contract(FE + "FileEntriesAdapter._parse#shared-adapter", source_key=FE + "FileEntriesAdapter._parse", props=["C11", "C16"], proof_only=True)
def _parse_shared(c):
    c.self_obj(("self", "smpl_extract.akai.file_entry:FileEntriesAdapter", {"sat": ("obj", "SatExpression", {}), "subcon": ("drop",)}))
    c.param("stream", ROF)
    c.param("context", ("drop",))
    c.param("path", ("const", None))
    c.abstract_calls = {
        "pull_child_info": "smpl_extract.util.constructs:pull_child_info#abstract",
        "self.subcon.sizeof": "construct:FileEntryConstruct.sizeof",
        "Int16ul.parse_stream": "construct:Int16ul.parse_stream",
        "self.subcon.parse_stream": "construct:FileEntryConstruct.parse_stream",
        "Lazy(FileAdapter(this._.sat, FileConstruct)).parse_stream": "construct:Lazy(FileAdapter).parse_stream",
        "self.sat": "construct:sat_expression#abstract",
        "callable": "builtins:callable#true",
    }
    # (no precondition on the table stream's cursor: the scan rewinds it itself)
    c.raises("ConstructError")
    c.ensures("self.sat is old(self.sat)", "the-shared-adapter-keeps-its-table-expression")
    lp = c.loop(0)
    lp.invariant("table_entry_size == 24", "stream.cur == 24 * _i0",
                 "max_table_entry_cnt == file_table_size // 24 and file_table_size == len(stream.content)")
    lp.modifies("stream.cur").modifies("file_entries", ("list", "opaque"))
    c.modifies("stream.cur")


@contract("builtins:callable#true", abstract=True, note="callable(x) for the expression object: True")
def _callable_true(c):
    c.param("x", ("drop",))
    c.returns(("const", True))
    c.modifies()


# ---------------------------------------------------------------------------------------------------------------- C14 / C15: one file's content parser
# FileAdapter._parse (the deferred parser Volume._realize_files runs per entry): whatever goes wrong while the content of ONE file is
# parsed - a chain that leaves the table, a character outside the AKAI set, a read that fails because the image is cut off, a struct
# unpacking error of a compiled parser - reaches the caller as ConstructError, which _realize_files takes as "leave this file out".
# Any other exception class escaping here would abort the whole listing / export.
@contract("construct:FileConstruct.parse_stream#may-fail", abstract=True, assumed=True,
          note="the Switch over sample / program parsers: returns the parsed file (None for other file types) or fails with any of the exception classes "
               "its parts can raise on damaged or cut-off content")
def _fc_parse(c):
    c.param("stream", ("drop",))
    c.returns(("obj", "ParsedFileToken", {}))
    for e in ("ConstructError", "RequestedInvalidSector", "InvalidCharacter", "SectorReadError", "error"):          # "error" = struct.error (imported as StructError)
        c.raises(e, "True")
    c.modifies()


@contract("smpl_extract.akai.file:FileAdapter._parse", props=["C14", "C15"])
def _fa_parse(c):
    c.self_obj(("self", "smpl_extract.akai.file:FileAdapter", {"sat": ("drop",), "subcon": ("drop",)}))
    c.param("stream", ("obj", "FileStreamToken", {}))
    c.param("context", ("cdict", {}))
    c.param("path", ("const", None))
    c.abstract_calls = {"FileConstruct.parse_stream": "construct:FileConstruct.parse_stream#may-fail"}
    c.raises("ConstructError")
    c.modifies()
