"""C14 (AKAI half): the file-table scan loop of FileEntriesAdapter._parse stays aligned with the 24-byte entries whatever
one entry holds - entry j is parsed from bytes [24j, 24j+24) - so damage confined to one entry cannot shift another.
The construct parsers it drives are replaced by ASSUMED effect contracts (DESIGN C14)."""
from pyvc.contract import contract
from contracts.rof import ROF

FE = "smpl_extract.akai.file_entry:"


@contract("construct:FileEntryConstruct.sizeof", abstract=True, assumed=True,
          note="sizeof() of the entry struct = 24 (confirmed against the live declaration by layout:akai.file_entry:FileEntryConstruct.total-size)")
def _sz(c):
    c.returns("int")
    c.ensures("result == 24")


@contract("construct:Int16ul.parse_stream", abstract=True, assumed=True,
          note="reads two bytes: advances the cursor by 2, or raises StreamError at the end of the stream")
def _i16(c):
    c.param("stream", ROF)
    c.returns("int")
    c.raises("StreamError")
    c.ensures("stream.cur == old(stream.cur) + 2 and result >= 0")
    c.modifies("stream.cur")


@contract("construct:FileEntryConstruct.parse_stream", abstract=True, assumed=True,
          note="Struct.parse_stream: on success the cursor is after the last consumed byte (start + sizeof = start + 24); on failure "
               "(ConstructError, or RequestedInvalidSector from the Computed file stream) the cursor is anywhere in [start, start + 24]")
def _fe(c):
    c.param("stream", ROF)
    c.returns(("rec", "FileEntryContainer", {"name": "str", "file_type": "int", "size": "int", "start": "int", "file_stream": ("drop",)}))
    c.raises("ConstructError")
    c.raises("RequestedInvalidSector")
    c.ensures("stream.cur == old(stream.cur) + 24")
    c.modifies("stream.cur")


@contract("construct:Lazy(FileAdapter).parse_stream", abstract=True, assumed=True,
          note="Lazy(...).parse_stream on the FILE's own stream: does not touch the table stream; returns a deferred parser")
def _lz(c):
    c.param("file_stream", ("drop",))
    c.returns(("drop",))


@contract("smpl_extract.util.constructs:pull_child_info#abstract", abstract=True, assumed=True, note="context plumbing (pure)")
def _pci(c):
    c.param("context", ("drop",))
    c.returns(("rec", "ChildInfo", {"parent": ("drop",), "routines": ("drop",), "name": ("drop",)}))


@contract(FE + "FileEntriesAdapter._parse", props=["C14", "C13"])
def _parse(c):
    c.self_obj(("self", "smpl_extract.akai.file_entry:FileEntriesAdapter", {"sat": ("const", None), "subcon": ("drop",)}))
    c.param("stream", ROF)
    c.param("context", ("drop",))
    c.param("path", ("const", None))
    c.abstract_calls = {
        "pull_child_info": "smpl_extract.util.constructs:pull_child_info#abstract",
        "self.subcon.sizeof": "construct:FileEntryConstruct.sizeof",
        "Int16ul.parse_stream": "construct:Int16ul.parse_stream",
        "self.subcon.parse_stream": "construct:FileEntryConstruct.parse_stream",
        "Lazy(FileAdapter(this._.sat, FileConstruct)).parse_stream": "construct:Lazy(FileAdapter).parse_stream",
    }
    c.requires("stream.cur >= 0")
    c.raises("ConstructError")
    lp = c.loop(0)
    lp.invariant(
        "table_entry_size == 24",
        # the alignment invariant: at the head of iteration j the table cursor is at 24*j, whatever the earlier entries held
        "stream.cur == 24 * _i0",
        "max_table_entry_cnt == file_table_size // 24 and file_table_size == len(stream.content)",
    )
    lp.modifies("stream.cur").modifies("file_entries", ("list", "opaque"))


# ---------------------------------------------------------------------------------------------------------------- C15
# The same scan over a table stream that is a VIEW of a truncated image: reads of the view may raise SectorReadError.
# construct wraps every failure of a stream read in StreamError (a ConstructError), so the scan declares ConstructError only:
# a raw read of the view outside construct (or outside the try) would let SectorReadError escape and abort the whole export.
from contracts.transcoder import VIEW  # noqa: E402


@contract("VIEW.tell", abstract=True, note="the tell contract proved for every view class (C08)")
def _vtell(c):
    c.returns("int")
    c.ensures("result == self.cur")
    c.modifies()


@contract("construct:Int16ul.parse_stream#view", abstract=True, assumed=True,
          note="construct.stream_read wraps ANY exception of stream.read (SectorReadError included) in StreamError")
def _i16v(c):
    c.param("stream", VIEW)
    c.returns("int")
    c.raises("StreamError")
    c.ensures("stream.cur == old(stream.cur) + 2 and result >= 0")
    c.modifies("stream.cur")


@contract("construct:FileEntryConstruct.parse_stream#view", abstract=True, assumed=True,
          note="as construct:FileEntryConstruct.parse_stream; read failures of the view surface as StreamError (ConstructError)")
def _fev(c):
    c.param("stream", VIEW)
    c.returns(("rec", "FileEntryContainer", {"name": "str", "file_type": "int", "size": "int", "start": "int", "file_stream": ("drop",)}))
    c.raises("ConstructError")
    c.raises("RequestedInvalidSector")
    c.ensures("stream.cur == old(stream.cur) + 24")
    c.modifies("stream.cur")


@contract(FE + "FileEntriesAdapter._parse#cut", source_key=FE + "FileEntriesAdapter._parse", props=["C15"], proof_only=True)
def _parse_cut(c):
    c.self_obj(("self", "smpl_extract.akai.file_entry:FileEntriesAdapter", {"sat": ("const", None), "subcon": ("drop",)}))
    c.param("stream", VIEW)
    c.param("context", ("drop",))
    c.param("path", ("const", None))
    c.abstract_calls = {
        "pull_child_info": "smpl_extract.util.constructs:pull_child_info#abstract",
        "self.subcon.sizeof": "construct:FileEntryConstruct.sizeof",
        "Int16ul.parse_stream": "construct:Int16ul.parse_stream#view",
        "self.subcon.parse_stream": "construct:FileEntryConstruct.parse_stream#view",
        "Lazy(FileAdapter(this._.sat, FileConstruct)).parse_stream": "construct:Lazy(FileAdapter).parse_stream",
    }
    c.requires("stream.cur >= 0")
    # nothing but a construct error may leave the scan: no SectorReadError of the truncated view
    c.raises("ConstructError")
    lp = c.loop(0)
    lp.invariant(
        "table_entry_size == 24",
        "stream.cur == 24 * _i0",
        "max_table_entry_cnt == file_table_size // 24 and file_table_size == len(stream.content)",
    )
    lp.modifies("stream.cur").modifies("file_entries", ("list", "opaque"))


# ---------------------------------------------------------------------------------------------------------------- C14 (Roland half)
# SafeListConstruct._parse (smpl_extract/util/constructs.py) is the list every Roland directory level is read with: one element that
# fails to parse (UnicodeDecodeError / ConstructError / KeyError / IndexError) is left out, every other element is kept, in order.
# Proved per list length (count = 1, 2, 3): the element parser is abstract - it fails on an arbitrary subset of the indices.
def _mk_safelist(n):
    SL = "smpl_extract.util.constructs:"

    @contract(f"construct:evaluate#count={n}", abstract=True, assumed=True, note=f"the declared element count evaluates to {n} (shape parameter of the proof)")
    def _ev(c):
        c.param("expr", ("drop",))
        c.param("context", ("obj", "ParseContext", {"_index": "int"}))
        c.returns(("const", n))

    @contract(f"construct:element._parsereport#abstract[{n}]", abstract=True, assumed=True,
              note="the element parser: for the index found in context._index it either fails with one of the four handled exception classes "
                   "or yields that element's value; which indices fail is arbitrary")
    def _pr(c):
        c.param("stream", ("drop",))
        c.param("context", ("obj", "ParseContext", {"_index": "int"}))
        c.param("path", ("drop",))
        c.returns("int")
        for exc in ("ConstructError", "KeyError", "IndexError", "UnicodeDecodeError"):
            c.raises(exc, "uf_bool('element_is_damaged', context._index)")
        c.ensures("not uf_bool('element_is_damaged', context._index) and result == uf_int('element_value', context._index)")
        c.modifies()

    @contract(SL + f"SafeListConstruct._parse[count={n}]", source_key=SL + "SafeListConstruct._parse", props=["C14", "C13"], proof_only=True)
    def _sl(c):
        c.self_obj(("self", SL + "SafeListConstruct", {"count": ("drop",), "subcon": ("drop",), "predicate": ("const", None)}))
        c.param("stream", ("drop",))
        c.param("context", ("obj", "ParseContext", {"_index": "int"}))
        c.param("path", ("drop",))
        c.abstract_calls = {"evaluate": f"construct:evaluate#count={n}", "self.subcon._parsereport": f"construct:element._parsereport#abstract[{n}]"}
        c.define("bad", ["i"], "uf_bool('element_is_damaged', i)")
        c.define("val", ["i"], "uf_int('element_value', i)")
        good = " + ".join(f"ite(bad({i}), 0, 1)" for i in range(n))
        c.ensures(f"len(result) == {good}", "exactly-the-undamaged-elements-are-kept")
        for i in range(n):
            before = " + ".join([f"ite(bad({j}), 0, 1)" for j in range(i)]) or "0"
            c.ensures(f"implies(not bad({i}), result[{before}] == val({i}))", f"undamaged-element-{i}-is-kept-in-its-place-whatever-the-others-are")
        c.modifies("context._index")
    return _sl


for _n in (1, 2, 3):
    _mk_safelist(_n)
