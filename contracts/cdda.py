"""C03: CDDA tracks tile the bin file at the cue sheet's index positions."""
from pyvc.contract import contract
from contracts.rof import ROF

INDEX = ("rec", "CueSheetIndex", {"number": "int", "n_minutes": "int", "n_seconds": "int", "n_frames": "int"})
TRACK = ("rec", "CueSheetTrack", {"number": "int", "mode": "str", "title": ("opt", "str"),
                                  "indices": ("list", INDEX), "unparsed": ("drop",)})
CUEFILE = ("rec", "CueSheetFile", {"bin_file_name": "str", "tracks": ("list", TRACK)})

STREAM_OFFSET = {"substream": ("drop",), "end_of_file": "int", "position": "int", "buffer_length": "int",
                 "true_size": "int", "offset": "int"}
AUDIO_TRACK = {"title": "str", "num_channels": "int", "sample_rate": "int", "bytes_per_sample": "int",
               "num_audio_samples": "int", "_data_stream": ("rec", "StreamOffset", STREAM_OFFSET),
               "_parent": ("drop",), "_path": ("drop",)}


@contract("smpl_extract.cuesheet:CueSheetIndex.get_total_audio_frames", props=["C03", "C20"])
def _frames(c):
    c.self_obj(("rec", "CueSheetIndex", INDEX[2]))
    c.returns("int")
    c.ensures("result == (60 * self.n_minutes + self.n_seconds) * 75 + self.n_frames", "msf-to-sectors")
    c.modifies()


@contract("smpl_extract.cdda.image:CompactDiskAudioImageAdapter.from_bin_cue", props=["C03", "C20", "C13"])
def _from_bin_cue(c):
    c.param("cls", ("const", None))
    c.param("bin_file_stream", ROF)
    c.param("cue_file", CUEFILE)
    c.value_class("StreamOffset", STREAM_OFFSET)
    c.value_class("AudioTrack", AUDIO_TRACK)
    c.define("F", ["k"], "(60 * cue_file.tracks[k].indices[0].n_minutes + cue_file.tracks[k].indices[0].n_seconds) * 75 "
                        "+ cue_file.tracks[k].indices[0].n_frames")
    c.define("n", [], "len(cue_file.tracks)")
    c.define("eof", [], "len(bin_file_stream.content)")
    # the property's hypothesis: all tracks AUDIO, each with an index, first-index times strictly
    # increasing and inside the bin file
    c.requires("n() >= 1", "at-least-one-track")
    c.requires("forall(0, n(), lambda k: cue_file.tracks[k].mode.lower() == 'audio')", "all-audio")
    c.requires("forall(0, n(), lambda k: len(cue_file.tracks[k].indices) >= 1)", "every-track-has-an-index")
    c.requires("forall(0, n(), lambda k: cue_file.tracks[k].indices[0].n_minutes >= 0 and "
               "cue_file.tracks[k].indices[0].n_seconds >= 0 and cue_file.tracks[k].indices[0].n_frames >= 0)", "msf-unsigned")
    c.requires("forall(0, n() - 1, lambda k: F(k) < F(k + 1))", "strictly-increasing")
    c.requires("2352 * F(n() - 1) <= eof()", "inside-the-bin")
    c.ensures("len(result.tracks) == n()", "one-track-per-cue-track")
    c.ensures("forall(0, n() - 1, lambda k: result.tracks[k]._data_stream.offset == 2352 * F(k) and "
              "result.tracks[k]._data_stream.end_of_file == 2352 * (F(k + 1) - F(k)))", "window-runs-to-the-next-first-index")
    c.ensures("result.tracks[n() - 1]._data_stream.offset == 2352 * F(n() - 1) and "
              "result.tracks[n() - 1]._data_stream.end_of_file == eof() - 2352 * F(n() - 1)", "last-track-runs-to-the-end")
    c.ensures("forall(0, n() - 1, lambda k: result.tracks[k]._data_stream.offset + result.tracks[k]._data_stream.end_of_file "
              "== result.tracks[k + 1]._data_stream.offset)", "tiling.no-gap-no-overlap")
    c.ensures("forall(0, n(), lambda k: result.tracks[k]._data_stream.position == 0)", "windows-start-rewound")
    c.ensures("forall(0, n(), lambda k: result.tracks[k].num_channels == 2 and result.tracks[k].sample_rate == 44100 "
              "and result.tracks[k].bytes_per_sample == 2)", "16-bit-stereo-44100")
    c.ensures("forall(0, n(), lambda k: result.tracks[k].num_audio_samples == 588 * (result.tracks[k]._data_stream.end_of_file // 2352))",
              "sample-frame-count")
    c.modifies("bin_file_stream.cur")
    c.define("msf", ["t"], "(60 * t.indices[0].n_minutes + t.indices[0].n_seconds) * 75 + t.indices[0].n_frames")
    c.define("G", ["k"], "msf(cue_track_list[k])")
    lp = c.loop(0)
    lp.invariant(
        "len(cue_track_list) == n()",
        "1 <= iter_pos(cue_track_iter) and iter_pos(cue_track_iter) <= n()",
        "i == iter_pos(cue_track_iter) - 1 and len(audio_tracks) == i",
        "len(cur_cue_track.indices) >= 1 and msf(cur_cue_track) == G(i)",
        "end_of_file == eof()",
        "forall(0, i, lambda k: audio_tracks[k]._data_stream.offset == 2352 * G(k) and "
        "audio_tracks[k]._data_stream.end_of_file == 2352 * (G(k + 1) - G(k)) and audio_tracks[k]._data_stream.position == 0 "
        "and audio_tracks[k].num_channels == 2 and audio_tracks[k].sample_rate == 44100 and audio_tracks[k].bytes_per_sample == 2 "
        "and audio_tracks[k].num_audio_samples == 588 * (G(k + 1) - G(k)))",
    )
    lp.measure("n() - iter_pos(cue_track_iter)")
    lp.modifies("cue_track_iter").modifies("audio_tracks", ("list", ("rec", "AudioTrack", AUDIO_TRACK)))


# ================================================================== concrete reading
CONCRETE = {}


def _mk_cue(d):
    from smpl_extract.cuesheet import CueSheetFile, CueSheetTrack, CueSheetIndex
    tracks = []
    for t in d["tracks"]:
        idx = [CueSheetIndex(i["number"], i["n_minutes"], i["n_seconds"], i["n_frames"]) for i in t["indices"]]
        tracks.append(CueSheetTrack(t.get("number", 0), t["mode"], t.get("title"), idx))
    return CueSheetFile(d.get("bin_file_name", "x.bin"), tracks)


def _build_from_bin_cue(inputs):
    import io
    from smpl_extract.cdda.image import CompactDiskAudioImageAdapter

    class G(io.BytesIO):
        @property
        def content(self):
            return self.getvalue()

        @property
        def cur(self):
            return io.BytesIO.tell(self)
    content = inputs["bin_file_stream"]["content"]
    if isinstance(content, dict):        # compact form {"len": n}
        content = [(i * 7 + 1) % 256 for i in range(content["len"])]
    stream = G(bytes(b % 256 for b in content))
    stream.seek(max(0, inputs["bin_file_stream"].get("cur", 0)))
    cue = _mk_cue(inputs["cue_file"])
    return {"call": CompactDiskAudioImageAdapter.from_bin_cue, "args": [stream, cue],
            "env": {"bin_file_stream": stream, "cue_file": cue, "cls": None}}


def _requires_hold(inputs):
    ts = inputs["cue_file"]["tracks"]
    if not ts or any(t["mode"].lower() != "audio" or not t["indices"] for t in ts):
        return False
    F = [(60 * t["indices"][0]["n_minutes"] + t["indices"][0]["n_seconds"]) * 75 + t["indices"][0]["n_frames"] for t in ts]
    if any(min(t["indices"][0].values()) < 0 for t in ts):
        return False
    n = inputs["bin_file_stream"]["content"]
    n = n["len"] if isinstance(n, dict) else len(n)
    return all(a < b for a, b in zip(F, F[1:])) and 2352 * F[-1] <= n


def _small_from_bin_cue(tier, seed):
    import itertools
    msfs = [(0, 0, 0), (0, 0, 1), (0, 0, 2), (0, 1, 0), (1, 0, 0)] if tier == "quick" else \
        [(0, 0, 0), (0, 0, 1), (0, 0, 2), (0, 0, 74), (0, 1, 0), (0, 1, 1), (1, 0, 0), (1, 1, 1)]
    modes = ["AUDIO", "audio", "Audio"]
    for n in (1, 2, 3):
        for combo in itertools.combinations(msfs, n):
            F_last = (60 * combo[-1][0] + combo[-1][1]) * 75 + combo[-1][2]
            for extra in (0, 1, 3, 4, 2352, 2353, 2 * 2352 + 5):
                tracks = []
                for k, (m, s_, f) in enumerate(combo):
                    idx = [{"number": 1, "n_minutes": m, "n_seconds": s_, "n_frames": f}]
                    if k % 2:
                        idx.append({"number": 2, "n_minutes": m, "n_seconds": s_, "n_frames": f + 1})
                    elif n > 1 or extra in (1, 2352):
                        # the usual pregap layout: INDEX 00 first, INDEX 01 a little later (the FIRST index counts)
                        idx = [{"number": 0, "n_minutes": m, "n_seconds": s_, "n_frames": f},
                               {"number": 1, "n_minutes": m, "n_seconds": s_, "n_frames": f + 1}]
                    tracks.append({"number": k + 1, "mode": modes[k % 3], "title": (None if k == 1 else f"T{k}"), "indices": idx})
                inp = {"bin_file_stream": {"content": {"len": 2352 * F_last + extra}, "cur": 0},
                       "cue_file": {"bin_file_name": "x.bin", "tracks": tracks}}
                if _requires_hold(inp):
                    yield inp


def _oracle_from_bin_cue(inputs, kind, val, env):
    """Reference reading of the statement: windows tile the bin from the first index onward."""
    if kind != "return":
        return []
    ts = inputs["cue_file"]["tracks"]
    F = [(60 * t["indices"][0]["n_minutes"] + t["indices"][0]["n_seconds"]) * 75 + t["indices"][0]["n_frames"] for t in ts]
    n = inputs["bin_file_stream"]["content"]
    n = n["len"] if isinstance(n, dict) else len(n)
    want = [(2352 * F[k], (2352 * F[k + 1] if k + 1 < len(F) else n) - 2352 * F[k]) for k in range(len(F))]
    got = [(t._data_stream.offset, t._data_stream.end_of_file) for t in val.tracks]
    bad = []
    if got != want:
        bad.append(f"oracle.windows(expected={want},got={got})")
    # the bytes each window yields
    data = env["bin_file_stream"].getvalue()
    for (off, size), t in zip(want, val.tracks):
        t._data_stream.seek(0, 0)
        if t._data_stream.read(size + 10) != data[off:off + size]:
            bad.append("oracle.window-bytes")
            break
    return bad


CONCRETE["smpl_extract.cdda.image:CompactDiskAudioImageAdapter.from_bin_cue"] = {
    "build": _build_from_bin_cue, "small": _small_from_bin_cue, "oracle": _oracle_from_bin_cue,
    "bound": "1..3 audio tracks, first indices drawn from 5 (quick) / 8 MSF values, 7 bin lengths incl. non-multiples of 2352 and 4, "
             "one or two INDEX entries, with and without TITLE, three spellings of AUDIO",
    "timeout_s": 5.0,
}


def _build_frames(inputs):
    from smpl_extract.cuesheet import CueSheetIndex
    s = inputs["self"]
    ix = CueSheetIndex(s["number"], s["n_minutes"], s["n_seconds"], s["n_frames"])
    return {"call": ix.get_total_audio_frames, "env": {"self": ix}}


def _small_frames(tier, seed):
    for m in (0, 1, 2, 79):
        for s_ in (0, 1, 59):
            for f in (0, 1, 74):
                yield {"self": {"number": 1, "n_minutes": m, "n_seconds": s_, "n_frames": f}}


CONCRETE["smpl_extract.cuesheet:CueSheetIndex.get_total_audio_frames"] = {
    "build": _build_frames, "small": _small_frames, "bound": "36 MSF values"}
