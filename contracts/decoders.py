"""C07 / C13 / C01 / C02: the two raw allocation-table decoders.

Correctness of decoding (get_path(decode(table), s) == raw chain for every well-formed chain) is a
BOUNDED stand-in: exhaustive over all small tables, on the real code, against a reference reading of
the property statement.  Termination is proved symbolically (contracts below, loop measures)."""
from pyvc.contract import contract

CONCRETE = {}

AKAI_EOF, AKAI_FREE, AKAI_R1, AKAI_R2 = 0xC000, 0x0000, 0x4000, 0x8000


# ------------------------------------------------------------------ reference semantics (from the statement)
def akai_raw_next(block, s):
    """('end', None) | ('free', None) | ('link', t) | ('oor', v) for sector s of a raw AKAI SAT."""
    v = block[s]
    if v == AKAI_EOF:
        return ("end", None)
    if v == AKAI_FREE:
        return ("free", None)
    if v in (AKAI_R1, AKAI_R2):
        if s + 1 < len(block) and block[s + 1] in (AKAI_R1, AKAI_R2):
            return ("link", s + 1)
        return ("end", None)
    if v < len(block):
        if block[v] in (AKAI_R1, AKAI_R2):
            return ("mixed", v)      # a file chain never links into the reserved (directory) area
        return ("link", v)
    return ("oor", v)


def roland_raw_next(fat, s):
    v = fat[s]
    if v >= 0xFFF8:
        return ("end", None)
    if v == 0:
        return ("free", None)
    if v == 1:
        return ("reserved", None)
    if v == 0xFFF7:
        return ("error", None)
    if v < len(fat):
        return ("link", v)
    return ("oor", v)


def wf_chain(table, s, raw_next, first_valid=0):
    """The chain from s if it is well-formed in `table` (statement of C07), else None."""
    n = len(table)
    preds = {}
    for u in range(n):
        k, t = raw_next(table, u)
        if k == "link":
            preds.setdefault(t, []).append(u)
    chain, seen, cur = [], set(), s
    while True:
        if not (first_valid <= cur < n) or cur in seen:
            return None
        seen.add(cur)
        chain.append(cur)
        k, t = raw_next(table, cur)
        if k == "end":
            break
        if k != "link":
            return None
        cur = t
    for i, c in enumerate(chain):
        want = [] if i == 0 else [chain[i - 1]]
        if preds.get(c, []) != want:
            return None
    return chain


def table_is_clean(table, raw_next, first_valid=0, last_scanned=None):
    """Every entry is free/special or belongs to some well-formed chain (no garbage anywhere)."""
    n = len(table)
    heads = set(range(first_valid, n))
    for u in range(n):
        k, t = raw_next(table, u)
        if k == "link":
            heads.discard(t)
    covered = set()
    for h in heads:
        k, _ = raw_next(table, h)
        if k in ("free", "reserved") and raw_next is roland_raw_next:
            continue
        if k == "free":
            continue
        ch = wf_chain(table, h, raw_next, first_valid)
        if ch is None:
            return False
        covered |= set(ch)
    for u in range(first_valid, n):
        k, _ = raw_next(table, u)
        if k in ("free",) or (k == "reserved" and raw_next is roland_raw_next):
            continue
        if u not in covered:
            return False
    return True


# ------------------------------------------------------------------ AKAI
def _build_akai(inputs):
    from construct import Int16ul
    from smpl_extract.akai.sat import SegmentAllocationTableAdapter
    block = list(inputs["block"])

    def run():
        # ONE adapter object decodes the same words for two different partition streams (as the partition struct does for
        # every partition of an image): each table must be bound to ITS stream
        import io
        sa, sb = io.BytesIO(b"A" * 16), io.BytesIO(b"B" * 16)
        ad = SegmentAllocationTableAdapter(lambda ctx: ctx["s"], Int16ul[len(block)])
        first = ad._decode(list(block), {"s": sa}, "")
        sat = ad._decode(list(block), {"s": sb}, "")
        out = {"_bound": [first.parent_stream is sa, sat.parent_stream is sb, first is not sat]}
        for s in range(len(block)):
            try:
                out[s] = list(sat.get_path(s))
            except Exception as e:  # noqa
                out[s] = type(e).__name__
        return out
    return {"call": run, "env": {"block": block}}


def _oracle_akai(inputs, kind, val, env):
    block = inputs["block"]
    bad = []
    if kind != "return":
        if kind == "raise" and not table_is_clean(block, akai_raw_next):
            return []          # malformed table: a reported error is acceptable
        return ["oracle.decode-of-a-clean-table-must-succeed"] if kind == "raise" else []
    if val.get("_bound") != [True, True, True]:
        bad.append(f"oracle.each-decoded-table-is-bound-to-its-own-partition-stream({val.get('_bound')})")
    for s in range(len(block)):
        ch = wf_chain(block, s, akai_raw_next)
        if ch is not None and val.get(s) != ch:
            bad.append(f"oracle.well-formed-chain-resolves-exactly(start={s},expected={ch},got={val.get(s)})")
            break
    return bad


def _akai_values(n):
    return [AKAI_FREE, AKAI_EOF, AKAI_R1, AKAI_R2] + list(range(1, n)) + [0x1000]


def _small_akai(tier, seed, shard=(0, 1)):
    import itertools
    maxn = 5 if tier == "quick" else 6
    k = 0
    for n in range(1, maxn + 1):
        for block in itertools.product(_akai_values(n), repeat=n):
            k += 1
            if k % shard[1] != shard[0]:
                continue
            yield {"block": list(block)}


@contract("bounded:akai_sat_decode", props=["C07", "C13", "C01"], abstract=True)
def _b1(c):
    c.raises("InvalidFatDefinition")
    c.raises("RequestedInvalidSector")


CONCRETE["bounded:akai_sat_decode"] = {
    "build": _build_akai, "small": _small_akai, "oracle": _oracle_akai, "shards": 8,
    "nontrivial": lambda i, s: s["kind"] == "return" and any(wf_chain(i["block"], x, akai_raw_next) and
                                                            len(wf_chain(i["block"], x, akai_raw_next)) > 1 for x in range(len(i["block"]))),
    "bound": "EXHAUSTIVE over all raw SAT tables of <= 5 (quick) / 6 (thorough) sectors, every entry in {free, end, reserved x2, "
             "each in-range link, out-of-range}, every start sector; real _decode + get_path vs a reference reading of the statement; 2 s CPU per table",
    "timeout_s": 2.0, "budget_quick": 200, "budget_thorough": 1500,
}


# ------------------------------------------------------------------ Roland
def _build_roland(inputs):
    fat = list(inputs["fat"])
    n = len(fat)

    def run():
        import smpl_extract.roland.s7xx.fat as rf
        from types import SimpleNamespace
        old = rf.FAT_NUM_ENTRIES
        rf.FAT_NUM_ENTRIES = n        # bounded stand-in: table length bound to n (stated bound)
        try:
            cont = SimpleNamespace(
                metadata=SimpleNamespace(fat_id=fat[0], num_unused_clusters=fat[1],
                                         version_flag_1=fat[n - 2], version_flag_2=fat[n - 1]),
                fat_entries=fat, fat_data_stream=None, stream_size=0)
            area = rf.FatAreaAdapter(rf.FatAreaStruct)._decode(cont, {}, "")
            out = {"version": area.version}
            for s in range(2, n - 9):
                try:
                    out[s] = list(area.fat.get_path(s))
                except Exception as e:  # noqa
                    out[s] = type(e).__name__
            return out
        finally:
            rf.FAT_NUM_ENTRIES = old
    return {"call": run, "env": {"fat": fat}}


def _oracle_roland(inputs, kind, val, env):
    fat = inputs["fat"]
    n = len(fat)
    bad = []
    scanned = list(range(2, n - 9))
    if kind != "return":
        if kind == "raise":
            clean = table_is_clean(fat[:n - 9] + [0] * 9, roland_raw_next, first_valid=2) and \
                all(fat[u] < n - 9 or fat[u] >= 0xFFF7 for u in scanned)
            return ["oracle.decode-of-a-clean-table-must-succeed"] if clean else []
        return []
    want_version = 1 if (fat[n - 2] == 0xFFFF and fat[n - 1] == 0xFFFF) else None
    if want_version and val.get("version") != 1:
        bad.append("oracle.version")
    for s in scanned:
        ch = wf_chain(fat, s, roland_raw_next, first_valid=2)
        if ch is not None and all(c in scanned for c in ch) and val.get(s) != ch:
            bad.append(f"oracle.well-formed-chain-resolves-exactly(start={s},expected={ch},got={val.get(s)})")
            break
    return bad


def _small_roland(tier, seed, shard=(0, 1)):
    import itertools
    # table length 13/14 (quick) .. 15 (thorough): 2 reserved heads, 2..4 scannable clusters, 9-entry tail
    sizes = (13, 14) if tier == "quick" else (13, 14, 15)
    k = 0
    for n in sizes:
        m = n - 11
        vals = [0, 1, 0xFFF7, 0xFFF8, 0xFFFF] + list(range(2, n - 9)) + [n - 9, 0x7000]
        for body in itertools.product(vals, repeat=m):
            for v2 in (0xFFFF, 0xFFFE):
                k += 1
                if k % shard[1] != shard[0]:
                    continue
                fat = [0xFFFA, 0] + list(body) + [0] * 7 + [0xFFFF, v2]
                yield {"fat": fat}


@contract("bounded:roland_fat_decode", props=["C07", "C13", "C02"], abstract=True)
def _b2(c):
    c.raises("ConstructError")
    c.raises("InvalidFatDefinition")


CONCRETE["bounded:roland_fat_decode"] = {
    "build": _build_roland, "small": _small_roland, "oracle": _oracle_roland, "shards": 4,
    "nontrivial": lambda i, s: s["kind"] == "return",
    "bound": "EXHAUSTIVE over Roland FATs with FAT_NUM_ENTRIES bound to 13..14 (quick) / 15 (thorough) (2..4 scannable clusters), every "
             "scannable entry in {free, reserved, error, end x2, each in-range link, tail link, out-of-range}, both version flags; 2 s CPU per table",
    "timeout_s": 2.0, "budget_quick": 120, "budget_thorough": 900,
}


# ================================================================== symbolic: termination, no unhandled exception
SECTOR_LINK = ("rec", "SectorLink", {"next": "int", "end": "bool"})


@contract("smpl_extract.akai.sat:SegmentAllocationTableAdapter._decode", props=["C07", "C13", "C01"])
def _akai_decode(c):
    c.self_obj(("self", "smpl_extract.akai.sat:SegmentAllocationTableAdapter", {"partition_stream": ("const", None)}))
    c.param("obj", ("list", "int"))
    c.param("context", ("const", None))
    c.param("path", ("const", None))
    c.value_class("SectorLink", {"next": "int", "end": "bool"})
    c.requires("forall(0, len(obj), lambda k: obj[k] >= 0)", "words-unsigned")
    # any table whatsoever: decoding terminates and raises nothing
    c.ensures("result.size == len(obj)", "table-size")
    c.ensures("len(result.sector_links) == len(obj)", "one-link-entry-per-sector")
    c.modifies()
    c.loop(0).invariant("len(dirty_flags) == size", "len(sector_links) == size", "size == len(block)")
    c.loop(0).modifies("sector_links").modifies("dirty_flags")
    lp = c.loop(1)
    lp.invariant(
        "len(dirty_flags) == size and len(sector_links) == size and size == len(block)",
        "subpath_index >= 0",
        "continue_flag",
        "forall(0, len(links), lambda k: 0 <= links[k] and links[k] < size)",
        "implies(subpath_index < size and dirty_flags[subpath_index], "
        "(previous_sector_was_directory and len(links) > 0) or block[subpath_index] == subpath_index)",
    )
    lp.measure("grows:dirty_flags", "size - subpath_index")
    lp.modifies("sector_links").modifies("dirty_flags").modifies("links", ("list", "int"))


@contract("smpl_extract.roland.s7xx.fat:FatAreaAdapter._decode", props=["C07", "C13", "C02"])
def _roland_decode(c):
    c.self_obj(("self", "smpl_extract.roland.s7xx.fat:FatAreaAdapter", {}))
    c.param("obj", ("rec", "FatAreaContainer", {
        "fat_entries": ("list", "int"),
        "metadata": ("rec", "FatAreaMetadataContainer", {"fat_id": "int", "num_unused_clusters": "int",
                                                         "version_flag_1": "int", "version_flag_2": "int"}),
        "stream_size": "int", "fat_data_stream": ("const", None)}))
    c.param("context", ("const", None))
    c.param("path", ("const", None))
    c.value_class("SectorLink", {"next": "int", "end": "bool"})
    # the table length is a symbol: the proof holds for every FAT_NUM_ENTRIES >= 16 (65536 in the repo)
    c.bind["FAT_NUM_ENTRIES"] = ("int", "FAT_NUM_ENTRIES >= 16")
    c.requires("len(obj.fat_entries) == FAT_NUM_ENTRIES", "table-length")
    c.requires("forall(0, len(obj.fat_entries), lambda k: obj.fat_entries[k] >= 0)", "words-unsigned")
    c.raises("ConstructError")
    c.ensures("result.version == 1 or result.version == 2", "version")
    c.ensures("implies(obj.metadata.version_flag_1 == 0xFFFF and obj.metadata.version_flag_2 == 0xFFFF, result.version == 1)", "version-1-flags")
    c.ensures("implies(obj.metadata.version_flag_1 == 0xFFFE, result.version == 2)", "version-2-flag")
    c.ensures("result.fat.size == FAT_NUM_ENTRIES and len(result.fat.sector_links) == FAT_NUM_ENTRIES", "table-size")
    c.modifies()
    c.loop(1).invariant("len(dirty_flags) == FAT_NUM_ENTRIES", "len(sector_links) == FAT_NUM_ENTRIES",
                        "len(fat_entries) == FAT_NUM_ENTRIES", "forall(0, len(fat_entries), lambda k: fat_entries[k] >= 0)")
    c.loop(1).modifies("sector_links").modifies("dirty_flags")
    lp = c.loop(2)
    lp.invariant(
        "len(dirty_flags) == FAT_NUM_ENTRIES and len(sector_links) == FAT_NUM_ENTRIES and len(fat_entries) == FAT_NUM_ENTRIES",
        "subpath_index >= 0",
        "len(subpath_links) <= FAT_NUM_ENTRIES",
        "forall(0, len(subpath_links), lambda k: 0 <= subpath_links[k] and subpath_links[k] < FAT_NUM_ENTRIES)",
    )
    lp.measure("FAT_NUM_ENTRIES - len(subpath_links)")
    lp.modifies("sector_links").modifies("dirty_flags").modifies("subpath_links", ("list", "int"))


# ================================================================================================== C07 / C02: the Roland FAT decode is EXACT
# For the real table size (65536 entries of 16-bit words) a decode that returns normally has installed, for EVERY cluster it touched,
# exactly the table's own word: an end-of-chain word became an end link, a plain word w became the link (next = w, not end) - whatever
# the order of clusters, however chains share tails, wherever a chain's head lies.  Together with get_path's contract (the path follows
# the installed links to the end marker) the sector list of a file is the sequence obtained by following the table.
@contract("smpl_extract.roland.s7xx.fat:FatAreaAdapter._decode#exact", source_key="smpl_extract.roland.s7xx.fat:FatAreaAdapter._decode",
          props=["C07", "C02"], proof_only=True)
def _roland_exact(c):
    c.self_obj(("self", "smpl_extract.roland.s7xx.fat:FatAreaAdapter", {}))
    c.param("obj", ("rec", "FatAreaContainer", {
        "fat_entries": ("list", "int"),
        "metadata": ("rec", "FatAreaMetadataContainer", {"fat_id": "int", "num_unused_clusters": "int",
                                                         "version_flag_1": "int", "version_flag_2": "int"}),
        "stream_size": "int", "fat_data_stream": ("const", None)}))
    c.param("context", ("const", None))
    c.param("path", ("const", None))
    c.value_class("SectorLink", {"next": "int", "end": "bool"})
    c.use = {"smpl_extract.util.fat:add_to_sector_links": "smpl_extract.util.fat:add_to_sector_links#walk"}
    c.bind["FAT_NUM_ENTRIES"] = ("int", "FAT_NUM_ENTRIES == 65536")
    c.requires("len(obj.fat_entries) == 65536", "table-length")
    c.requires("forall(0, len(obj.fat_entries), lambda k: 0 <= obj.fat_entries[k] and obj.fat_entries[k] < 65536)", "sixteen-bit-words")
    c.raises("ConstructError")
    F = "obj.fat_entries"
    c.define("ok", ["w", "lnk"], "w == 0 or w == 1 or (w >= 0xfff8 and lnk.end) or (2 <= w and w < 0xfff7 and lnk.next == w and not lnk.end)")
    c.define("plain", ["w"], "2 <= w and w < 0xfff7")
    c.ensures("forall(2, 65536 - 9, lambda j: dirty_flags[j])", "every-cluster-of-the-scan-range-was-visited")
    c.ensures(f"forall(2, 65536, lambda j: implies(dirty_flags[j], ok({F}[j], result.fat.sector_links[j])))",
              "every-visited-cluster-carries-exactly-the-table-word")
    c.modifies()
    lo = c.loop(1)
    lo.invariant("len(dirty_flags) == 65536 and len(sector_links) == 65536 and len(fat_entries) == 65536",
                 "forall(0, 65536, lambda k: 0 <= fat_entries[k] and fat_entries[k] < 65536)",
                 "forall(2, 2 + _i1, lambda j: dirty_flags[j])",
                 "forall(2, 65536, lambda j: implies(dirty_flags[j], ok(fat_entries[j], sector_links[j])))")
    lo.modifies("sector_links").modifies("dirty_flags")
    li = c.loop(2)
    li.invariant(
        "len(dirty_flags) == 65536 and len(sector_links) == 65536 and len(fat_entries) == 65536",
        "forall(0, 65536, lambda k: 0 <= fat_entries[k] and fat_entries[k] < 65536)",
        "2 <= subpath_index and subpath_index < 65536 and 2 <= i and i < 65536 - 9",
        "len(subpath_links) <= 65536",
        "forall(0, len(subpath_links), lambda k: 2 <= subpath_links[k] and subpath_links[k] < 65536 and plain(fat_entries[subpath_links[k]]) and dirty_flags[subpath_links[k]])",
        "forall(0, len(subpath_links) - 1, lambda k: fat_entries[subpath_links[k]] == subpath_links[k + 1])",
        "ite(len(subpath_links) > 0, subpath_index == fat_entries[subpath_links[len(subpath_links) - 1]], subpath_index == i)",
        "forall(2, i, lambda j: dirty_flags[j])",
        "implies(len(subpath_links) > 0, subpath_links[0] == i)",
        "forall(2, 65536, lambda j: implies(dirty_flags[j], ok(fat_entries[j], sector_links[j]) or exists(0, len(subpath_links), lambda k: subpath_links[k] == j)))",
    )
    li.measure("65536 - len(subpath_links)")
    li.modifies("sector_links").modifies("dirty_flags").modifies("subpath_links", ("list", "int"))


# ================================================================================================== C07 / C01: the AKAI SAT decode is EXACT on well-formed file chains
# `wf` is ANY set of sectors closed under "follow the table": a member is inside the table, its word is neither free nor a directory
# flag nor a link to itself, and unless it is the end-of-chain word the sector it names is a member too.  (The sectors of a file whose
# chain is well-formed - in range, reaching the end marker - form such a set.)  Whatever else the table holds - other chains sharing
# its tail, heads that are not the lowest sector, cycles and garbage elsewhere - after the decode every member carries exactly its own
# word: the end marker as an end link, a link word w as (next = w, not end).  With get_path's contract the sector list of the file is
# the sequence obtained by following the table from its first sector.
# A second proof over the same code (`#exact-directory-runs`, its own invariants) covers the directory area: a sector carrying a reserved
# flag is linked to the next sector while that one carries a flag too, and ends the run otherwise.
def _mk_akai_exact(dirs):
    key = "smpl_extract.akai.sat:SegmentAllocationTableAdapter._decode#exact" + ("-directory-runs" if dirs else "")

    @contract(key, source_key="smpl_extract.akai.sat:SegmentAllocationTableAdapter._decode", props=["C07", "C01"], proof_only=True)
    def _akai_exact(c):
        c.self_obj(("self", "smpl_extract.akai.sat:SegmentAllocationTableAdapter", {"partition_stream": ("const", None)}))
        c.param("obj", ("list", "int"))
        c.param("context", ("const", None))
        c.param("path", ("const", None))
        c.value_class("SectorLink", {"next": "int", "end": "bool"})
        if not dirs:
            c.use = {"smpl_extract.util.fat:add_to_sector_links": "smpl_extract.util.fat:add_to_sector_links#walk"}
        c.requires("1 <= len(obj) and len(obj) < 0x4000", "table-shorter-than-the-flag-values")          # 11386 entries in the format
        c.requires("forall(0, len(obj), lambda k: 0 <= obj[k] and obj[k] < 65536)", "sixteen-bit-words")
        c.define("isdir", ["w"], "w == 0x4000 or w == 0x8000")
        if not dirs:
            c.define("wf", ["j"], "uf_bool('well_formed_member', j)")
            c.requires("forall(0, 65536, lambda j: implies(wf(j), j < len(obj) and obj[j] != 0 and not isdir(obj[j]) and obj[j] != j and "
                       "implies(obj[j] != 0xC000, wf(obj[j]))))", "wf-is-closed-under-following-the-table")
            c.define("ok", ["j", "blk", "n", "lnk"], "not wf(j) or (blk[j] == 0xC000 and lnk.end) or (blk[j] != 0xC000 and lnk.next == blk[j] and not lnk.end)")
            c.ensures("forall(0, len(obj), lambda j: ok(j, obj, len(obj), result.sector_links[j]))", "every-member-of-a-well-formed-chain-carries-exactly-its-table-word")
        else:
            c.define("ok", ["j", "blk", "n", "lnk"], "not isdir(blk[j]) or ite(j + 1 < n and isdir(blk[j + 1]), lnk.next == j + 1 and not lnk.end, lnk.end)")
            c.ensures("forall(0, len(obj), lambda j: ok(j, obj, len(obj), result.sector_links[j]))",
                      "a-run-of-reserved-flag-sectors-is-linked-sector-by-sector-and-ends-with-its-last")
        c.modifies()
        lo = c.loop(0)
        lo.invariant("len(dirty_flags) == size and len(sector_links) == size and size == len(block) and size < 0x4000",
                     "forall(0, size, lambda k: 0 <= block[k] and block[k] < 65536)",
                     "forall(0, _i0, lambda j: dirty_flags[j])",
                     "forall(0, size, lambda j: implies(dirty_flags[j], ok(j, block, size, sector_links[j])))")
        lo.modifies("sector_links").modifies("dirty_flags")
        li = c.loop(1)
        nxt = lambda e: f"ite(isdir(block[{e}]), {e} + 1, block[{e}])"
        inv = [
            "len(dirty_flags) == size and len(sector_links) == size and size == len(block) and size < 0x4000",
            "forall(0, size, lambda k: 0 <= block[k] and block[k] < 65536)",
            "subpath_index >= 0 and continue_flag and 0 <= i and i < size",
            "forall(0, len(links), lambda k: 0 <= links[k] and links[k] < size and dirty_flags[links[k]])",
            f"forall(0, len(links) - 1, lambda k: links[k + 1] == {nxt('links[k]')})",
            f"ite(len(links) > 0, subpath_index == {nxt('links[len(links) - 1]')}, subpath_index == i)",
            "implies(len(links) > 0, previous_sector_was_directory == isdir(block[links[len(links) - 1]]))",
            "implies(len(links) == 0 or not previous_sector_was_directory, subpath_index >= size or not dirty_flags[subpath_index] or "
            "(len(links) > 0 and subpath_index == links[len(links) - 1]))",
            "forall(0, i, lambda j: dirty_flags[j])",
            "implies(len(links) > 0, links[0] == i)",
            "forall(0, size, lambda j: implies(dirty_flags[j], ok(j, block, size, sector_links[j]) or exists(0, len(links), lambda k: links[k] == j)))",
        ]
        if not dirs:
            inv += ["forall(0, len(links), lambda k: implies(wf(links[k]), wf(subpath_index)))",
                    "implies(len(links) > 0 and previous_sector_was_directory, forall(0, len(links), lambda k: not wf(links[k])))"]
            # Proof cuts at the two calls that install a chain of plain sectors (3rd and 4th call of add_to_sector_links in source order: the walk met
            # a sector resolved earlier / the end-of-chain word).  Each is an obligation of its own and then a known fact, so that the step "the outer
            # invariant holds again" no longer has to find the whole argument in one solver query (it was solved under one random seed and not under
            # another): the walk is a functional list (equal entries have equal successors; its last entry occurs nowhere else unless that sector
            # links to itself), hence the callee installed the links along it, hence every member of a well-formed chain on it carries its word.
            A2L = "smpl_extract.util.fat:add_to_sector_links"
            last_unique = "forall(0, len(links) - 1, lambda a: links[a] != links[len(links) - 1])"
            installed = "forall(0, len(links) - 1, lambda k: sector_links[links[k]].next == links[k + 1] and not sector_links[links[k]].end)"
            c.at_call(A2L, "forall(0, len(links) - 1, lambda a: forall(0, len(links) - 1, lambda b: implies(links[a] == links[b], links[a + 1] == links[b + 1])))",
                      "equal-entries-have-equal-successors", when="before", ordinals=(2, 3))
            c.at_call(A2L, f"block[subpath_index] == subpath_index or {last_unique}", "last-entry-occurs-once-unless-self-link", when="before", ordinals=(2,))
            c.at_call(A2L, last_unique, "last-entry-occurs-once", when="before", ordinals=(3,))
            c.at_call(A2L, f"block[subpath_index] == subpath_index or {installed}", "links-installed-along-the-walk", when="after", ordinals=(2,))
            c.at_call(A2L, installed, "links-installed-along-the-walk", when="after", ordinals=(3,))
            c.at_call(A2L, "forall(0, len(links) - 1, lambda k: implies(wf(links[k]), ok(links[k], block, size, sector_links[links[k]])))",
                      "members-before-the-last-carry-their-word", when="after", ordinals=(2, 3))
        else:
            inv += [  # the walk never visits a sector twice: plain members were unvisited when reached, a directory run only moves upwards
                "forall(0, len(links), lambda a: forall(0, len(links), lambda b: implies(a < b, links[a] != links[b])))",
                "forall(0, len(links), lambda k: implies(isdir(block[links[k]]), links[k] < subpath_index))",
                "implies(len(links) > 0 and not previous_sector_was_directory, forall(0, len(links), lambda k: not isdir(block[links[k]])))",
                "forall(0, len(links) - 1, lambda k: implies(isdir(block[links[k]]), isdir(block[links[k + 1]])))"]
        li.invariant(*inv)
        li.measure("grows:dirty_flags", "size - subpath_index")
        li.modifies("sector_links").modifies("dirty_flags").modifies("links", ("list", "int"))
    return _akai_exact


_mk_akai_exact(False)
_mk_akai_exact(True)
