"""C13: the partition scan loop of AkaiImageParser (smpl_extract/akai/image.py)."""
from pyvc.contract import contract
from contracts.rof import ROF


@contract("construct:PartitionParser.parse_stream", abstract=True, assumed=True,
          note="a successful parse of one AKAI partition consumes header.size*8192 >= 8192 bytes of the stream "
               "(PartitionAdapter rejects size <= 0; the trailing Lazy(Bytes(...)) advances to the partition end); a failure raises "
               "ConstructError or InvalidPartition and leaves the cursor anywhere")
def _pp(c):
    c.param("stream", ROF)
    c.returns(("drop",))
    c.raises("ConstructError")
    c.raises("InvalidPartition")
    c.ensures("stream.cur >= old(stream.cur) + 8192", "a-partition-is-at-least-one-sector")
    c.modifies("stream.cur")


@contract("smpl_extract.akai.image:AkaiImageParser._load_partitions", props=["C13"])
def _lp(c):
    c.self_obj(("self", "smpl_extract.akai.image:AkaiImageParser",
                {"file": ROF, "file_size": "int", "_partitions": ("list", "opaque"), "_partitions_loaded_flag": "bool",
                 "_routines": ("dict_empty",)}))
    c.abstract_calls = {"PartitionParser.parse_stream": "construct:PartitionParser.parse_stream"}
    c.requires("self.file.cur >= 0")
    c.ensures("self._partitions_loaded_flag", "scan-completes")
    lp = c.loop(0)
    lp.invariant("self.file.cur >= 0", "partition_cnt >= 0")
    lp.measure("self.file_size - self.file.cur")
    lp.modifies("self.file.cur").modifies("partitions", ("list", "opaque"))
