"""C13: the partition scan loop of AkaiImageParser (smpl_extract/akai/image.py)."""
from pyvc.contract import contract
from contracts.rof import ROF


@contract("construct:PartitionParser.parse_stream", abstract=True, assumed=True,
          note="a successful parse of one AKAI partition consumes header.size*8192 >= 8192 bytes of the stream "
               "(PartitionAdapter rejects size <= 0; the trailing Lazy(Bytes(...)) advances to the partition end); a failure raises "
               "ConstructError or InvalidPartition and leaves the cursor anywhere")
def _pp(c):
    c.param("stream", ROF)
    c.returns(("drop",))
    c.raises("ConstructError")
    c.raises("InvalidPartition")
    c.ensures("stream.cur >= old(stream.cur) + 8192", "a-partition-is-at-least-one-sector")
    c.modifies("stream.cur")


@contract("smpl_extract.akai.image:AkaiImageParser._load_partitions", props=["C13"])
def _lp(c):
    c.self_obj(("self", "smpl_extract.akai.image:AkaiImageParser",
                {"file": ROF, "file_size": "int", "_partitions": ("list", "opaque"), "_partitions_loaded_flag": "bool",
                 "_routines": ("dict_empty",)}))
    c.abstract_calls = {"PartitionParser.parse_stream": "construct:PartitionParser.parse_stream"}
    c.requires("self.file.cur >= 0")
    c.ensures("self._partitions_loaded_flag", "scan-completes")
    lp = c.loop(0)
    lp.invariant("self.file.cur >= 0", "partition_cnt >= 0")
    lp.measure("self.file_size - self.file.cur")
    lp.modifies("self.file.cur").modifies("partitions", ("list", "opaque"))


# PartitionAdapter._parse: the part of the assumption above that is the repository's own code - a partition whose header declares no
# sectors (size <= 0: the scan would not move on) is REJECTED, and a name outside the AKAI character set surfaces as ConstructError,
# the class _load_partitions handles; nothing else is let out.
@contract("construct:PartitionStruct._parse#abstract", abstract=True, assumed=True,
          note="the declared partition struct: header (any size word), volume table, SAT; fails with ConstructError or - from the name adapters - InvalidCharacter")
def _ps_parse(c):
    c.param("stream", ("drop",))
    c.param("context", ("drop",))
    c.param("path", ("drop",))
    c.returns(("rec", "PartitionContainer", {"header": ("rec", "PartitionHeader", {"size": "int"})}))
    c.raises("ConstructError", "True")
    c.raises("InvalidCharacter", "True")
    c.modifies()


@contract("smpl_extract.util.constructs:ElementAdapter._decode#abstract", abstract=True, assumed=True, note="builds the element from the container (pure here)")
def _ea_decode(c):
    c.param("obj", ("drop",))
    c.param("context", ("drop",))
    c.param("path", ("drop",))
    c.returns(("obj", "PartitionToken", {}))
    c.modifies()


@contract("smpl_extract.akai.partition:PartitionAdapter._parse", props=["C13", "C14", "C15"])
def _pa_parse(c):
    c.self_obj(("self", "smpl_extract.akai.partition:PartitionAdapter", {"subcon": ("drop",)}))
    c.param("stream", ("drop",))
    c.param("context", ("drop",))
    c.param("path", ("drop",))
    c.abstract_calls = {"self.subcon._parse": "construct:PartitionStruct._parse#abstract", "self._decode": "smpl_extract.util.constructs:ElementAdapter._decode#abstract"}
    c.raises("ConstructError")
    c.ensures("partition_container.header.size > 0", "only-a-partition-that-declares-at-least-one-sector-is-accepted")
    c.modifies()


# ================================================================================================== C01: the volumes of one partition
# VolumesAdapter._decode_element: one Volume per ACTIVE entry of the partition's volume table, in table order, each under the entry's
# name below the partition's path, and each reading its file table from the sector chain that starts at ITS OWN start sector of THIS
# partition's allocation table.  Inactive entries are skipped and cost nothing.  Proved for volume tables of 1, 2 and 3 entries.
_VA = "smpl_extract.akai.volume:"


@contract("smpl_extract.akai.sat:SegmentAllocationTable.get_segment#tag", abstract=True, assumed=False,
          note="get_segment is under contract (sector stream over exactly the resolved chain); here the stream is identified by its first sector")
def _gs_tag(c):
    c.binds_receiver = True
    c.param("index", "int")
    c.returns(("obj", "SegmentToken", {"first_sector": "int"}))
    c.raises("RequestedInvalidSector", "True")
    c.raises("InvalidFatDefinition", "True")
    c.ensures("result.first_sector == index")
    c.modifies()


@contract(_VA + "Volume#new", abstract=True, note="the Volume constructor: keeps name and path")
def _vol_new(c):
    c.param("name", "str")
    c.param("volume_type", "int")
    c.param("parent", ("drop",))
    c.param("path", ("list", "str"))
    c.param("routines", ("drop",))
    c.returns(("obj", _VA + "Volume", {"name": "str", "path_len": "int", "last_component": "str", "file_entries": "int"}))
    c.ensures("result.name == name and result.path_len == len(path) and result.last_component == path[len(path) - 1]")
    c.modifies()


@contract("construct:VolumeBodyConstruct.parse_stream#tag", abstract=True, assumed=True,
          note="parses the volume's file table from the given stream (FileEntriesAdapter._parse is under contract); the table is identified by the stream it was read from")
def _vb_parse(c):
    c.param("volume_stream", ("obj", "SegmentToken", {"first_sector": "int"}))
    c.returns(("rec", "VolumeBodyContainer", {"file_entries": "int"}))
    c.raises("ConstructError", "True")
    c.ensures("result.file_entries == volume_stream.first_sector")
    c.modifies()


def _mk_volumes(n):
    entry = lambda: ("rec", "VolumeEntryContainer", {"name": "str", "type": "int", "start": "int"})

    @contract(_VA + f"VolumesAdapter._decode_element[entries={n}]", source_key=_VA + "VolumesAdapter._decode_element", props=["C01"], proof_only=True)
    def _vd(c):
        c.self_obj(("self", _VA + "VolumesAdapter", {"volume_entries": ("clist", [entry() for _ in range(n)]), "sat": ("obj", "SatToken", {}), "subcon": ("drop",)}))
        c.param("obj", ("drop",))
        c.param("child_info", ("rec", "ChildInfo", {"parent": ("obj", "ParentToken", {}), "parent_path": ("clist", ["str"]), "routines": ("drop",), "name": ("drop",)}))
        c.param("context", ("drop",))
        c.param("path", "str")
        c.abstract_calls = {"sat.get_segment": "smpl_extract.akai.sat:SegmentAllocationTable.get_segment#tag", "Volume": _VA + "Volume#new",
                            "VolumeBodyConstruct.parse_stream": "construct:VolumeBodyConstruct.parse_stream#tag", "callable": "builtins:callable#false"}
        for e in ("RequestedInvalidSector", "InvalidFatDefinition", "ConstructError"):
            c.raises(e)
        c.define("active", ["k"], "self.volume_entries[k].type != 0")
        count = " + ".join(f"ite(active({k}), 1, 0)" for k in range(n))
        c.ensures(f"len(result) == {count}", "one-volume-per-active-entry")
        import itertools
        for k in range(n):
            # (the position is spelled out per pattern of active / inactive entries in front: no symbolic index into a list of objects)
            for pat in itertools.product((True, False), repeat=k):
                cond = " and ".join([f"active({k})"] + [(f"active({j})" if a else f"not active({j})") for j, a in enumerate(pat)])
                at = sum(1 for a in pat if a)
                tag = "".join("a" if a else "i" for a in pat) or "first"
                c.ensures(f"implies({cond}, len(result) > {at} and result[{at}].name == self.volume_entries[{k}].name and result[{at}].file_entries == self.volume_entries[{k}].start "
                          f"and result[{at}].path_len == 2 and result[{at}].last_component == self.volume_entries[{k}].name)",
                          f"volume-of-entry-{k}-in-table-order-under-its-name-reading-the-chain-at-its-own-start-sector.{tag}")
        c.modifies()
    return _vd


@contract("builtins:callable#false", abstract=True, note="callable(x) for already evaluated values: False")
def _callable_false(c):
    c.param("x", ("drop",))
    c.returns(("const", False))
    c.modifies()


for _n in (1, 2, 3, 4):          # entries = 4: thorough tier only
    _mk_volumes(_n)
