"""C02: loop mode -> data window (smpl_extract/roland/s7xx/sample_file.py) and cluster-chain trimming (fat.py)."""
from pyvc.contract import contract

SF = "smpl_extract.roland.s7xx.sample_file:"
POINTS = ("rec", "RolandLoopPoints", {"start": "int", "sustain_start": "int", "sustain_end": "int",
                                      "release_start": "int", "release_end": "int"})
STREAM = ("obj", "ROF", {"content": ("list", "int"), "cur": "int"})

# end point selected by the loop mode and whether the data is time-reversed -- from the property statement
MODES = {
    "_get_forward_end_params": ("sustain_end", False),
    "_get_forward_release_params": ("release_end", False),
    "_get_oneshot_params": ("sustain_end", False),
    "_get_forward_oneshot_params": ("release_end", False),
    "_get_alternate_params": ("sustain_end", False),
    "_get_reverse_oneshot_params": ("sustain_end", True),
    "_get_reverse_loop_params": ("sustain_end", True),
}


def _mk(fn, end, rev):
    @contract(SF + fn, props=["C02"], proof_only=True)
    def _c(c):
        c.param("stream", STREAM)
        c.param("points", POINTS)
        n = f"(points.{end} - points.start + 1)"
        if not rev:
            c.ensures("isinstance(result.data_stream, StreamOffset)", "plain-window")
            c.ensures(f"result.data_stream.offset == 2 * points.start and result.data_stream.end_of_file == 2 * {n}",
                      "window-from-start-to-the-selected-end-inclusive")
            c.ensures("result.data_stream.position == 0 and result.data_stream.substream is stream", "fresh-view-on-the-sample-file")
        else:
            c.ensures("isinstance(result.data_stream, StreamReversed) and result.data_stream.sample_width == 2", "time-reversed-16-bit-words")
            # (the reversed view's own length is never negative - F16: for a well-formed sample, end >= start, it IS 2 * n; a sample whose start lies
            # behind its end reads as empty)
            c.ensures(f"result.data_stream.end_of_file == imax(0, 2 * {n}) and result.data_stream.position == 0", "reversed-view-length")
            c.ensures("isinstance(result.data_stream.substream, StreamOffset) and result.data_stream.substream.substream is stream", "over-a-window")
            c.ensures(f"result.data_stream.substream.offset == 2 * points.start and result.data_stream.substream.end_of_file == 2 * {n}",
                      "window-from-start-to-the-selected-end-inclusive")
        c.modifies()


for _fn, (_end, _rev) in MODES.items():
    _mk(_fn, _end, _rev)


LP = ("rec", "SampleParamLoopPoint", {"fine": "int", "address": "int"})


@contract(SF + "SampleFile.to_generalized", props=["C02"])
def _tg(c):
    c.self_obj(("self", "smpl_extract.roland.s7xx.sample_file:SampleFile", {
        "name": "str", "loop_mode": "int", "sampling_frequency": "int", "original_key": ("drop",),
        "start_sample": LP, "sustain_loop_start": LP, "sustain_loop_end": LP, "release_loop_start": LP, "release_loop_end": LP,
        "_data_stream": STREAM, "_parent": ("const", None), "_path": ("clist", [])}))
    c.define("end_addr", [], "ite(self.loop_mode == 1 or self.loop_mode == 3, self.release_loop_end.address, self.sustain_loop_end.address)")
    c.define("nbytes", [], "2 * (end_addr() - self.start_sample.address + 1)")
    c.define("reversed_mode", [], "self.loop_mode == 5 or self.loop_mode == 6")
    c.ensures("len(result.data_streams) == 1 and result.num_channels == 1", "one-mono-stream")
    c.ensures("result.sample_rate == self.sampling_frequency", "rate-of-the-frequency-code")
    c.ensures("result.data_streams[0].encoding.sample_width == 2 and result.data_streams[0].encoding.endianess == 1 "
              "and result.data_streams[0].encoding.num_interleaved_channels == 1 and result.data_streams[0].frame_size == 2", "16-bit-little-endian-mono")
    c.ensures("implies(not reversed_mode(), isinstance(result.data_streams[0].stream, StreamOffset) and "
              "result.data_streams[0].stream.offset == 2 * self.start_sample.address and "
              "result.data_streams[0].stream.end_of_file == nbytes() and result.data_streams[0].stream.substream is self._data_stream)",
              "forward-modes.window-start-to-mode-end")
    c.ensures("implies(reversed_mode(), isinstance(result.data_streams[0].stream, StreamReversed) and "
              "result.data_streams[0].stream.sample_width == 2 and result.data_streams[0].stream.end_of_file == imax(0, nbytes()) and "
              "result.data_streams[0].stream.substream.offset == 2 * self.start_sample.address and "
              "result.data_streams[0].stream.substream.end_of_file == nbytes() and "
              "result.data_streams[0].stream.substream.substream is self._data_stream)",
              "reverse-modes.time-reversed-window")
    c.ensures("result.name == self.name", "name-kept")
    c.modifies()


@contract("smpl_extract.roland.s7xx.fat:RolandFileAllocationTable.get_file", props=["C02"])
def _gf(c):
    c.self_obj(("self", "smpl_extract.roland.s7xx.fat:RolandFileAllocationTable",
                {"size": "int", "sector_links": ("list", ("rec", "SectorLink", {"next": "int", "end": "bool"})), "parent_stream": STREAM}))
    c.param("index", "int")
    c.param("cluster_offset", "int")
    c.value_class("SectorLink", {"next": "int", "end": "bool"})
    c.requires("index >= 0 and cluster_offset >= 0")
    c.requires("forall(0, len(self.sector_links), lambda k: self.sector_links[k].next >= 0)")
    c.raises("RequestedInvalidSector")
    c.raises("InvalidFatDefinition")
    # the chain from `index` minus its leading `cluster_offset` clusters, cluster size 0x2400
    c.ensures("result.sector_length == 0x2400 and result.position == 0 and result.substream is self.parent_stream", "cluster-stream")
    c.ensures("result.end_of_file == 0x2400 * len(result.sector_list)", "length")
    c.ensures("implies(len(result.sector_list) > 0, "
              "ite(cluster_offset == 0, result.sector_list[0] == index, True))", "starts-at-the-entry")
    c.ensures("implies(cluster_offset == 1 and len(result.sector_list) > 0, result.sector_list[0] == self.sector_links[index].next "
              "and not self.sector_links[index].end)", "skips-exactly-the-leading-cluster")
    c.ensures("forall(1, len(result.sector_list), lambda k: result.sector_list[k] == self.sector_links[result.sector_list[k-1]].next "
              "and not self.sector_links[result.sector_list[k-1]].end)", "follows-the-links")
    c.ensures("implies(len(result.sector_list) > 0, self.sector_links[result.sector_list[len(result.sector_list)-1]].end)", "ends-at-the-end-marker")
    c.modifies()


@contract("smpl_extract.akai.sat:SegmentAllocationTable.get_segment", props=["C01"])
def _gs(c):
    c.self_obj(("self", "smpl_extract.akai.sat:SegmentAllocationTable",
                {"size": "int", "sector_links": ("list", ("rec", "SectorLink", {"next": "int", "end": "bool"})), "parent_stream": STREAM}))
    c.param("index", "int")
    c.value_class("SectorLink", {"next": "int", "end": "bool"})
    c.requires("index >= 0")
    c.requires("forall(0, len(self.sector_links), lambda k: self.sector_links[k].next >= 0)")
    c.raises("RequestedInvalidSector")
    c.raises("InvalidFatDefinition")
    c.ensures("result.sector_length == 8192 and result.position == 0 and result.substream is self.parent_stream", "sector-stream-over-the-partition")
    c.ensures("result.end_of_file == 8192 * len(result.sector_list)", "length")
    c.ensures("len(result.sector_list) >= 1 and result.sector_list[0] == index", "starts-at-the-first-sector")
    c.ensures("forall(1, len(result.sector_list), lambda k: result.sector_list[k] == self.sector_links[result.sector_list[k-1]].next "
              "and not self.sector_links[result.sector_list[k-1]].end)", "follows-the-links")
    c.ensures("self.sector_links[result.sector_list[len(result.sector_list)-1]].end", "ends-at-the-end-marker")
    c.modifies()


LOOP_ENTRY = ("rec", "LoopEntry", {"loop_start": "int", "loop_end": "int", "loop_duration": "int", "repeat_forever": "bool"})


def _mk_akai_tg(nloops):
    @contract(f"smpl_extract.akai.sample:AkaiSample.to_generalized[loops={nloops}]", props=["C01"],
              source_key="smpl_extract.akai.sample:AkaiSample.to_generalized", proof_only=True)
    def _atg(c):
        c.self_obj(("self", "smpl_extract.akai.sample:AkaiSample", {
            "file_name": "str", "sample_name": "str", "sample_type": "int", "sample_rate": "int", "bytes_per_sample": "int",
            "samples_cnt": "int", "start_sample": "int", "end_sample": "int", "note_pitch": ("drop",), "pitch_cents": "int", "pitch_semi": "int",
            "loop_type": "int", "loop_entries": ("clist", [LOOP_ENTRY] * nloops),
            "_data_stream": STREAM, "_parent": ("const", None), "_path": ("clist", [])}))
        c.requires("self.sample_rate > 0", "rate-already-defaulted (SampleAdapter maps 0 to 44100)")
        c.ensures("len(result.data_streams) == 1 and result.num_channels == 1", "one-mono-stream")
        c.ensures("result.data_streams[0].stream is self._data_stream", "the-sample-window-itself")
        c.ensures("result.sample_rate == self.sample_rate", "rate-of-the-header")
        c.ensures("result.data_streams[0].encoding.endianess == 1 and result.data_streams[0].encoding.sample_width == self.bytes_per_sample "
                  "and result.data_streams[0].encoding.num_interleaved_channels == 1", "little-endian-mono")
        c.ensures("result.name == self.file_name", "named-after-the-file-entry")
        c.modifies()


for _k in (0, 1, 2):
    _mk_akai_tg(_k)


# ================================================================================================== C02 / C20: one sample entry
# SampleEntryAdapter._decode_element: which cluster chain a sample reads (the directory record's first cluster, minus the
# parameter record's leading-cluster count) and which stored values it carries on.
@contract("smpl_extract.roland.s7xx.fat:RolandFileAllocationTable.get_file#tag", abstract=True,
          note="records its arguments; get_file itself is under contract above")
def _gf_tag(c):
    c.param("index", "int")
    c.param("cluster_offset", "int")
    c.returns(("rec", "FileTag", {"entry": "int", "skipped": "int"}))
    c.ensures("result.entry == index and result.skipped == cluster_offset")
    c.modifies()


_LP = ("rec", "SampleParamLoopPoint", {"fine": "int", "address": "int"})
_PARAM = ("obj", "smpl_extract.roland.s7xx.sample_entry:SampleParamEntryContainer",
          {"sustain_loop_enable": "int", "sustain_loop_tune": "int", "release_loop_tune": "int", "original_key": ("obj", "NoteToken", {}),
           "loop_mode": "int", "start_sample": _LP, "sustain_loop_start": _LP, "sustain_loop_end": _LP, "release_loop_start": _LP, "release_loop_end": _LP,
           "name": "str", "index": "int", "cluster_top": "int", "num_clusters": "int",
           "sample_options": ("obj", "smpl_extract.roland.s7xx.sample_entry:SampleParamOptionsSection", {"sample_mode": "int", "sampling_frequency": "int"})})


@contract("smpl_extract.roland.s7xx.sample_entry:SampleEntryAdapter._decode_element", props=["C02", "C20"])
def _sde(c):
    c.self_obj(("self", "smpl_extract.roland.s7xx.sample_entry:SampleEntryAdapter", {}))
    c.param("obj", ("rec", "SampleEntryContainer", {"index": "int", "directory": ("rec", "DirectoryEntryContainer", {"name": "str", "fat_entry": "int"}),
                                                    "parameter": _PARAM}))
    c.param("child_info", ("rec", "ChildInfo", {"parent": ("obj", "ParentToken", {}), "parent_path": ("clist", ["str"]), "routines": ("drop",), "name": ("drop",)}))
    c.param("context", ("cdict", {"_": ("cdict", {"fat": ("obj", "smpl_extract.roland.s7xx.fat:RolandFileAllocationTable", {})})}))
    c.param("path", "str")
    c.use = {"smpl_extract.roland.s7xx.fat:RolandFileAllocationTable.get_file": "smpl_extract.roland.s7xx.fat:RolandFileAllocationTable.get_file#tag"}
    c.raises("FatNotPresent", "False")
    c.ensures("result._data_stream.entry == obj.directory.fat_entry and result._data_stream.skipped == obj.parameter.cluster_top",
              "reads-the-chain-of-its-first-cluster-after-its-leading-cluster-count")
    c.ensures("result.directory_name == obj.directory.name and result.parameter_name == obj.parameter.name and result.index == obj.index", "names-and-index")
    c.ensures("result.sampling_frequency == obj.parameter.sample_options.sampling_frequency and result.sample_mode == obj.parameter.sample_options.sample_mode "
              "and result.loop_mode == obj.parameter.loop_mode", "mode-frequency-loop-mode-as-stored")
    for lp in ("start_sample", "sustain_loop_start", "sustain_loop_end", "release_loop_start", "release_loop_end"):
        c.ensures(f"result.{lp}.fine == obj.parameter.{lp}.fine and result.{lp}.address == obj.parameter.{lp}.address", f"{lp}-as-stored")
    c.ensures("len(result._path) == 2 and result._path[0] == child_info.parent_path[0] and result._path[1] == obj.directory.name and result._parent is child_info.parent",
              "placed-under-its-parent")
    c.modifies()


# ================================================================================================== C02 / C14: the four sample slots of a partial
# PartialEntryAdapter._parse: each of the four sample (SMT) slots is resolved on its own - a slot that is unused or whose record is
# damaged (the reference parser fails with ConstructError / UnicodeDecodeError) is left out, and every OTHER slot, before or behind
# it, is kept, in slot order.  The reference parser is abstract: it fails on an arbitrary subset of the slots.
_PE = "smpl_extract.roland.s7xx.partial_entry:"
_REFC = lambda k: ("obj", "SampleRefContainer", {"slot_no": ("const", k)})


@contract("construct:PartialEntryConstruct._parse#abstract", abstract=True, assumed=True,
          note="the declared partial record (directory entry + parameter block with its four sample-selection sub-records); layout under C02's address obligations")
def _pe_sub(c):
    c.param("stream", ("drop",))
    c.param("context", ("drop",))
    c.param("path", ("drop",))
    c.returns(("rec", "PartialEntryContainer", {
        "directory": ("rec", "DirectoryEntryContainer", {"name": "str"}),
        "parameter": ("rec", "PartialParamContainer", {"name": "str", "sample_1": _REFC(1), "sample_2": _REFC(2), "sample_3": _REFC(3), "sample_4": _REFC(4)})}))
    c.modifies()


@contract("construct:SampleEntryReferenceAdapter#new", abstract=True, note="constructing the reference adapter (no state)")
def _sera_new(c):
    c.param("subcon", ("drop",))
    c.returns(("obj", "SampleEntryReferenceAdapterToken", {}))
    c.modifies()


@contract("construct:SampleEntryReferenceAdapter._parse#abstract", abstract=True, assumed=True,
          note="resolving ONE slot: fails (ConstructError for an unused slot / a bad record, UnicodeDecodeError for a damaged name) or yields that slot's reference; "
               "which slots fail is arbitrary")
def _sera_parse(c):
    c.param("stream", ("drop",))
    c.param("ctx", ("cdict", {"ref_container": ("obj", "SampleRefContainer", {"slot_no": "int"})}))
    c.param("path", ("drop",))
    c.returns("int")          # the reference, identified by the number of the slot it was resolved from
    for exc in ("ConstructError", "UnicodeDecodeError"):
        c.raises(exc, "uf_bool('slot_fails', ctx['ref_container'].slot_no)")
    c.ensures("not uf_bool('slot_fails', ctx['ref_container'].slot_no) and result == ctx['ref_container'].slot_no")
    c.modifies()


@contract("smpl_extract.util.constructs:pull_child_info#named", abstract=True, assumed=True, note="context plumbing (pure): parent, path and routines for the named child")
def _pci2(c):
    c.param("context", ("drop",))
    c.param("name", "str")
    c.returns(("rec", "ChildInfo", {"parent": ("obj", "ParentToken", {}), "next_path": ("clist", ["str"]), "routines": ("cdict", {})}))
    c.modifies()


@contract("smpl_extract.util.constructs:get_common_field_args#abstract", abstract=True, assumed=True, note="copies the parameter fields shared with the element class (pure)")
def _gcfa(c):
    c.param("cls", ("drop",))
    c.param("container", ("drop",))
    c.returns(("cdict", {}))
    c.modifies()


@contract(_PE + "PartialEntry#new", abstract=True, note="the dataclass constructor: keeps its arguments")
def _pe_new(c):
    c.param("directory_name", "str")
    c.param("parameter_name", "str")
    c.param("sample_entry_references", ("list", "int"))
    c.param("_parent", ("drop",))
    c.param("_path", ("drop",))
    c.param("_routines", ("drop",))
    c.returns(("obj", _PE + "PartialEntry", {"directory_name": "str", "sample_entry_references": ("alias", "sample_entry_references")}))
    c.ensures("result.directory_name == directory_name")
    c.modifies()


@contract(_PE + "PartialEntryAdapter._parse", props=["C02", "C14"])
def _pea(c):
    c.self_obj(("self", _PE + "PartialEntryAdapter", {"subcon": ("drop",)}))
    c.param("stream", ("drop",))
    c.param("context", ("cdict", {"_": ("cdict", {"_dir_version": "int"})}))
    c.param("path", ("drop",))
    c.abstract_calls = {"sc._parse": "construct:PartialEntryConstruct._parse#abstract", "SampleEntryReferenceAdapter": "construct:SampleEntryReferenceAdapter#new",
                        "parser._parse": "construct:SampleEntryReferenceAdapter._parse#abstract", "pull_child_info": "smpl_extract.util.constructs:pull_child_info#named",
                        "get_common_field_args": "smpl_extract.util.constructs:get_common_field_args#abstract", "PartialEntry": _PE + "PartialEntry#new"}
    c.define("bad", ["k"], "uf_bool('slot_fails', k)")
    good = " + ".join(f"ite(bad({k}), 0, 1)" for k in (1, 2, 3, 4))
    c.ensures(f"len(result.sample_entry_references) == {good}", "exactly-the-resolvable-slots-are-kept")
    for k in (1, 2, 3, 4):
        before = " + ".join([f"ite(bad({j}), 0, 1)" for j in range(1, k)]) or "0"
        c.ensures(f"implies(not bad({k}), result.sample_entry_references[{before}] == {k})", f"slot-{k}-is-kept-in-its-place-whatever-the-other-slots-are")
    c.modifies("context")


# ================================================================================================== C02: the samples of one patch, once per performance
# SampleFileListAdapter._decode: the sample files of ONE patch of a performance - every sample its partials refer to, in order of first
# reference, each once, EXCEPT those already handed out for another patch of the same performance (the performance-wide set
# `_seen_sample_indices`, which it updates).  So over the patches of a performance every referenced sample is exported exactly once.
# Proved for a patch of two partials with 2 + 1 sample entries whose indices are ANY integers (equal or not), and a set that already
# holds one arbitrary index; the file adapter is abstract (a file is identified by the index of its sample entry).
_SFL = "smpl_extract.roland.s7xx.sample_file:"
_SENTRY = ("obj", "SampleEntryToken", {"index": "int"})


@contract("construct:SampleFileAdapter#new", abstract=True, note="constructing the file adapter (no state)")
def _sfa_new(c):
    c.param("subcon", ("drop",))
    c.returns(("obj", "SampleFileAdapterToken", {}))
    c.modifies()


@contract(_SFL + "SampleFileAdapter._decode#tag", abstract=True, note="the file of one sample entry (SampleEntryAdapter / SampleFile.to_generalized are under contract above); identified here by the entry's index")
def _sfa_decode(c):
    c.param("sample_entry", _SENTRY)
    c.param("context", ("drop",))
    c.param("path", ("drop",))
    c.returns("int")
    c.ensures("result == sample_entry.index")
    c.modifies()


def _mk_sfl(with_set):
    tag = "in-a-performance" if with_set else "no-performance-context"

    @contract(_SFL + f"SampleFileListAdapter._decode[{tag}]", source_key=_SFL + "SampleFileListAdapter._decode", props=["C02", "C05"], proof_only=True)
    def _sfl(c):
        c.self_obj(("self", _SFL + "SampleFileListAdapter", {"subcon": ("drop",)}))
        c.param("obj", ("obj", "PatchEntryToken", {"ghost_seen": "int", "partial_entries": ("clist", [
            ("obj", "PartialEntryToken", {"sample_entries": ("clist", [_SENTRY, _SENTRY])}), ("obj", "PartialEntryToken", {"sample_entries": ("clist", [_SENTRY])})])}))
        c.param("context", ("cdict", {"_": ("cdict", {"_seen_sample_indices": ("cset", ["int"])})}) if with_set else ("cdict", {}))
        c.param("path", ("drop",))
        c.abstract_calls = {"SampleFileAdapter": "construct:SampleFileAdapter#new", "sc._decode": _SFL + "SampleFileAdapter._decode#tag"}
        c.define("a", [], "obj.partial_entries[0].sample_entries[0].index")
        c.define("b", [], "obj.partial_entries[0].sample_entries[1].index")
        c.define("d", [], "obj.partial_entries[1].sample_entries[0].index")
        c.define("s", [], "obj.ghost_seen")
        c.define("new", ["x"], "x != s()" if with_set else "True")
        if with_set:
            c.requires("obj.ghost_seen in context['_']['_seen_sample_indices']", "the-one-index-already-handed-out-is-s")
            c.ensures("forall(0, len(result), lambda i: result[i] != s())", "no-file-again-for-a-sample-another-patch-already-gave")
            c.ensures("a() in context['_']['_seen_sample_indices'] and b() in context['_']['_seen_sample_indices'] and d() in context['_']['_seen_sample_indices'] "
                      "and s() in context['_']['_seen_sample_indices']", "the-performance-wide-set-now-holds-every-sample-of-this-patch-too")
        c.ensures("forall(0, len(result), lambda i: result[i] == a() or result[i] == b() or result[i] == d())", "only-samples-this-patch-refers-to")
        c.ensures("forall(0, len(result), lambda i: forall(0, i, lambda j: result[i] != result[j]))", "no-sample-twice")
        for nm in ("a", "b", "d"):
            c.ensures(f"implies(new({nm}()), exists(0, len(result), lambda i: result[i] == {nm}()))", f"every-new-sample-gets-its-file.{nm}")
        c.ensures("implies(new(a()), len(result) >= 1 and result[0] == a())", "in-order-of-first-reference")
        c.modifies(*(["context"] if with_set else []))
    return _sfl


_mk_sfl(True)
_mk_sfl(False)


# ================================================================================================== C02: the files of one performance
# PerformanceEntry.files: for every patch of the performance, in patch order, its program file, then - behind all programs - the sample
# files of every patch, again in patch order; ONE context (one `_seen_sample_indices` set) serves all patches of the performance; the
# list is remembered.  Proved for performances of 1 and 2 patches; the two per-patch decoders are abstract (the sample one is under
# contract above: SampleFileListAdapter._decode).
_PF = "smpl_extract.roland.s7xx.performance_entry:"
_PATCH = ("obj", "PatchEntryToken", {"id": "int"})


@contract("construct:ProgramFileAdapter#new", abstract=True, note="constructing the program adapter (no state)")
def _pfa_new(c):
    c.param("subcon", ("drop",))
    c.returns(("obj", "ProgramFileAdapterToken", {}))
    c.modifies()


@contract("construct:SampleFileListAdapter#new", abstract=True, note="constructing the sample-list adapter (no state)")
def _sfla_new(c):
    c.param("subcon", ("drop",))
    c.returns(("obj", "SampleFileListAdapterToken", {}))
    c.modifies()


@contract(_PF + "ProgramFileAdapter._decode#tag", abstract=True, assumed=True, note="the program file of one patch (identified by the patch)")
def _pfa_dec(c):
    c.param("patch", _PATCH)
    c.param("context", ("cdict", {"_": ("cdict", {"_seen_sample_indices": ("drop",)})}))
    c.param("path", "str")
    c.returns("int")
    c.ensures("result == uf_int('program_of_patch', patch.id)")
    c.modifies()


@contract(_PF + "SampleFileListAdapter._decode#tag", abstract=True, assumed=False,
          note="the sample files of one patch: SampleFileListAdapter._decode is under contract of its own; here its result is a list identified by the patch")
def _sfla_dec(c):
    c.param("patch", _PATCH)
    c.param("context", ("cdict", {"_": ("cdict", {"_seen_sample_indices": ("drop",)})}))
    c.param("path", "str")
    c.returns(("list", "int"))
    c.ensures("len(result) == uf_int('sample_count_of_patch', patch.id) and forall(0, len(result), lambda i: result[i] == uf_int('sample_of_patch', patch.id, i))")
    c.modifies()


def _mk_perf_files(n):
    @contract(_PF + f"PerformanceEntry.files[patches={n}]", source_key=_PF + "PerformanceEntry.files", props=["C02"], proof_only=True)
    def _pfiles(c):
        c.self_obj(("self", _PF + "PerformanceEntry", {"_patch_entries": ("clist", [_PATCH] * n), "_files": ("const", None), "_routines": ("cdict", {}),
                                                      "_f_patch_entries": ("obj", "MustNotBeCalled", {}), "_fat": ("drop",)}))
        c.use = {_PF + "PerformanceEntry.patch_entries": "inline"}
        c.abstract_calls = {"ProgramFileAdapter": "construct:ProgramFileAdapter#new", "SampleFileListAdapter": "construct:SampleFileListAdapter#new",
                            "sc_program._decode": _PF + "ProgramFileAdapter._decode#tag", "sc_samples._decode": _PF + "SampleFileListAdapter._decode#tag"}
        c.define("prog", ["k"], "uf_int('program_of_patch', self._patch_entries[k].id)")
        c.define("cnt", ["k"], "uf_int('sample_count_of_patch', self._patch_entries[k].id)")
        c.define("smp", ["k", "i"], "uf_int('sample_of_patch', self._patch_entries[k].id, i)")
        total = " + ".join(f"cnt({k})" for k in range(n))
        c.ensures(f"len(result) == {n} + {total}", "one-program-per-patch-plus-every-patch's-samples")
        for k in range(n):
            c.ensures(f"result[{k}] == prog({k})", f"program-of-patch-{k}-in-patch-order")
            before = " + ".join([str(n)] + [f"cnt({j})" for j in range(k)])
            c.ensures(f"forall(0, cnt({k}), lambda i: result[{before} + i] == smp({k}, i))", f"samples-of-patch-{k}-behind-the-programs-in-patch-order")
        c.ensures("self._files is result", "remembered")
        c.modifies("self._files")
    return _pfiles


for _n in (1, 2):
    _mk_perf_files(_n)
