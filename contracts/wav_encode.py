"""C01 / C03 / C04 / C16: WavSampleAdapter._encode (smpl_extract/generalized/wav.py) - what is handed to the RIFF builder."""
from pyvc.contract import contract
from contracts.transcoder import VIEW, ENCODING

W = "smpl_extract.generalized.wav:"


@contract("VIEW.seek", abstract=True,
          note="the seek contract proved for every view class (C08), restated over the logical content")
def _vseek(c):
    c.param("offset", "int")
    c.param("whence", "int")
    c.returns("int")
    c.requires("whence == 0 or whence == 1 or whence == 2")
    c.ensures("implies(whence == 0 and 0 <= offset and offset <= len(self.content), self.cur == offset)")
    c.ensures("self.cur >= 0 and self.cur <= len(self.content) and result == self.cur")
    # the clamping target proved for every view class (`<cls>.seek:clamps-to-0-length`, position/end_of_file being cur/len(content))
    c.ensures("self.cur == imax(0, imin(len(self.content), ite(whence == 1, old(self.cur), ite(whence == 2, len(self.content), 0)) + offset))")
    c.modifies("self.cur")


@contract("smpl_extract.generalized.wav:get_smpl_chunk_data#abstract", abstract=True, assumed=True,
          note="smpl chunk contents (floats, rounding) are not modelled here; only the presence/position of the chunk is")
def _smpl(c):
    c.param("sample", ("drop",))
    c.returns(("drop",))


@contract(W + "get_fmt_chunk_data", props=["C04", "C01"], proof_only=True)
def _fmt(c):
    c.param("sample", ("rec", "Sample", {"sample_rate": "int"}))
    c.param("encoding", ENCODING)
    c.ensures("result.audio_format == 1 and result.channel_cnt == encoding.num_interleaved_channels and "
              "result.sample_rate == sample.sample_rate and result.bits_per_sample == 8 * encoding.sample_width", "pcm-format-fields")
    c.modifies()


def _ds(ch):
    enc = ("rec", "StreamEncoding", {"endianess": ("const", 1), "sample_width": "int",
                                     "num_interleaved_channels": ("const", ch), "is_signed": ("const", True)})
    return ("obj", "smpl_extract.data_streams:DataStream", {"stream": VIEW, "encoding": enc, "frame_size": "int"})


def _mk(shape, tag):
    n = len(shape)
    total = sum(shape)

    @contract(W + f"WavSampleAdapter._encode[{tag}]", props=["C01", "C03", "C04", "C16", "C05"],
              source_key=W + "WavSampleAdapter._encode", proof_only=True)
    def _enc(c):
        c.self_obj(("self", "smpl_extract.generalized.wav:WavSampleAdapter", {}))
        c.param("obj", ("obj", "smpl_extract.generalized.sample:Sample", {
            "name": "str", "sample_rate": "int", "num_channels": ("const", total),
            "data_streams": ("clist", [_ds(ch) for ch in shape]),
            "loop_regions": ("list", "opaque"), "midi_note": ("opt", "int"), "pitch_offset_semi": ("opt", "int"),
            "pitch_offset_cents": ("opt", "int")}))
        c.param("context", ("const", None))
        c.param("path", ("const", None))
        c.abstract_calls = {"get_smpl_chunk_data": "smpl_extract.generalized.wav:get_smpl_chunk_data#abstract"}
        c.bind["system_byte_order"] = ("int", "system_byte_order == 1 or system_byte_order == 2")
        c.bind["_DEFAULT_BUFFER_SIZE"] = ("int", "_DEFAULT_BUFFER_SIZE >= 1")
        wf = " and ".join(f"obj.data_streams[{k}].frame_size == {shape[k]} * obj.data_streams[{k}].encoding.sample_width and "
                          f"obj.data_streams[{k}].encoding.sample_width >= 1 and "
                          f"obj.data_streams[{k}].encoding.sample_width == obj.data_streams[0].encoding.sample_width" for k in range(n))
        c.requires(wf)
        c.define("chunks", [], "result['data']['chunks']")
        c.define("wants_smpl", [], "present(obj.midi_note) or present(obj.pitch_offset_cents) or present(obj.pitch_offset_semi) or len(obj.loop_regions) > 0")
        c.ensures("len(chunks()) == ite(wants_smpl(), 3, 2)", "fmt-optional-smpl-data")
        c.ensures("chunks()[0]['riff_id'] is WavRiffChunkType.FMT", "fmt-first")
        c.ensures("chunks()[len(chunks()) - 1]['riff_id'] is WavRiffChunkType.DATA", "data-last")
        c.ensures("implies(wants_smpl(), chunks()[1]['riff_id'] is WavRiffChunkType.SMPL)", "smpl-in-between")
        c.ensures(f"chunks()[0]['data'].audio_format == 1 and chunks()[0]['data'].channel_cnt == {total} and "
                  "chunks()[0]['data'].sample_rate == obj.sample_rate and "
                  "chunks()[0]['data'].bits_per_sample == 8 * obj.data_streams[0].encoding.sample_width", "fmt-fields")
        # every source view is rewound before the generator is built (a view outlives one export)
        for k in range(n):
            c.ensures(f"obj.data_streams[{k}].stream.cur == 0", f"source-{k}-rewound")
        if n == 1:
            c.ensures("isinstance(chunks()[len(chunks()) - 1]['data'], PassthroughTranscoder) and "
                      "chunks()[len(chunks()) - 1]['data'].data_stream is obj.data_streams[0] and "
                      "chunks()[len(chunks()) - 1]['data'].buffer_size % obj.data_streams[0].frame_size == 0 and "
                      "chunks()[len(chunks()) - 1]['data'].buffer_size >= obj.data_streams[0].frame_size", "pass-through-in-whole-frames")
        else:
            c.ensures("isinstance(chunks()[len(chunks()) - 1]['data'], PipelineTranscoder)", "pipeline-for-split-streams")
        c.raises("NoDataStream", "False")


_mk((1,), "mono")
_mk((2,), "stereo-interleaved")
_mk((1, 1), "left-right")


# ================================================================================================== export_wav (C04)
# One output file per call: opened at the given path in mode "wb" (created or TRUNCATED - nothing of an older, longer file of the same
# name survives), built into exactly once from the given sample, and whatever the builder raises is passed on (no second attempt into
# the half-written stream).
@contract("builtins:open#binary-write", abstract=True, assumed=True, note="open(path, 'wb'): a fresh, empty binary file object at that path (io semantics of mode 'wb')")
def _open_wb(c):
    c.param("file_path", "str")
    c.param("mode", "str")
    c.returns(("obj", "BinaryFile", {"path": "str", "mode": "str", "builds": "int", "built_from": ("obj", "NothingYet", {})}))
    c.ensures("result.path == file_path and result.mode == mode and result.builds == 0")
    c.modifies()


@contract("construct:WavSampleBuilder.build_stream", abstract=True, assumed=True,
          note="Construct.build_stream(obj, stream): writes the built bytes to the stream (WavSampleAdapter._encode and the RiffStruct declaration are under contract / "
               "layout obligations of their own); may raise a ConstructError (e.g. FormatFieldError for a field value that does not fit)")
def _build_stream(c):
    c.param("sample", ("obj", "smpl_extract.generalized.sample:Sample", {}))
    c.param("stream", ("obj", "BinaryFile", {"path": "str", "mode": "str", "builds": "int", "built_from": ("drop",)}))
    c.raises("ConstructError")
    c.raises("FormatFieldError")           # the subclass a caller might be tempted to single out
    c.ensures("stream.builds == old(stream.builds) + 1 and stream.built_from is sample")
    c.ensures_on_raise("ConstructError", "stream.builds == old(stream.builds) + 1")          # an attempt counts, finished or not
    c.modifies("stream.builds", "stream.built_from")


@contract(W + "export_wav", props=["C04", "C01", "C06"])
def _export_wav(c):
    c.param("sample", ("obj", "smpl_extract.generalized.sample:Sample", {"midi_note": ("drop",), "pitch_offset_semi": ("drop",), "pitch_offset_cents": ("drop",)}))
    c.param("file_path", "str")
    c.abstract_calls = {"open": "builtins:open#binary-write", "WavSampleBuilder.build_stream": "construct:WavSampleBuilder.build_stream"}
    c.raises("ConstructError")
    c.ensures("export_stream.path == file_path and export_stream.mode == 'wb'", "the-file-at-the-given-path-opened-truncating")
    c.ensures("export_stream.builds == 1 and export_stream.built_from is sample", "built-exactly-once-from-the-given-sample")
    c.ensures_on_raise("ConstructError", "export_stream.builds == 1", "a-failed-build-is-not-retried-into-the-same-file")
