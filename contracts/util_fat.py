"""Contracts for smpl_extract/util/fat.py  (C07, C13, C01, C02)."""
from pyvc.contract import contract

SECTOR_LINK = ("rec", "SectorLink", {"next": "int", "end": "bool"})
LINKS = ("list", SECTOR_LINK)


@contract("smpl_extract.util.fat:FileAllocationTable.get_path", props=["C07", "C13", "C01", "C02"])
def _get_path(c):
    c.self_obj(("self", "smpl_extract.util.fat:FileAllocationTable",
                {"size": "int", "sector_links": LINKS, "parent_stream": ("const", None)}))
    c.param("starting_sector", "int")
    c.returns(("list", "int"))
    c.value_class("SectorLink", {"next": "int", "end": "bool"})
    # type invariants of the inputs: link words and start sectors are parsed as unsigned integers
    c.requires("starting_sector >= 0", "start-unsigned")
    c.requires("forall(0, len(self.sector_links), lambda k: self.sector_links[k].next >= 0)", "links-unsigned")
    # the property: the result is exactly the sequence obtained by following the table from the
    # first sector, in that order, up to (and including) the first sector flagged end-of-chain
    c.ensures("len(result) >= 1 and result[0] == starting_sector", "chain.head")
    c.ensures("forall(1, len(result), lambda k: result[k] == self.sector_links[result[k-1]].next "
              "and not self.sector_links[result[k-1]].end)", "chain.follows-links")
    c.ensures("self.sector_links[result[len(result)-1]].end", "chain.ends-at-end-marker")
    c.ensures("forall(0, len(result), lambda k: 0 <= result[k] and result[k] < len(self.sector_links))",
              "chain.in-table")
    # errors are reported, and only for tables that are not well-formed for this start sector:
    #   RequestedInvalidSector - the walk leaves the table;
    #   InvalidFatDefinition   - `size` steps of the walk met no end marker (pigeonhole: a chain of
    #                            pairwise distinct in-table sectors is shorter - paper lemma, DESIGN C07)
    c.raises("RequestedInvalidSector",
             "current_sector >= len(self.sector_links) and "
             "(len(path) == 0 and current_sector == starting_sector or "
             " len(path) > 0 and current_sector == self.sector_links[path[len(path)-1]].next)", at_raise=True)
    c.raises("InvalidFatDefinition",
             "len(path) >= self.size and forall(0, len(path), lambda k: not self.sector_links[path[k]].end)", at_raise=True)
    c.modifies()
    lp = c.loop(0)
    lp.invariant(
        "loop_cnt == len(path)",
        "0 <= loop_cnt",
        "current_sector >= 0",
        "implies(len(path) == 0, current_sector == starting_sector)",
        "implies(len(path) > 0, path[0] == starting_sector and "
        "current_sector == self.sector_links[path[len(path)-1]].next and "
        "not self.sector_links[path[len(path)-1]].end)",
        "forall(1, len(path), lambda k: path[k] == self.sector_links[path[k-1]].next)",
        "forall(0, len(path), lambda k: not self.sector_links[path[k]].end)",
        "forall(0, len(path), lambda k: 0 <= path[k] and path[k] < len(self.sector_links))",
    )
    lp.measure("self.size - loop_cnt")
    lp.modifies("path", ("list", "int"))


# ---------------------------------------------------------------- concrete reading (replay / bounded stand-in)
CONCRETE = {}


def _mk_links(raw):
    from smpl_extract.util.fat import SectorLink
    return [SectorLink(next=d["next"], end=bool(d["end"])) for d in raw]


def _build_get_path(inputs):
    from smpl_extract.util.fat import FileAllocationTable
    links = _mk_links(inputs["self"]["sector_links"])
    fat = FileAllocationTable(None, inputs["self"]["size"], links)
    return {"call": fat.get_path, "args": [inputs["starting_sector"]],
            "env": {"self": fat, "starting_sector": inputs["starting_sector"]}}


def ref_walk(links, start):
    """Reference reading of the property statement: follow the table from `start`.
    Returns (status, chain): status in ok | out-of-range | cycle."""
    seen, chain, cur = set(), [], start
    while True:
        if not (0 <= cur < len(links)):
            return "out-of-range", chain
        if cur in seen:
            return "cycle", chain
        seen.add(cur)
        chain.append(cur)
        if links[cur]["end"]:
            return "ok", chain
        cur = links[cur]["next"]


def _oracle_get_path(inputs, kind, val, env):
    links = inputs["self"]["sector_links"]
    status, chain = ref_walk(links, inputs["starting_sector"])
    bad = []
    if status == "ok" and len(chain) <= inputs["self"]["size"]:
        if kind != "return" or list(val) != chain:
            bad.append("oracle.well-formed-chain-resolves-exactly")
    return bad


def _small_get_path(tier, seed):
    import itertools
    maxn = 3 if tier == "quick" else 4
    for n in range(1, maxn + 1):
        cells = [(nx, e) for nx in range(n + 1) for e in (False, True)]
        for table in itertools.product(cells, repeat=n):
            links = [{"next": nx, "end": e} for (nx, e) in table]
            for s in range(n + 1):
                yield {"self": {"size": n, "sector_links": links}, "starting_sector": s}


CONCRETE["smpl_extract.util.fat:FileAllocationTable.get_path"] = {
    "build": _build_get_path, "small": _small_get_path, "oracle": _oracle_get_path,
    "bound": "all link tables of <= 3 (quick) / 4 (thorough) entries, next in 0..n (n = out of range), both end flags, every start 0..n",
}


@contract("smpl_extract.util.fat:add_to_sector_links", props=["C07", "C13", "C01", "C02"])
def _add_links(c):
    c.param("links_arg", ("list", "int"))
    c.param("sector_links", LINKS)
    c.value_class("SectorLink", {"next": "int", "end": "bool"})
    c.requires("len(links_arg) >= 1", "non-empty")
    c.requires("forall(0, len(links_arg), lambda k: links_arg[k] >= 0)", "links-unsigned")
    c.define("pairwise_distinct", ["xs"], "forall(0, len(xs), lambda a: forall(0, len(xs), lambda b: implies(a < b, xs[a] != xs[b])))")
    c.ensures("len(sector_links) == old(len(sector_links))", "table-length-kept")
    c.ensures("implies(pairwise_distinct(links_arg), forall(0, len(links_arg) - 1, lambda k: sector_links[links_arg[k]].next == links_arg[k+1] "
              "and not sector_links[links_arg[k]].end))", "links-installed")
    # the same for a list that may revisit a sector as long as it is FUNCTIONAL (equal entries have equal successors) and its last entry
    # occurs nowhere else: what a walk along a link table produces
    c.define("functional", ["xs"], "forall(0, len(xs) - 1, lambda a: xs[a] != xs[len(xs) - 1] and "
             "forall(0, len(xs) - 1, lambda b: implies(xs[a] == xs[b], xs[a + 1] == xs[b + 1])))")
    c.ensures("implies(functional(links_arg), forall(0, len(links_arg) - 1, lambda k: sector_links[links_arg[k]].next == links_arg[k+1] "
              "and not sector_links[links_arg[k]].end))", "links-installed-along-a-functional-walk")
    c.ensures("sector_links[links_arg[len(links_arg)-1]].end", "last-is-end")
    c.ensures("forall(0, len(sector_links), lambda s: implies(forall(0, len(links_arg), lambda k: links_arg[k] != s), "
              "sector_links[s].next == old(sector_links)[s].next and sector_links[s].end == old(sector_links)[s].end))",
              "frame.other-entries-untouched")
    c.raises("InvalidFatDefinition", "exists(0, len(links_arg), lambda k: links_arg[k] >= len(sector_links))", iff=True)
    c.modifies("sector_links")
    lp = c.loop(0)
    lp.invariant(
        "1 <= _i0 and _i0 <= len(links_arg)",
        "prev_link == links_arg[_i0 - 1]",
        "len(sector_links) == old(len(sector_links))",
        "implies(pairwise_distinct(links_arg), forall(0, _i0 - 1, lambda k: sector_links[links_arg[k]].next == links_arg[k+1] and not sector_links[links_arg[k]].end))",
        "implies(functional(links_arg), forall(0, _i0 - 1, lambda k: sector_links[links_arg[k]].next == links_arg[k+1] and not sector_links[links_arg[k]].end))",
        "forall(0, _i0 - 1, lambda k: links_arg[k] < len(sector_links))",
        "forall(0, len(sector_links), lambda s: implies(forall(0, _i0 - 1, lambda k: links_arg[k] != s), "
        "sector_links[s].next == old(sector_links)[s].next and sector_links[s].end == old(sector_links)[s].end))",
    )


def _build_add_links(inputs):
    from smpl_extract.util.fat import add_to_sector_links
    T = _mk_links(inputs["sector_links"])
    links = list(inputs["links_arg"])
    return {"call": add_to_sector_links, "args": [links, T],
            "env": {"links_arg": links, "sector_links": T}}


def _small_add_links(tier, seed):
    import itertools
    maxn = 3 if tier == "quick" else 4
    for n in range(1, maxn + 1):
        base = [{"next": 7, "end": (k % 2 == 0)} for k in range(n)]
        for m in range(1, n + 2):
            for links in itertools.permutations(range(n + 1), m):
                yield {"links_arg": list(links), "sector_links": base}


CONCRETE["smpl_extract.util.fat:add_to_sector_links"] = {
    "build": _build_add_links, "small": _small_add_links,
    "bound": "all duplicate-free link lists over 0..n (n out of range) for tables of <= 3/4 entries",
}


# ---------------------------------------------------------------------------------------------------------------- closing the composition
# get_path over a link table that carries, for every member of a closed set `wf`, exactly that member's table word W(j) (what the two
# `_decode#exact` contracts establish): started at a member it returns the sequence obtained by FOLLOWING THE TABLE WORDS from the first
# sector up to the sector whose word is the end marker - the induction along the chain is done by the loop itself (invariant: the
# current sector is a member).
def _mk_along(tag, is_end, note):
    @contract(f"smpl_extract.util.fat:FileAllocationTable.get_path#along-the-table[{tag}]", source_key="smpl_extract.util.fat:FileAllocationTable.get_path",
              props=["C07", "C01", "C02"], proof_only=True)
    def _gp(c):
        c.self_obj(("self", "smpl_extract.util.fat:FileAllocationTable", {"size": "int", "sector_links": LINKS, "parent_stream": ("const", None)}))
        c.param("starting_sector", "int")
        c.returns(("list", "int"))
        c.value_class("SectorLink", {"next": "int", "end": "bool"})
        c.define("W", ["j"], "uf_int('table_word', j)")
        c.define("wf", ["j"], "uf_bool('chain_member', j)")
        c.define("isend", ["w"], is_end)
        c.requires("starting_sector >= 0 and wf(starting_sector) and self.size == len(self.sector_links)")
        c.requires("forall(0, len(self.sector_links), lambda k: self.sector_links[k].next >= 0)", "links-unsigned")
        c.requires("forall(lambda j: implies(wf(j), 0 <= j and j < len(self.sector_links) and W(j) >= 0 and implies(not isend(W(j)), wf(W(j)))))",
                   "members-are-closed-under-following-the-table")
        c.requires("forall(0, len(self.sector_links), lambda j: implies(wf(j), (isend(W(j)) and self.sector_links[j].end) or "
                   "(not isend(W(j)) and self.sector_links[j].next == W(j) and not self.sector_links[j].end)))", "the-table-was-decoded-exactly")
        c.raises("InvalidFatDefinition")       # a closed set without an end marker (a cycle) is reported, never followed for ever
        c.ensures("len(result) >= 1 and result[0] == starting_sector", "starts-at-the-first-sector")
        c.ensures("forall(0, len(result) - 1, lambda k: result[k + 1] == W(result[k]) and not isend(W(result[k])))", "each-next-sector-is-the-table-word-of-the-one-before")
        c.ensures("isend(W(result[len(result) - 1]))", "stops-at-the-sector-whose-word-is-the-end-marker")
        c.ensures("forall(0, len(result), lambda k: wf(result[k]))", "never-leaves-the-chain")
        c.modifies()
        lp = c.loop(0)
        lp.invariant(
            "loop_cnt == len(path) and 0 <= loop_cnt and current_sector >= 0 and wf(current_sector)",
            "implies(len(path) == 0, current_sector == starting_sector)",
            "implies(len(path) > 0, path[0] == starting_sector and current_sector == W(path[len(path) - 1]))",
            "forall(0, len(path) - 1, lambda k: path[k + 1] == W(path[k]))",
            "forall(0, len(path), lambda k: wf(path[k]) and not isend(W(path[k])))",
        )
        lp.measure("self.size - loop_cnt")
        lp.modifies("path", ("list", "int"))
        c.note = note
    return _gp


_mk_along("akai", "w == 0xC000", "AKAI: the end marker is the word 0xC000")
_mk_along("roland", "w >= 0xfff8", "Roland: every word >= 0xfff8 ends a chain")


@contract("smpl_extract.util.fat:add_to_sector_links#walk", abstract=True, assumed=False,
          note="a SUBSET of the clauses proved for add_to_sector_links above (functional walk, last is end, frame, table length, error condition): "
               "used by the decoder exactness proofs so that the clauses they do not need are not handed to the solver")
def _add_links_walk(c):
    c.param("links_arg", ("list", "int"))
    c.param("sector_links", LINKS)
    c.requires("len(links_arg) >= 1", "non-empty")
    c.requires("forall(0, len(links_arg), lambda k: links_arg[k] >= 0)", "links-unsigned")
    c.define("functional", ["xs"], "forall(0, len(xs) - 1, lambda a: xs[a] != xs[len(xs) - 1] and "
             "forall(0, len(xs) - 1, lambda b: implies(xs[a] == xs[b], xs[a + 1] == xs[b + 1])))")
    c.ensures("len(sector_links) == old(len(sector_links))")
    c.ensures("implies(functional(links_arg), forall(0, len(links_arg) - 1, lambda k: sector_links[links_arg[k]].next == links_arg[k+1] "
              "and not sector_links[links_arg[k]].end))")
    c.ensures("sector_links[links_arg[len(links_arg)-1]].end")
    c.ensures("forall(0, len(sector_links), lambda s: implies(forall(0, len(links_arg), lambda k: links_arg[k] != s), "
              "sector_links[s].next == old(sector_links)[s].next and sector_links[s].end == old(sector_links)[s].end))")
    c.raises("InvalidFatDefinition", "exists(0, len(links_arg), lambda k: links_arg[k] >= len(sector_links))", iff=True)
    c.modifies("sector_links")
