"""C02: index -> directory / parameter record addressing of the five *EntryConstruct declarations.
The live Pointer offset callables are evaluated over their WHOLE index domain (finite, exhaustive = complete) and compared
with area offsets and record sizes written from the Kaitai description ksy/roland/s770.ksy (literals below)."""
from pyvc.contract import contract

CONCRETE = {}

# from ksy/roland/s770.ksy (section sizes): directory entries are 32 bytes
LEVELS = {
    #  level          module             constructor                 dir area   param area  param size  max entries
    "volume":      ("volume_entry",      "VolumeEntryConstruct",      0xa0800,   0x10d800,   0x100,      0x80),
    "performance": ("performance_entry", "PerformanceEntryConstruct", 0xa1800,   0x115800,   0x200,      0x200),
    "patch":       ("patch_entry",       "PatchEntryConstruct",       0xa5800,   0x155800,   0x200,      0x400),
    "partial":     ("partial_entry",     "PartialEntryConstruct",     0xad800,   0x1d5800,   0x80,       0x1000),
    "sample":      ("sample_entry",      "SampleEntryConstruct",      0xcd800,   0x255800,   0x30,       0x2000),
}


def _pointers(level):
    import importlib
    from construct import Container
    from construct import core
    mod, ctor = LEVELS[level][:2]
    m = importlib.import_module("smpl_extract.roland.s7xx." + mod)
    st = getattr(m, ctor)(lambda ctx: ctx["i"])
    # unwrap to the Struct and pick the two Pointer members by name
    while not isinstance(st, core.Struct):
        st = st.subcon
    found = {}
    validator = None
    for sc in st.subcons:
        name = getattr(sc, "name", None)
        inner = sc
        while isinstance(inner, core.Renamed):
            inner = inner.subcon
        if isinstance(inner, core.Pointer) and name in ("directory", "parameter"):
            found[name] = inner.offset
        if isinstance(inner, core.ExprValidator):
            validator = inner._validate
    return found, validator


def _build_addr(inputs):
    from construct import Container
    level = inputs["level"]
    ptrs, validator = _pointers(level)

    def run():
        out = []
        for i in range(inputs["lo"], inputs["hi"]):
            ctx = Container(_=Container(i=i))
            out.append((ptrs["directory"](ctx), ptrs["parameter"](ctx), bool(validator(i, ctx, "")) if validator else None))
        return out
    return {"call": run, "env": {}}


def _oracle_addr(inputs, kind, val, env):
    if kind != "return":
        return ["oracle.addressing-callables-must-evaluate"]
    _, _, d0, p0, psz, mx = LEVELS[inputs["level"]]
    for k, (d, p, ok) in enumerate(val):
        i = inputs["lo"] + k
        if d != d0 + 32 * i or p != p0 + psz * i:
            return [f"oracle.record-address({inputs['level']} {i}: directory {d:#x} expected {d0 + 32 * i:#x}, parameter {p:#x} expected {p0 + psz * i:#x})"]
        if ok is not None and ok != (i < mx):
            return [f"oracle.index-bound({inputs['level']} {i}: validator says {ok}, table size {mx})"]
    return []


def _small_addr(tier, seed):
    for level, row in LEVELS.items():
        mx = row[5]
        for lo in range(0, mx + 64, 1024):
            yield {"level": level, "lo": lo, "hi": min(lo + 1024, mx + 64)}


@contract("finite:roland_addressing", props=["C02", "C14"], abstract=True)
def _fa(c):
    pass


CONCRETE["finite:roland_addressing"] = {
    "build": _build_addr, "small": _small_addr, "oracle": _oracle_addr,
    "bound": "EXHAUSTIVE: the live Pointer offset callables and index validators of the five *EntryConstruct declarations evaluated for "
             "every index 0 .. table size + 63 (volumes 128, performances 512, patches 1024, partials 4096, samples 8192) against "
             "AREA + SIZE*index from the Kaitai description",
    "timeout_s": 30.0,
}
