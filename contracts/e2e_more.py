"""End-to-end bounded monitors: C09 (containers), C14 (damaged entry), C15 (truncated image),
C16 (history independence), C20 (ls shows stored values)."""
import os

from pyvc.contract import contract
from contracts.e2e import _lib, expand_akai, expand_roland, roland_expected, _sample, _vol, _rsample, WPC

CONCRETE = {}


def _base_akai(k=0):
    """A small two-partition AKAI model with fragmented chains (names need no sanitising)."""
    return {"partitions": [
        {"volumes": [_vol("VOL A", [_sample("KICK", 50 + k, 3 + k), _sample("SNARE", 4026, 4, typ=0x73, sectors=[9]),
                                    _sample("LONG", 9000, 5, sectors=[22, 20, 21], start=3, end=8990)], dir_mode="reserved"),
                     _vol("VOL B", [_sample("HAT", 10, 6, rate=22050)], typ=1)]},
        {"volumes": [_vol("LAST", [_sample("X1", 5000, 7, sectors=[6, 5]), _sample("X2", 20, 8)], dir_sectors=[31])]}]}


def _base_roland():
    return {"fat_version": 1, "disk_name": "D",
            "volumes": [{"name": "V1", "performances": [0]}],
            "performances": [{"name": "P1", "patches": [0]}, {"name": "ORPH", "patches": [0]}],
            "patches": [{"name": "PA1", "partials": [0]}],
            "partials": [{"name": "PT1", "samples": [0, 1]}],
            "samples": [_rsample("S0", WPC + 10, 1, clusters=[5, 3]), _rsample("S1", 60, 2, mode=5, freq=3)]}


def _walk_ls(L, image, max_nodes=40):
    """ls at every level reachable through printed names (breadth first)."""
    out = {}
    todo = [""]
    while todo and len(out) < max_nodes:
        p = todo.pop(0)
        o, e = L.do_ls(image, p)
        out[p] = (o, type(e).__name__ if e else None)
        if e is None and "Item" in o.splitlines()[0:1][0] if o.splitlines() else False:
            for nm in L.ls_table_names(o):
                if nm.strip():
                    todo.append((p + "/" if p else "") + nm)
    return out


# ================================================================================== C09 containers
def _build_c09(inputs):
    L = _lib()

    def run():
        if inputs["kind"] == "akai":
            raw = L.aw.build_akai_image(expand_akai(inputs["model"]))
        else:
            raw = L.rw.build_roland_image(expand_roland(inputs["model"]))
        raw = raw + bytes(inputs.get("pad", 0))
        if inputs.get("trim"):
            # a trimmed dump: the unused tail of the last partition is missing (every referenced sector is still there)
            raw = raw[:len(raw) - inputs["trim"]]
        head = inputs.get("cue_header", "")
        res = {}
        with L.Workdir() as w:
            paths = {}
            paths["raw"] = w.file("raw.img", raw)
            paths["2352"] = w.file("sect.img", L.aw.wrap_2352(raw))
            paths["mdx"] = w.file("img.mdx", L.aw.wrap_mdx(raw))
            # the same sectors dumped from a data track that does not begin at 00:02:00 (behind audio tracks / in a later session):
            # BCD address bytes with seconds >= 40 and frames >= 50 (0x40.., 0x50.. as raw values)
            for tag, addr in inputs.get("late_2352", {}).items():
                paths["2352@" + tag] = w.file(f"sect_{tag.replace(':', '_')}.img", L.aw.wrap_2352(raw, first_address=addr))
            d1 = w.sub("cue_raw")
            with open(os.path.join(d1, "data.bin"), "wb") as f:
                f.write(raw)
            with open(os.path.join(d1, "img.cue"), "w") as f:
                f.write(head + 'FILE "data.bin" BINARY\n  TRACK 01 MODE1/2048\n    INDEX 01 00:00:00\n')
            paths["cue->raw"] = os.path.join(d1, "img.cue")
            d2 = w.sub("cue_2352")
            with open(os.path.join(d2, "data.bin"), "wb") as f:
                f.write(L.aw.wrap_2352(raw))
            with open(os.path.join(d2, "img.cue"), "w") as f:
                f.write(head + 'FILE "data.bin" BINARY\n  TRACK 01 MODE1/2352\n    INDEX 01 00:00:00\n')
            paths["cue->2352"] = os.path.join(d2, "img.cue")
            # a sampler CD-ROM with an audio demo track: data track + audio track is still a sampler image
            d3 = w.sub("cue_mixed")
            with open(os.path.join(d3, "data.bin"), "wb") as f:
                f.write(L.aw.wrap_2352(raw) + bytes(2352 * 3))
            with open(os.path.join(d3, "img.cue"), "w") as f:
                nsec = len(L.aw.wrap_2352(raw)) // 2352
                mm, ss, ff = nsec // (75 * 60), (nsec // 75) % 60, nsec % 75
                f.write(head + 'FILE "data.bin" BINARY\n  TRACK 01 MODE1/2352\n    INDEX 01 00:00:00\n'
                        f'  TRACK 02 AUDIO\n    INDEX 01 {mm:02d}:{ss:02d}:{ff:02d}\n')
            paths["cue->2352+audio"] = os.path.join(d3, "img.cue")
            # the FILE entry names the image through a sub-directory; a decoy with the same base name lies next to the sheet
            d4 = w.sub("cue_subdir")
            os.makedirs(os.path.join(d4, "images"))
            with open(os.path.join(d4, "images", "data.bin"), "wb") as f:
                f.write(raw)
            with open(os.path.join(d4, "data.bin"), "wb") as f:
                f.write(bytes(4096))
            with open(os.path.join(d4, "img.cue"), "w") as f:
                f.write(head + 'FILE "images/data.bin" BINARY\n  TRACK 01 MODE1/2048\n    INDEX 01 00:00:00\n')
            paths["cue->subdir/raw"] = os.path.join(d4, "img.cue")
            # file names are the user's: an upper-case sheet name, a bin name with blanks
            d6 = w.sub("cue_names")
            with open(os.path.join(d6, "sampler disc 1.img"), "wb") as f:
                f.write(raw)
            with open(os.path.join(d6, "DISC.CUE"), "w") as f:
                f.write(head + 'FILE "sampler disc 1.img" BINARY\n  TRACK 01 MODE1/2048\n    INDEX 01 00:00:00\n')
            paths["CUE(upper-case name)->raw(name with blanks)"] = os.path.join(d6, "DISC.CUE")
            # an unrelated all-audio sheet opened earlier in the same process must not leak into the later ones
            d5 = w.sub("other_disc")
            with open(os.path.join(d5, "audio.bin"), "wb") as f:
                f.write(bytes(2352 * 4))
            with open(os.path.join(d5, "other.cue"), "w") as f:
                f.write('FILE "audio.bin" BINARY\n  TRACK 01 AUDIO\n    INDEX 01 00:00:00\n  TRACK 02 AUDIO\n    INDEX 01 00:00:02\n')
            L.do_ls(os.path.join(d5, "other.cue"), "")
            for name, p in paths.items():
                out = w.sub("out_" + name.replace(">", "").replace("-", "_"))
                stdout, err = L.do_export(p, out)
                res[name] = {"files": L.read_tree(out), "stdout": stdout, "error": type(err).__name__ if err else None,
                             "ls": _walk_ls(L, p), "type": type(L.open_image(p)).__name__}
        return res
    return {"call": run, "env": {}}


def _oracle_c09(inputs, kind, val, env):
    if kind != "return":
        return []
    bad = []
    ref = val["raw"]
    if ref["error"] or not ref["files"]:
        bad.append(f"reference-export-failed({ref['error']})")
    for name, r in val.items():
        if name == "raw":
            continue
        if r["type"] != ref["type"]:
            bad.append(f"recognised-as-the-same-kind({name}: {r['type']} vs {ref['type']})")
        if r["error"] != ref["error"] or r["files"] != ref["files"]:
            diff = sorted(set(r["files"]) ^ set(ref["files"]))[:3] or [k for k in ref["files"] if r["files"].get(k) != ref["files"][k]][:3]
            bad.append(f"byte-identical-exports({name}: error={r['error']}, differs at {diff})")
        if r["ls"] != ref["ls"]:
            d = [k for k in ref["ls"] if r["ls"].get(k) != ref["ls"][k]][:3]
            bad.append(f"same-ls-output-at-every-level({name}: {d})")
        if r["stdout"] != ref["stdout"]:
            bad.append(f"same-export-report({name})")
    return bad


def _small_c09(tier, seed, shard=(0, 1)):
    late = {"00:02:62": 2 * 75 + 62, "00:47:10": 47 * 75 + 10, "12:51:68": (12 * 60 + 51) * 75 + 68, "79:59:74": (79 * 60 + 59) * 75 + 74 - 600}
    long_head = "".join(f'REM ripping log line {i:04d}: read ok, no errors, crc 0000000 (padding padding padding)\n' for i in range(140))     # > 8 KiB of 7-bit text
    cases = [{"kind": "akai", "model": _base_akai(), "late_2352": late}, {"kind": "roland", "model": _base_roland(), "late_2352": {"00:47:10": 47 * 75 + 10}},
             {"kind": "akai", "model": _base_akai(2), "cue_header": long_head[:long_head.index("\n", 4200) + 1]}, {"kind": "akai", "model": _base_akai(3), "cue_header": long_head},
             {"kind": "akai", "model": {"partitions": [{"volumes": [_vol("V", [_sample("ONE", 4026, 1)])]}]}, "pad": 0},
             # trimmed dumps (the last partition declares more sectors than the file holds) and the disc-level cue commands rippers write
             {"kind": "akai", "model": _base_akai(4), "trim": 3 * 2048,
              "cue_header": 'REM GENRE Sampler\nCATALOG 0000000000000\nPERFORMER "Vendor"\nTITLE "Sound Library 1"\n'},
             {"kind": "akai", "model": {"partitions": [{"volumes": [_vol("V", [_sample("ONE", 4026, 1)])]}]}, "trim": 8192 + 1000,
              "cue_header": 'TITLE "Disc"\nSONGWRITER "Nobody"\n'}]
    if tier != "quick":
        cases += [{"kind": "akai", "model": _base_akai(k), "pad": p} for k, p in ((1, 100), (2, 2048), (3, 1))]
        m = _base_roland()
        m["samples"][0] = _rsample("S0", 3 * WPC, 5, clusters=[9, 8, 7])
        cases.append({"kind": "roland", "model": m})
    for k, c in enumerate(cases):
        if k % shard[1] == shard[0]:
            yield c


@contract("e2e:C09", props=["C09"], abstract=True)
def _c09(c):
    pass


CONCRETE["e2e:C09"] = {
    "build": _build_c09, "small": _small_c09, "oracle": _oracle_c09, "shards": 5,
    "nontrivial": lambda i, s: s["kind"] == "return",
    "bound": "5 (quick) / 10 (thorough) generated AKAI and Roland images (two of them trimmed dumps, with disc-level CATALOG/PERFORMER/TITLE/REM lines in the cue sheets) x {raw, MODE1/2352 (first sector at 00:02:00 and at four later BCD addresses), MDX, cue->raw, cue->2352, cue with an audio track, cue naming a sub-directory}; cue sheets of 4.2 KiB and 12 KiB; image sizes that are "
             "and are not multiples of 2048; ls compared at every level reachable through printed names; exports compared byte for byte",
    "timeout_s": 120.0, "budget_quick": 200, "budget_thorough": 900,
}


# ================================================================================== C14 damaged directory entry
def _build_c14(inputs):
    L = _lib()

    def run():
        model = expand_akai(inputs["model"])
        raw, layout = L.aw.build_akai_image_ex(model)
        res = {}
        with L.Workdir() as w:
            # "unused": slots of the table that hold no file (24 zero bytes, as a deleted file leaves them) - in the reference image too
            b0 = bytearray(raw)
            for u in inputs.get("unused", []):
                for o in L.aw.entry_byte_offsets(layout, 0, 0, u):
                    b0[o] = 0
            raw = bytes(b0)
            for tag, data in (("base", raw), ("damaged", None)):
                if data is None:
                    b = bytearray(raw)
                    offs = L.aw.entry_byte_offsets(layout, 0, 0, inputs["entry"])
                    for (k, v) in inputs["damage"]:
                        b[offs[k]] = v
                    data = bytes(b)
                p = w.file(tag + ".img", data)
                out = w.sub("out_" + tag)
                stdout, err = L.do_export(p, out)
                lsv, lerr = L.do_ls(p, "A:/VOL")
                res[tag] = {"files": L.read_tree(out), "error": type(err).__name__ if err else None,
                            "names": L.ls_table_names(lsv), "ls_error": type(lerr).__name__ if lerr else None}
        return res
    return {"call": run, "env": {}}


def _oracle_c14(inputs, kind, val, env):
    if kind != "return":
        return []
    bad = []
    names = [f["name"] for f in inputs["model"]["partitions"][0]["volumes"][0]["files"]]
    unused = set(inputs.get("unused", []))
    i = inputs["entry"]
    base, dmg = val["base"], val["damaged"]
    if base["error"] or len(base["files"]) != len(names) - len(unused):
        return [f"reference-run-failed({base['error']}, {sorted(base['files'])})"]
    if dmg["error"]:
        bad.append(f"export-raised({dmg['error']})")
    for j, n in enumerate(names):
        if j == i or j in unused:
            continue
        path = f"A/VOL/{n}.wav"
        if n not in dmg["names"]:
            bad.append(f"other-item-still-listed-under-its-name({n!r}; listed {dmg['names']})")
        if dmg["files"].get(path) != base["files"].get(path):
            bad.append(f"other-item-exported-unchanged({path}: {'missing' if path not in dmg['files'] else 'differs'})")
    return bad


def damaged_name_collides(inputs):
    """K1: does the damage turn the entry's name into a sibling's name (after AKAI decoding)?"""
    alphabet = "0123456789 ABCDEFGHIJKLMNOPQRSTUVWXYZ#+-."
    files = inputs["model"]["partitions"][0]["volumes"][0]["files"]
    name = files[inputs["entry"]]["name"]
    raw = [alphabet.index(c) for c in name.upper()] + [10] * (12 - len(name))
    for (k, v) in inputs["damage"]:
        if k < 12:
            raw[k] = v
    if any(b > 40 for b in raw):
        return False
    new = "".join(alphabet[b] for b in raw).strip()
    return new != name and any(f["name"] == new for j, f in enumerate(files) if j != inputs["entry"])


def _small_c14(tier, seed, shard=(0, 1)):
    import random
    names = ["AB", "AC", "AD"]
    model = {"partitions": [{"volumes": [_vol("VOL", [_sample(n, 30 + k, 50 + k) for k, n in enumerate(names)])]}]}
    cases = []
    for entry in range(3):
        # type byte (offset 16): every value
        vals = range(256) if tier != "quick" else list(range(0, 256, 7)) + [0x64, 0x70, 0x71, 0x73, 0x78, 0xF0, 0xF3, 0x00, 0xFF]
        for v in vals:
            cases.append((entry, [(16, v)]))
        # name bytes (0..11), size bytes (17..19), start (20..21), padding
        rnd = random.Random(5000 + seed + entry)
        for off in list(range(0, 12)) + [12, 15, 17, 18, 19, 20, 21, 22, 23]:
            for v in ([0, 10, 11, 40, 41, 0x47, 0xD7, 0xFF] if tier == "quick" else [0, 9, 10, 11, 12, 36, 37, 40, 41, 0x47, 0x80, 0xD7, 0xFE, 0xFF]):
                cases.append((entry, [(off, v)]))
        for _ in range(10 if tier == "quick" else 100):
            cases.append((entry, [(rnd.randrange(24), rnd.randrange(256)) for _ in range(rnd.randint(2, 6))]))
        # the damaged start sector becomes another file's start sector (the files of this volume start in sectors 3..9)
        for v in range(3, 10):
            cases.append((entry, [(20, v)]))
        # the damaged name becomes a sibling's name (second letter B/C/D = 12/13/14)
        for v in (12, 13, 14):
            cases.append((entry, [(1, v)]))
        # the whole name field blanked / zeroed (multi-byte damage confined to the entry)
        cases.append((entry, [(o, 10) for o in range(12)]))
        cases.append((entry, [(o, 0) for o in range(12)]))
    k = 0
    for entry, dmg in cases:
        # excluded by the format: bytes 8..9 == 47 D7 is the end-of-table marker (a truncation, not damage to one entry)
        d = dict(dmg)
        if d.get(8) == 0x47 or d.get(9) == 0xD7:
            continue
        k += 1
        if k % shard[1] == shard[0]:
            yield {"model": model, "entry": entry, "damage": [list(x) for x in dmg]}
    # a table with an UNUSED slot between live files (a deleted file): damage to the entries next to it; and a one-character name blanked
    names5 = ["AB", "AC", "GONE", "AD", "AE", "F"]
    model5 = {"partitions": [{"volumes": [_vol("VOL", [_sample(n, 30 + j, 70 + j) for j, n in enumerate(names5)])]}]}
    extra = []
    for entry in (0, 1, 3, 4, 5):
        for dmg in ([(16, 0x11)], [(0, 0xFF)], [(21, 0xFF), (20, 0xFF)], [(16, 0x00)], [(0, 10)], [(17, 0), (18, 0), (19, 0)]):
            extra.append((entry, dmg))
    for entry, dmg in extra:
        k += 1
        if k % shard[1] == shard[0]:
            yield {"model": model5, "entry": entry, "damage": [list(x) for x in dmg], "unused": [2]}


@contract("e2e:C14", props=["C14"], abstract=True)
def _c14(c):
    pass


CONCRETE["e2e:C14"] = {
    "build": _build_c14, "small": _small_c14, "oracle": _oracle_c14, "shards": 8,
    "nontrivial": lambda i, s: s["kind"] == "return",
    "bound": "a 3-file AKAI volume; for each entry: the type byte set to every value (quick: 43 values), each name/size/start/padding byte set "
             "to 8 (quick) / 14 values, 10/100 random multi-byte damages confined to the entry; excluded: damage that writes the end-of-table marker",
    "timeout_s": 60.0, "budget_quick": 250, "budget_thorough": 1500,
}


# ================================================================================== C15 truncated image
def _build_c15(inputs):
    L = _lib()

    def run():
        model = expand_akai(inputs["model"])
        raw, layout = L.aw.build_akai_image_ex(model)
        cut = inputs["cut"]
        with L.Workdir() as w:
            full = w.file("full.img", raw)
            out_full = w.sub("out_full")
            L.do_export(full, out_full)
            p = w.file("cut.img", raw[:cut])
            out = w.sub("out_cut")
            stdout, err = L.do_export(p, out)
            return {"full": L.read_tree(out_full), "cut": L.read_tree(out), "stdout": stdout,
                    "error": type(err).__name__ if err else None, "layout": layout}
    return {"call": run, "env": {}}


def _oracle_c15(inputs, kind, val, env):
    L = _lib()
    if kind != "return":
        return []
    bad = []
    cut = inputs["cut"]
    lay = val["layout"]
    for path, data in val["cut"].items():
        info, probs = L.wav_info(data)
        if info is None or probs:
            bad.append(f"reported-file-is-well-formed({path}: {probs[:2]})")
            continue
        ref = val["full"].get(path)
        if ref is None:
            bad.append(f"same-path-as-the-complete-image({path})")
            continue
        rinfo, _ = L.wav_info(ref)
        if not rinfo["data"].startswith(info["data"]):
            bad.append(f"pcm-is-a-prefix-of-the-complete-export({path}: {len(info['data'])} bytes)")
    # files lying entirely before the cut must be exported complete
    S = 8192
    for pi, p in enumerate(lay["partitions"]):
        base = p["offset"]
        for vi, v in enumerate(p["volumes"]):
            vmodel = inputs["model"]["partitions"][pi]["volumes"][vi]
            for fi, f in enumerate(v["files"]):
                # the file's OWN 24-byte directory entry (entries are stored consecutively along the directory chain)
                dir_end = base + v["dir_sectors"][(fi * 24) // S] * S + (fi * 24) % S + 24
                fm = vmodel["files"][fi]
                if fm["type"] not in (0xF3, 0x73):
                    continue
                if fm["name"].endswith(("-L", "-R", " L", " R")):
                    continue      # halves of a stereo pair have no path of their own (judged by the prefix clause)
                need = max([base + 3 * S, dir_end] + [base + (s + 1) * S for s in f["sectors"]])
                path = f"{chr(65 + pi)}/{vmodel['name']}/{fm['name']}.wav"
                if need <= cut and val["cut"].get(path) != val["full"].get(path):
                    bad.append(f"complete-when-everything-lies-before-the-cut({path}: needs {need} <= cut {cut}; "
                               f"{'missing' if path not in val['cut'] else 'differs'}; export error={val['error']})")
    return bad


def _small_c15(tier, seed, shard=(0, 1)):
    import random
    # the directory lists S3 (whose header sits in a late sector) before S1 (early sectors); directory placed after some data
    model = {"partitions": [{"size_sectors": 128, "volumes": [
        _vol("VOL", [_sample("S3", 3000, 3, sectors=[12]), _sample("S1", 6000, 1, sectors=[4, 5]), _sample("S2", 100, 2, sectors=[8])],
             dir_sectors=[3])]}]}
    model2 = {"partitions": [{"size_sectors": 128, "volumes": [
        _vol("VOL", [_sample("A -L", 5000, 4, sectors=[10, 11]), _sample("A -R", 5000, 5, sectors=[6, 7]), _sample("B", 10, 6, sectors=[5])],
             dir_sectors=[9])]}]}
    cuts = []
    for s in range(3, 15):
        cuts += [s * 8192, s * 8192 + 1, s * 8192 + 139, s * 8192 + 140, s * 8192 + 141]
    cuts += [17 * 8192 + 5, 20 * 8192 + 100]
    rnd = random.Random(6000 + seed)
    cuts += [rnd.randrange(3 * 8192, 14 * 8192) for _ in range(10 if tier == "quick" else 120)]
    if tier == "quick":
        cuts = cuts[::2]
    # directory AFTER the data of its first files: a cut inside a later entry must not cost the earlier, complete files
    model4 = {"partitions": [{"size_sectors": 128, "volumes": [
        _vol("VOL", [_sample("X", 3000, 7, sectors=[5]), _sample("Y", 6000, 8, sectors=[6, 7]), _sample("Z", 5000, 9, sectors=[10, 11])],
             dir_sectors=[9])]}]}
    # a pair whose LEFT half lies before its RIGHT half (a cut inside R leaves L readable), and a forward-jumping chain with complete
    # files stored in the gap and listed after it
    model5 = {"partitions": [{"size_sectors": 128, "volumes": [
        _vol("VOL", [_sample("P -L", 5000, 14, sectors=[6, 7]), _sample("P -R", 5000, 15, sectors=[10, 11]), _sample("Q", 10, 16, sectors=[5])],
             dir_sectors=[4])]}]}
    model6 = {"partitions": [{"size_sectors": 128, "volumes": [
        _vol("VOL", [_sample("JUMP", 14000, 17, sectors=[5, 6, 20, 21]), _sample("G1", 3000, 18, sectors=[8]), _sample("G2", 6000, 19, sectors=[10, 11])],
             dir_sectors=[4])]}]}
    k = 0
    for m, dsec in ((model, 3), (model2, 9), (model4, 9), (model5, 4), (model6, 4)):
        # cuts inside the 24-byte entries of the volume's file table (after the table-end probe at entry+8, before the entry's end)
        inside = [dsec * 8192 + 24 * j + o for j in range(4) for o in ((9, 10, 23) if tier == "quick" else (1, 8, 9, 10, 11, 16, 20, 23))]
        for c in cuts + inside:
            k += 1
            if k % shard[1] == shard[0]:
                yield {"model": m, "cut": c}
    # two partitions: cuts inside the SECOND partition's header / volume table / SAT must not cost the first partition's files
    model3 = {"partitions": [{"size_sectors": 128, "volumes": [_vol("VA", [_sample("P1", 500, 21), _sample("P2", 4026, 22)])]},
                             {"size_sectors": 128, "volumes": [_vol("VB", [_sample("Q1", 300, 23)])]}]}
    base = 128 * 8192
    cuts3 = [base, base + 1, base + 2, base + 100, base + 201, base + 202, base + 203, base + 210, base + 217, base + 218, base + 1000,
             base + 1801, base + 1802, base + 1803, base + 5000, base + 24573, base + 24574, base + 24576, base + 24576 + 23, base + 24576 + 24,
             base + 3 * 8192 + 100, base + 4 * 8192 + 139]
    cuts3 += [base + rnd.randrange(0, 5 * 8192) for _ in range(6 if tier == "quick" else 80)]
    for c in cuts3:
        k += 1
        if k % shard[1] == shard[0]:
            yield {"model": model3, "cut": c}
    # ... and cuts inside the DATA of the second / third partition: that partition's files lying before the cut are still complete
    model7 = {"partitions": [{"size_sectors": 128, "volumes": [_vol("VA", [_sample("P1", 500, 31)])]},
                             {"size_sectors": 128, "volumes": [_vol("VB", [_sample("Q1", 300, 32, sectors=[5]), _sample("Q2", 6000, 33, sectors=[6, 7]),
                                                                           _sample("Q3", 3000, 34, sectors=[9])], dir_sectors=[4])]},
                             {"size_sectors": 128, "volumes": [_vol("VC", [_sample("R1", 300, 35, sectors=[5]), _sample("R2", 5000, 36, sectors=[6, 7])], dir_sectors=[4])]}]}
    cuts7 = [pb * 128 * 8192 + s * 8192 + d for pb in (1, 2) for s in (5, 6, 7, 8, 9, 10) for d in ((0, 150, 5000) if tier == "quick" else (0, 1, 139, 140, 150, 4096, 5000, 8191))]
    for c in cuts7:
        k += 1
        if k % shard[1] == shard[0]:
            yield {"model": model7, "cut": c}


@contract("e2e:C15", props=["C15"], abstract=True)
def _c15(c):
    pass


CONCRETE["e2e:C15"] = {
    "build": _build_c15, "small": _small_c15, "oracle": _oracle_c15, "shards": 8,
    "nontrivial": lambda i, s: s["kind"] == "return",
    "bound": "three AKAI images (directory after some of the data; a file listed first whose sectors come last; a stereo pair) cut at every "
             "sector boundary, 1 byte after it and around the 140-byte header end for sectors 3..14, inside the 24-byte directory entries (3/8 offsets "
             "per entry), plus 10/120 random interior offsets; a two-partition image cut inside the second partition's tables; "
             "'complete' is demanded of a file whose OWN directory entry, header and data sectors lie before the cut",
    "timeout_s": 60.0, "budget_quick": 400, "budget_thorough": 2000,
}


# ================================================================================== C16 history independence
def _make_image(L, w, spec):
    if spec["kind"] == "akai":
        return w.file("img.akai", L.aw.build_akai_image(expand_akai(spec["model"])))
    if spec["kind"] == "roland":
        return w.file("img.s7xx", L.rw.build_roland_image(expand_roland(spec["model"])))
    titles = ["../up", "dup", "dup"] if spec.get("hostile") else ["T0", "T1"]
    tracks = [{"number": i + 1, "mode": "AUDIO", "title": t, "indices": [(1, 0, 0, 2 * i)]} for i, t in enumerate(titles)]
    binb = L.pcm_words(3, 2352 * 4)[:2352 * 7 + 6]
    return L.cw.write_bin_cue(w.sub("cd"), binb, L.cw.build_cue(tracks))


def _do_op(L, image, op, w, tag):
    if op[0] == "info":
        # library use: look at the opened image directly (no action has installed naming routines yet)
        try:
            names = [c.name for c in image.children]
            return {"out": repr(sorted(names)), "error": None}
        except Exception as e:  # noqa
            return {"out": "", "error": type(e).__name__}
    if op[0] == "ls":
        o, e = L.do_ls(image, op[1])
        return {"out": o, "error": type(e).__name__ if e else None}
    out = w.sub("out_" + tag)
    o, e = L.do_export(image, out)
    return {"out": o, "error": type(e).__name__ if e else None, "files": L.read_tree(out)}


def _build_c16(inputs):
    L = _lib()

    def run():
        if inputs.get("by_path"):
            # actions given a PATH string: the answer depends on the bytes found at that path now, not on what was there before
            with L.Workdir() as w:
                first = _make_image(L, w, inputs["image"])
                other_dir = w.sub("other")
                with L.Workdir() as w2:
                    second_src = _make_image(L, w2, inputs["second"])
                    second_bytes = open(second_src, "rb").read()
                for op in inputs["ops"][:-1]:
                    _do_op(L, first, op, w, "p_first")
                with open(first, "wb") as f:
                    f.write(second_bytes)
                got = [_do_op(L, first, inputs["ops"][-1], w, "p_second")]
                fresh_path = os.path.join(other_dir, "fresh" + os.path.splitext(first)[1])
                with open(fresh_path, "wb") as f:
                    f.write(second_bytes)
                want = [_do_op(L, fresh_path, inputs["ops"][-1], w, "p_fresh")]
                return {"shared": got, "fresh": want, "image_unchanged": True, "by_path": True}
        with L.Workdir() as w:
            path = _make_image(L, w, inputs["image"])
            with open(path, "rb") as f:
                before = f.read()
            # the reference answers - a fresh object per operation - are taken FIRST and in REVERSE order, so that the reference for operation k
            # is computed before anything operation j < k could have left behind, in the object or anywhere in the process
            want = [None] * len(inputs["ops"])
            for k in reversed(range(len(inputs["ops"]))):
                want[k] = _do_op(L, L.open_image(path), inputs["ops"][k], w, f"f{k}")
            shared = L.open_image(path)
            got = []
            for k, op in enumerate(inputs["ops"]):
                got.append(_do_op(L, shared, op, w, f"s{k}"))
            with open(path, "rb") as f:
                after = f.read()
            return {"shared": got, "fresh": want, "image_unchanged": before == after}
    return {"call": run, "env": {}}


def _oracle_c16(inputs, kind, val, env):
    if kind != "return":
        return []
    bad = []
    if not val["image_unchanged"]:
        bad.append("image-file-never-modified")
    for k, (g, w_) in enumerate(zip(val["shared"], val["fresh"])):
        if g != w_:
            what = "files" if g.get("files") != w_.get("files") else "output"
            detail = ""
            if what == "files":
                diff = [p for p in w_.get("files", {}) if g.get("files", {}).get(p) != w_["files"][p]][:2]
                detail = f": {diff} sizes {[len(g.get('files', {}).get(p, b'')) for p in diff]} vs {[len(w_['files'][p]) for p in diff]}"
            if val.get("by_path"):
                bad.append(f"same-answer-for-the-bytes-now-at-the-path({what}{detail}; after {inputs['ops'][:-1]} on the file that was there before)")
            else:
                bad.append(f"operation-{k}-{inputs['ops'][k][0]}-same-as-on-a-fresh-object({what}{detail}; after {inputs['ops'][:k]})")
            break
    return bad


def _small_c16(tier, seed, shard=(0, 1)):
    import itertools
    images = [
        {"kind": "akai", "model": _base_akai(), "paths": ["", "A:", "A:/VOL A", "A:/VOL A/KICK", "B:/LAST", "nope/x"]},
        {"kind": "cdda", "paths": ["", "T0", "zzz"]},
        {"kind": "cdda", "hostile": True, "paths": [""]},
        {"kind": "roland", "model": _base_roland(), "paths": ["", "V1", "V1/P1", "V1/P1/S0", "_Orphan_perf", "bad"]},
    ]
    # one stored name used for a FILE in one partition and for a DIRECTORY in another (their export names differ: 'SNARE-' / 'SNARE-0')
    twin = {"partitions": [{"volumes": [_vol("DRUMS", [_sample("SNARE-", 40, 61), _sample("A..", 30, 62)])]},
                           {"volumes": [_vol("SNARE-", [_sample("HAT", 20, 63)]), _vol("A..", [_sample("B", 10, 64)])]}]}
    images.append({"kind": "akai", "model": twin, "paths": ["", "A:", "B:", "B:/SNARE-", "A:/DRUMS"]})
    # a sample with active loops (its loop table is read by `ls` of the sample AND by every export) and an L/R pair (merged anew by every export)
    loopy = {"partitions": [{"volumes": [_vol("V", [
        _sample("LOOPY", 400, 81, loops=[{"at": 100, "fine": 0, "coarse": 50, "duration": 9999}, {"at": 300, "fine": 7, "coarse": 20, "duration": 500}]),
        _sample("PAD -L", 300, 82), _sample("PAD -R", 300, 83), _sample("PLAIN", 64, 84)])]}]}
    images.append({"kind": "akai", "model": loopy, "paths": ["A:/V", "A:/V/LOOPY", "A:/V/PAD -L"]})
    if shard[0] == 0:
        other = {"partitions": [{"volumes": [_vol("OTHER", [_sample("ZAP", 33, 71), _sample("ZIP", 12, 72)])]}]}
        for first_ops in ([["ls", ""]], [["export"]], [["ls", "A:/VOL A"], ["ls", ""]]):
            for last in (["ls", ""], ["ls", "A:/OTHER"], ["export"]):
                yield {"by_path": True, "image": {"kind": "akai", "model": _base_akai()}, "second": {"kind": "akai", "model": other}, "ops": first_ops + [last]}
    k = 0
    maxlen = 2 if tier == "quick" else 3
    for im in images:
        ops = [["ls", p] for p in im["paths"]] + [["export"]]
        for n in range(2, maxlen + 1):
            for seq in itertools.product(ops, repeat=n):
                if tier == "quick" and n == 2 and seq[0][0] == "ls" and seq[1][0] == "ls" and (k % 3) and im["kind"] != "roland":
                    k += 1
                    continue
                if n == 3 and sum(1 for o in seq if o[0] == "export") == 0 and (k % 5):
                    k += 1
                    continue
                k += 1
                if k % shard[1] == shard[0]:
                    yield {"image": {x: im[x] for x in im if x != "paths"}, "ops": [list(o) for o in seq]}


@contract("e2e:C16", props=["C16"], abstract=True)
def _c16(c):
    pass


CONCRETE["e2e:C16"] = {
    "build": _build_c16, "small": _small_c16, "oracle": _oracle_c16, "shards": 8,
    "nontrivial": lambda i, s: s["kind"] == "return",
    "bound": "sequences of 2 (quick) / 3 (thorough) operations from {ls at 3..6 paths incl. an invalid one, export} on ONE opened image "
             "object versus a fresh object per operation; AKAI (incl. one stored name used for a file and for a directory), CDDA and Roland images; the image file "
             "compared before/after; 9 sequences through PATH strings with the file at the path replaced by another image before the last operation",
    "timeout_s": 120.0, "budget_quick": 250, "budget_thorough": 1500,
}


# ================================================================================== C20 ls shows the stored values
def _kv(out):
    d = {}
    for line in out.splitlines():
        if ":" in line:
            k, v = line.split(":", 1)
            d.setdefault(k.strip(), []).append(v.strip())
    return d


def _build_c20(inputs):
    L = _lib()

    def run():
        with L.Workdir() as w:
            if inputs["kind"] == "akai":
                p = w.file("img.akai", L.aw.build_akai_image(expand_akai(inputs["model"])))
            elif inputs["kind"] == "roland":
                p = w.file("img.s7xx", L.rw.build_roland_image(expand_roland(inputs["model"])))
            else:
                p = _make_image(L, w, {"kind": "cdda"})
            res = {}
            for path in inputs["paths"]:
                o, e = L.do_ls(p, path)
                res[path] = {"out": o, "error": type(e).__name__ if e else None}
            return res
    return {"call": run, "env": {}}


NOTE_NAMES = ["A", "A#", "B", "C", "C#", "D", "D#", "E", "F", "F#", "G", "G#"]
AKAI_LOOP_TYPES = {0: "Loop in release", 1: "Loop until release", 2: "No loop", 3: "Play until end"}
ROLAND_LOOP = {0: "Forward End", 1: "Forward Release", 2: "Oneshot", 3: "Forward Oneshot", 4: "Alternate", 5: "Reverse Oneshot", 6: "Reverse Loop"}
ROLAND_RATE = {0: 48000, 1: 44100, 2: 24000, 3: 22050, 4: 30000, 5: 15000}


def _oracle_c20(inputs, kind, val, env):
    if kind != "return":
        return []
    bad = []
    for path, exp in inputs["expect"].items():
        r = val[path]
        if r["error"] or "was not found" in r["out"]:
            bad.append(f"ls-renders({path}: {r['error'] or 'not found'})")
            continue
        kv = _kv(r["out"])
        for key, want in exp.items():
            got = kv.get(key)
            want = want if isinstance(want, list) else [want]
            if not want and got is None:
                continue
            if got is None or [str(x) for x in want] != got[:len(want)]:
                bad.append(f"states-the-stored-value({path}: {key} expected {want}, printed {got})")
    return bad


def _akai_expect(h, fname):
    pitch = h["pitch"] - 21
    e = {"file_name": fname, "sample_name": h["sample_name"], "sample_type": "S3000 Sample" if h["id"] == 3 else "S1000 Sample",
         "sample_rate": h["rate"] or 44100, "samples_cnt": h["count"], "start_sample": h["start"], "end_sample": h["end"],
         "pitch_semi": h["semi"], "loop_type": AKAI_LOOP_TYPES[h["loop_type"]],
         "note_pitch": f"{NOTE_NAMES[pitch % 12]}{pitch // 12}"}
    if h["loop_type"] != 2:
        act = [l for l in h.get("loops", []) if l["duration"] > 0]
        e["loop_end"] = [l["at"] for l in act]
        e["loop_duration"] = [l["duration"] for l in act]
    return e


def _small_c20(tier, seed, shard=(0, 1)):
    import random
    rnd = random.Random(7000 + seed)
    k = 0
    for _ in range(6 if tier == "quick" else 60):
        files, expect = [], {}
        for i in range(2):
            words = rnd.randint(50, 400)
            loops = [{"at": rnd.randint(20, 40), "fine": rnd.randint(0, 9), "coarse": rnd.randint(1, 15),
                      "duration": rnd.choice((0, rnd.randint(1, 9000), 9999))} for _ in range(rnd.randint(0, 3))]
            h = {"id": rnd.choice((1, 3)), "pitch": rnd.randint(21, 108), "sample_name": f"NM{rnd.randint(0, 999)}", "loop_type": rnd.randint(0, 3),
                 "cents": rnd.randint(-128, 127), "semi": rnd.randint(-50, 50), "count": words, "start": rnd.randint(0, 10),
                 "end": rnd.randint(11, words), "rate": rnd.choice((0, 11025, 22050, 44100, 48000, rnd.randint(1, 65535))), "loops": loops}
            f = {"name": f"FILE{i}", "type": 0xF3 if h["id"] == 3 else 0x73, "header": h, "pcm": {"seed": i, "words": words}}
            files.append(f)
            expect[f"A:/V/FILE{i}"] = _akai_expect(h, f"FILE{i}")
        k += 1
        if k % shard[1] == shard[0]:
            yield {"kind": "akai", "model": {"partitions": [{"volumes": [_vol("V", files)]}]}, "paths": list(expect), "expect": expect}
    for _ in range(3 if tier == "quick" else 30):
        mode, freq = rnd.randint(0, 6), rnd.randint(0, 5)
        pts = sorted(rnd.sample(range(0, 500), 5))
        fine = {n: rnd.randint(0, 255) for n in ("start", "sustain_start", "sustain_end", "release_start", "release_end")}
        s = _rsample("RS", 600, 9, mode=mode, freq=freq)
        s["points"] = {"start": pts[0], "sustain_start": pts[1], "sustain_end": pts[2], "release_start": pts[3], "release_end": pts[4]}
        s["fine"] = fine
        m = _base_roland()
        m["samples"][0] = s
        exp = {"V1/P1/RS": {"loop_mode": ROLAND_LOOP[mode], "sampling_frequency": ROLAND_RATE[freq],
                            "address": [pts[0], pts[1], pts[2], pts[3], pts[4]],
                            "fine": [fine["start"], fine["sustain_start"], fine["sustain_end"], fine["release_start"], fine["release_end"]]}}
        k += 1
        if k % shard[1] == shard[0]:
            yield {"kind": "roland", "model": m, "paths": list(exp), "expect": exp}
    k += 1
    if k % shard[1] == shard[0]:
        yield {"kind": "cdda", "paths": ["T0", "T1"],
               "expect": {"T0": {"num_channels": 2, "sample_rate": 44100, "num_audio_samples": 588 * 2},
                          # the last track runs to the end of the 7-sector (+6 bytes) bin: (7 - 2) whole sectors
                          "T1": {"num_channels": 2, "sample_rate": 44100, "num_audio_samples": 588 * 5}}}


@contract("e2e:C20", props=["C20"], abstract=True)
def _c20(c):
    pass


CONCRETE["e2e:C20"] = {
    "build": _build_c20, "small": _small_c20, "oracle": _oracle_c20, "shards": 4,
    "nontrivial": lambda i, s: s["kind"] == "return",
    "bound": "6/60 AKAI images with two samples each whose header fields all carry their own random in-range values (names, type, rate incl. 0, "
             "count, start/end, semitone, loop mode, active loops' end point and duration), 3/30 Roland samples (mode, frequency code, the five "
             "loop points' coarse and fine parts), one CDDA image; printed `key: value` lines compared with the model",
    "timeout_s": 60.0, "budget_quick": 120, "budget_thorough": 900,
}


# ================================================================================== C04 every export is a well-formed RIFF/WAVE
def _build_c04(inputs):
    L = _lib()

    def run():
        files = []
        for i, hv in enumerate(inputs["headers"]):
            f = _sample(f"S{i:03d}", hv.get("words", 40), 500 + i, loops=hv.get("loops"),
                        extra={k: hv[k] for k in ("pitch", "semi", "cents", "loop_type", "rate") if k in hv})
            files.append(f)
        if inputs.get("stereo"):
            files += [_sample("ST -L", 33, 1), _sample("ST -R", 35, 2)]
        for q, (a, b) in enumerate(inputs.get("pairs", [])):
            files += [_sample(f"PAIR{q} -L", a, 1), _sample(f"PAIR{q} -R", b, 2)]
        if inputs.get("stereo") == "very-unequal":
            # halves that differ by far more than one transcoder block; and a pair with one empty half
            files += [_sample("BIG -L", 10000, 3), _sample("BIG -R", 100, 4), _sample("NIL -L", 50, 5), _sample("NIL -R", 50, 6, start=20, end=20)]
        model = expand_akai({"partitions": [{"volumes": [_vol("V", files)]}]})
        raw, layout = L.aw.build_akai_image_ex(model)
        if "cut_file" in inputs:
            # an incomplete dump: the image ends inside the body of file number cut_file (at cut_eighths/8 of its sectors, plus a few bytes)
            fl = layout["partitions"][0]["volumes"][0]["files"][inputs["cut_file"]]
            secs = sorted(fl["sectors"])
            at = secs[min(len(secs) - 1, len(secs) * inputs["cut_eighths"] // 8)]
            raw = raw[:L.aw.sector_offset(layout, 0, at) + inputs.get("cut_odd", 0)]
        with L.Workdir() as w:
            img = w.file("img.akai", raw)
            out = w.sub("out")
            if inputs.get("into_used_directory"):
                # the destination already holds LONGER files of the same names (an earlier export of another disc)
                big = expand_akai({"partitions": [{"volumes": [_vol("V", [_sample(f["name"], 900, 77) for f in files])]}]})
                L.do_export(w.file("big.akai", L.aw.build_akai_image(big)), out)
            stdout, err = L.do_export(img, out)
            return {"files": L.read_tree(out), "stdout": stdout, "error": type(err).__name__ if err else None}
    return {"call": run, "env": {}}


def _oracle_c04(inputs, kind, val, env):
    L = _lib()
    if kind != "return":
        return []
    bad = []
    reported = set(L.exported_lines(val["stdout"]))
    for path, data in val["files"].items():
        if path not in reported:
            continue          # a file the tool did not report (export aborted while writing it) is outside the statement
        info, probs = L.wav_info(data)
        if info is None or probs:
            bad.append(f"well-formed-riff-wave({path}: {probs[:3]})")
    if not reported and not val["error"] and "cut_file" not in inputs:
        bad.append("nothing-exported")          # harness sanity on complete images (an incomplete dump may legitimately yield nothing)
    return bad


def _small_c04(tier, seed, shard=(0, 1)):
    import random
    rnd = random.Random(9000 + seed)
    cases = []
    step = 4 if tier == "quick" else 1
    for dim, rng in (("pitch", range(0, 256, step)), ("semi", range(-128, 128, step)), ("cents", range(-128, 128, step))):
        vals = list(rng)
        for k in range(0, len(vals), 2):
            cases.append({"headers": [{dim: v} for v in vals[k:k + 2]]})
    corner = [0, 1, 2, 0x7FFFFFFF, 0xFFFFFFFF]
    for lt in (0, 1, 2, 3):
        hs = []
        for at in corner:
            for dur in (0, 1, 9998, 9999, 65535):
                hs.append({"loop_type": lt, "loops": [{"at": at, "fine": rnd.randint(0, 65535), "coarse": rnd.choice(corner), "duration": dur}] * rnd.randint(1, 8)})
        for k in range(0, len(hs), 12):
            cases.append({"headers": hs[k:k + 12], "stereo": k == 0})
    for _ in range(4 if tier == "quick" else 60):
        cases.append({"headers": [{"pitch": rnd.randint(0, 255), "semi": rnd.randint(-128, 127), "cents": rnd.randint(-128, 127),
                                   "rate": rnd.choice((0, 1, 8000, 44100, 65535)), "loop_type": rnd.randint(0, 3), "words": rnd.randint(0, 50),
                                   "loops": [{"at": rnd.randint(0, 60), "fine": 0, "coarse": rnd.randint(0, 60), "duration": rnd.choice((0, 5, 9999))}
                                             for _ in range(rnd.randint(0, 8))]} for _ in range(10)], "stereo": True})
    cases.append({"headers": [{"words": 10}, {"words": 0}, {"words": 33, "loops": [{"at": 5, "fine": 0, "coarse": 2, "duration": 9999}], "loop_type": 0}],
                  "stereo": True, "into_used_directory": True})
    cases.append({"headers": [{"words": 40}, {"words": 1}, {"words": 0}], "stereo": "very-unequal"})
    # files whose ENCODED length is an exact multiple of a power-of-two block (64 KiB, 4 KiB): 88 header bytes + 2 bytes per frame
    cases.append({"headers": [{"words": (65536 - 88) // 2}, {"words": (2 * 65536 - 88) // 2}, {"words": (65536 - 88) // 2 - 1}, {"words": (4096 - 88) // 2}, {"words": (8192 - 88) // 2}]})
    # L/R halves whose lengths differ by one frame / a few frames, either way round; an empty half
    cases.append({"headers": [{"words": 7}], "pairs": [(34, 33), (33, 34), (3001, 3000), (3000, 3001), (1, 2), (2, 1), (1, 0), (0, 1)]})
    cases.append({"headers": [{"words": 7}], "pairs": [(2048, 2049), (2049, 2048), (4097, 4096), (5000, 5003)]})
    # an incomplete dump: whatever IS reported as exported is still well-formed (cuts inside mono samples and inside either half of pairs)
    for cf in range(6):
        for e8 in ((1, 5) if tier == "quick" else range(8)):
            cases.append({"headers": [{"words": 9000}, {"words": 12500}], "pairs": [(13000, 13000), (9000, 9100)], "cut_file": cf, "cut_eighths": e8,
                          "cut_odd": (0, 1, 150, 4099)[(cf + e8) % 4]})
    for k, c in enumerate(cases):
        if k % shard[1] == shard[0]:
            yield c


@contract("e2e:C04", props=["C04"], abstract=True)
def _c04(c):
    pass


CONCRETE["e2e:C04"] = {
    "build": _build_c04, "small": _small_c04, "oracle": _oracle_c04, "shards": 8,
    "nontrivial": lambda i, s: s["kind"] == "return",
    "bound": "AKAI images whose samples sweep the root-key byte, the semitone byte and the cents byte (each over its whole range in the thorough "
             "tier, every 4th value quick), loop-table corner values (0, 1, 2, 2^31-1, 2^32-1; durations 0/1/9998/9999/65535; 1..8 entries) for "
             "each loop type, random headers, mono and L/R pairs of unequal length (differences of 1, 2, 3 frames and whole blocks, either way round, an empty "
             "half); the same over incomplete dumps cut inside each of 6 files (2 mono, 2 pairs) at 2/8 places; every reported file parsed by the independent RIFF parser",
    "timeout_s": 120.0, "budget_quick": 200, "budget_thorough": 1200,
}


# ================================================================================== C13 termination under corruption
def _build_c13(inputs):
    L = _lib()

    def run():
        kind = inputs["kind"]
        with L.Workdir() as w:
            if kind == "random":
                import random
                rnd = random.Random(inputs["seed"])
                p = w.file("junk.bin", bytes(rnd.randrange(256) for _ in range(inputs["size"])))
                paths = ["", "A:", "x/y"]
            elif kind == "akai":
                raw, lay = L.aw.build_akai_image_ex(expand_akai(_base_akai()))
                b = bytearray(raw)
                for (off, val, width) in inputs["patch"]:
                    b[off:off + width] = int(val).to_bytes(width, "little")
                for (vi, fi, off, val, width) in inputs.get("hdr_patch", []):
                    # a field of the 140-byte sample header at the start of file fi of volume vi (partition 0)
                    first = lay["partitions"][0]["volumes"][vi]["files"][fi]["sectors"][0]
                    o = L.aw.sector_offset(lay, 0, first) + off
                    b[o:o + width] = int(val).to_bytes(width, "little")
                if inputs.get("cut"):
                    del b[inputs["cut"]:]           # an incomplete dump
                p = w.file("img.akai", bytes(b))
                paths = ["", "A:", "A:/VOL A", "A:/VOL A/LONG", "B:/LAST/X1"]
            elif kind == "roland":
                raw, lay = L.rw.build_roland_image_ex(expand_roland(_base_roland()))
                b = bytearray(raw)
                for (off, val, width) in inputs["patch"]:
                    b[off:off + width] = int(val).to_bytes(width, "little")
                for (off, n, word) in inputs.get("fill", []):
                    b[off:off + 2 * n] = int(word).to_bytes(2, "little") * n         # a whole table region overwritten with one word
                p = w.file("img.s7xx", bytes(b))
                paths = ["", "V1", "V1/P1", "V1/P1/S0", "_Orphan_perf"]
            else:
                d = w.sub("cd")
                with open(os.path.join(d, "img.bin"), "wb") as f:
                    f.write(bytes(2352 * 6 + 3))
                p = os.path.join(d, "img.cue")
                with open(p, "w") as f:
                    f.write(inputs["cue"])
                paths = ["", "T1", "zzz"]
            outcomes = []
            for path in paths:
                o, e = L.do_ls(p, path)
                outcomes.append(type(e).__name__ if e else "ok")
            out = w.sub("out")
            o, e = L.do_export(p, out)
            outcomes.append(type(e).__name__ if e else "ok")
            tree = L.read_tree(out)
            src = os.path.dirname(p) if kind == "cdda" else None
            image_size = sum(os.path.getsize(os.path.join(src, f)) for f in os.listdir(src)) if src else os.path.getsize(p)
            return {"outcomes": outcomes, "image_size": image_size, "files": len(tree), "written": sum(len(v) for v in tree.values()),
                    "largest": max([len(v) for v in tree.values()] or [0])}
    return {"call": run, "env": {}}


def _oracle_c13(inputs, kind, val, env):
    # "within ... memory proportional to the size of the image": no single written file is larger than what the image can hold twice over
    # (an L/R pair pads its shorter half to the longer: at most 2 x the data of one sample <= 2 x the image) plus the RIFF overhead
    if kind != "return":
        return []
    if val["largest"] > 2 * val["image_size"] + 4096:
        return [f"output-proportional-to-the-image(largest file {val['largest']} bytes from an image of {val['image_size']} bytes)"]
    return []


def _small_c13(tier, seed, shard=(0, 1)):
    import random
    rnd = random.Random(12000 + seed)
    cases = []
    for size in (0, 1, 100, 8192, 24574, 100000):
        for s in range(2 if tier == "quick" else 10):
            cases.append({"kind": "random", "size": size, "seed": s + size})
    # AKAI: SAT words of partition 0 (sectors 0..40) set to every special value and to in-range links
    SAT0 = 1802
    specials = [0x0000, 0x4000, 0x8000, 0xC000]
    used = list(range(0, 26)) + [31]
    for s in used:
        vals = specials + [s, 3, max(0, s - 1), s + 1, 9, 20, 22, 11385, 11386, 0xFFFF]
        if tier == "quick":
            vals = rnd.sample(vals, 4)
        for v in vals:
            cases.append({"kind": "akai", "patch": [[SAT0 + 2 * s, v, 2]]})
    # header size, volume entry type/start
    for off, width in ((0, 2), (202 + 12, 2), (202 + 14, 2), (202 + 16 + 14, 2)):
        for v in (0, 1, 3, 0x7FFF, 0xFFFF, 5, 9):
            cases.append({"kind": "akai", "patch": [[off, v, width]]})
    for _ in range(20 if tier == "quick" else 300):
        cases.append({"kind": "akai", "patch": [[rnd.randrange(0, 26 * 8192), rnd.randrange(256), 1] for _ in range(rnd.randint(1, 5))]})
    # Roland: FAT words of the used clusters, counts, directory entries, parameter pointers
    FAT = 0x80800
    for c in (0, 1, 2, 3, 4, 5, 6, 0xFFF0, 0xFFFE, 0xFFFF):
        for v in ([0, 1, 0xFFF7, 0xFFF8, 0xFFFF, c, 3, 5, 2] if tier != "quick" else rnd.sample([0, 1, 0xFFF7, 0xFFF8, c, 3, 5, 2], 3)):
            cases.append({"kind": "roland", "patch": [[FAT + 2 * c, v, 2]]})
    for off in (276, 278, 280, 282, 284):
        for v in (0, 1, 0x7FFF, 0xFFFF):
            cases.append({"kind": "roland", "patch": [[off, v, 2]]})
    # sample loop points of both samples (S0 forward, S1 reverse oneshot): start / sustain / release addresses moved before, onto and behind one another
    for prm in (0x255800, 0x255830):
        for fld in (16, 20, 24, 28, 32):
            for v in ((0, 58, 59, 60, 171, 255) if tier != "quick" else (0, 60, 171)):
                cases.append({"kind": "roland", "patch": [[prm + fld + 1, v, 1]]})
    # the FAT body (entries 2..) overwritten with ONE word: every entry links into the same ring / the same cluster
    for word in (0x0505, 0xE5E5, 0x0002, 0xFFF7):
        cases.append({"kind": "roland", "patch": [], "fill": [[FAT + 4, 0xFFF0, word]]})
    areas = [0xa0800, 0xa1800, 0xa5800, 0xad800, 0xcd800, 0x10d800, 0x115800, 0x155800, 0x1d5800, 0x255800]
    for _ in range(20 if tier == "quick" else 300):
        cases.append({"kind": "roland", "patch": [[rnd.choice(areas) + rnd.randrange(0, 0x80), rnd.randrange(256), 1] for _ in range(rnd.randint(1, 4))]})
    # cue sheets: corrupted lines
    base = ['FILE "img.bin" BINARY', '  TRACK 01 AUDIO', '    TITLE "T1"', '    INDEX 01 00:00:00', '  TRACK 02 AUDIO', '    INDEX 01 00:00:02']
    junk = ["", "TRACK", "TRACK 99", "INDEX 01 99:99:99", "INDEX 01 00:00", 'FILE "img.bin" BINARY', "TRACK 03 MODE1/2352", "\t", 'TITLE "', "INDEX 00 00:00:05",
            "TRACK 02 " + "AUDIO" * 12 + "_", "INDEX 01 " + "9" * 40 + ":00:00"]
    for _ in range(25 if tier == "quick" else 300):
        lines = list(base)
        for _k in range(rnd.randint(1, 3)):
            op = rnd.choice(("del", "ins", "rep"))
            i = rnd.randrange(len(lines)) if lines else 0
            if op == "del" and lines:
                del lines[i]
            elif op == "ins":
                lines.insert(i, rnd.choice(junk))
            elif lines:
                lines[i] = rnd.choice(junk)
        cases.append({"kind": "cdda", "cue": "\n".join(lines) + "\n"})
    # declared lengths that disagree with the data: sample windows (count / start / end) of a fragmented and of a short sample ...
    for (fi, name) in ((2, "LONG"), (0, "KICK")):
        for off in (26, 30, 34):
            for v in ((0, 1, 8989, 8991, 0x7FFFFFFF, 0xFFFFFFFF) if tier != "quick" else rnd.sample((0, 1, 8991, 0x7FFFFFFF, 0xFFFFFFFF), 3)):
                cases.append({"kind": "akai", "patch": [], "hdr_patch": [[0, fi, off, v, 4]]})
        cases.append({"kind": "akai", "patch": [], "hdr_patch": [[0, fi, 30, 5000, 4], [0, fi, 34, 10, 4]]})          # end before start
    # ... incomplete dumps (cut inside directories, headers, sample data, mid-sector) ...
    for cut in ([100, 8192 + 700, 3 * 8192 + 150, 9 * 8192 + 1000, 20 * 8192 + 77, 21 * 8192, 22 * 8192 + 8191] if tier == "quick"
                else [100, 4000] + [s * 8192 + d for s in range(1, 26) for d in (0, 150, 1000, 8191)]):
        cases.append({"kind": "akai", "patch": [], "cut": cut})
    # ... and cue sheets whose INDEX times run backwards, repeat, or lie far behind the end of the bin
    for idx in (("00:00:04", "00:00:02"), ("00:00:02", "00:00:02"), ("00:00:00", "9000:00:00"), ("9000:00:00", "00:00:01"), ("00:00:05", "00:00:00"),
                ("99:59:74", "99:59:74")):
        cases.append({"kind": "cdda", "cue": "\n".join(['FILE "img.bin" BINARY', '  TRACK 01 AUDIO', '    TITLE "T1"', f'    INDEX 01 {idx[0]}', '  TRACK 02 AUDIO',
                                                          f'    INDEX 01 {idx[1]}', '  TRACK 03 AUDIO', '    INDEX 01 00:00:03']) + "\n"})
    for k, c in enumerate(cases):
        if k % shard[1] == shard[0]:
            yield c


@contract("e2e:C13", props=["C13"], abstract=True)
def _c13(c):
    pass


CONCRETE["e2e:C13"] = {
    "build": _build_c13, "small": _small_c13, "oracle": _oracle_c13, "shards": 8,
    "nontrivial": lambda i, s: s["kind"] == "return",
    "bound": "ls at 3..5 levels and export, each under a 20 s CPU alarm and a 6 GiB address-space limit, on: random byte files of 6 sizes; an AKAI "
             "image with each SAT word of the used region set to every special value and to in-range / out-of-range links, header and volume-entry "
             "fields, random byte damage; a Roland image with FAT words, counts, directory and parameter bytes damaged, every loop-point address of a forward and a reverse sample moved before / onto / behind the others; cue sheets with "
             "deleted / inserted / replaced lines incl. pathological tokens; sample windows (count / start / end) that disagree with the data, "
             "incomplete dumps cut at 7 / 100 places, INDEX times that run backwards or lie far behind the bin; no written file larger than twice the image",
    "timeout_s": 20.0, "budget_quick": 280, "budget_thorough": 1500,
}



# ================================================================================== C14 (Roland half): a damaged sample record
def _roland_c14_model():
    return {"fat_version": 1, "disk_name": "D",
            "volumes": [{"name": "V", "performances": [0]}],
            "performances": [{"name": "P", "patches": [0]}],
            "patches": [{"name": "PA", "partials": [0, 1]}],
            "partials": [{"name": "PT0", "samples": [0, 1, 2, -1]}, {"name": "PT1", "samples": [3]}],
            "samples": [_rsample(f"SM{i}", 80 + i, 40 + i, mode=i % 3, freq=i % 6) for i in range(4)]}


def _build_c14r(inputs):
    L = _lib()

    def run():
        raw, lay = L.rw.build_roland_image_ex(expand_roland(_roland_c14_model()))
        res = {}
        with L.Workdir() as w:
            for tag in ("base", "damaged"):
                b = bytearray(raw)
                if tag == "damaged":
                    ent = lay["samples"][inputs["sample"]]
                    base_off = ent["dir_offset"] if inputs["area"] == "dir" else ent["param_offset"]
                    for (k, v) in inputs["damage"]:
                        b[base_off + k] = v
                p = w.file(tag + ".img", bytes(b))
                out = w.sub("out_" + tag)
                stdout, err = L.do_export(p, out)
                lsv, lerr = L.do_ls(p, "V/P")
                res[tag] = {"files": L.read_tree(out), "error": type(err).__name__ if err else None,
                            "names": L.ls_table_names(lsv), "ls_error": type(lerr).__name__ if lerr else None}
        return res
    return {"call": run, "env": {}}


def _oracle_c14r(inputs, kind, val, env):
    if kind != "return":
        return []
    bad = []
    base, dmg = val["base"], val["damaged"]
    if base["error"] or len([f for f in base["files"] if f.endswith(".wav")]) != 4:
        return [f"reference-run-failed({base['error']}, {sorted(base['files'])})"]
    if dmg["error"]:
        bad.append(f"export-raised({dmg['error']})")
    for j in range(4):
        if j == inputs["sample"]:
            continue
        n = f"SM{j}"
        path = f"V/P/{n}.wav"
        if n not in dmg["names"]:
            bad.append(f"other-item-still-listed-under-its-name({n!r}; listed {dmg['names']})")
        if dmg["files"].get(path) != base["files"].get(path):
            bad.append(f"other-item-exported-unchanged({path}: {'missing' if path not in dmg['files'] else 'differs'})")
    return bad


def _small_c14r(tier, seed, shard=(0, 1)):
    import random
    rnd = random.Random(13000 + seed)
    cases = []
    for smp in range(4):
        for area, size in (("dir", 32), ("param", 48)):
            offs = range(size) if tier != "quick" else sorted(set(list(range(0, size, 5)) + ([0, 15, 16, 36, 40, 42, 44, 45] if area == "param" else [0, 15, 16, 26, 27, 28, 29, 30, 31])))
            for off in offs:
                if off >= size:
                    continue
                for v in ((0x00, 0x01, 0x20, 0x41, 0x7F, 0x80, 0xFF, 0x06, 0x16) if tier != "quick" else (0x00, 0x01, 0x80, 0xFF, 0x1F)):
                    cases.append({"sample": smp, "area": area, "damage": [[off, v]]})
            for _ in range(3 if tier == "quick" else 30):
                cases.append({"sample": smp, "area": area, "damage": [[rnd.randrange(size), rnd.randrange(256)] for _ in range(rnd.randint(2, 5))]})
    for k, c in enumerate(cases):
        if k % shard[1] == shard[0]:
            yield c


@contract("e2e:C14-roland", props=["C14"], abstract=True)
def _c14r(c):
    pass


CONCRETE["e2e:C14-roland"] = {
    "build": _build_c14r, "small": _small_c14r, "oracle": _oracle_c14r, "shards": 8,
    "nontrivial": lambda i, s: s["kind"] == "return",
    "bound": "a Roland performance with 4 samples (a partial using three slots + a partial using one); for each sample: bytes of its "
             "32-byte directory entry and 48-byte parameter record set to 5 (quick: every 5th offset + the option/name/pointer/first-cluster bytes, boundary values 0 and 1 included) / 9 values "
             "(thorough: every offset), plus random multi-byte damage confined to the record",
    "timeout_s": 120.0, "budget_quick": 400, "budget_thorough": 2200,
}


# ================================================================================== C11 / C16: repeated chain look-ups on one table object
def _build_lookup(inputs):
    def run():
        import io
        from smpl_extract.util.fat import SectorLink
        from smpl_extract.roland.s7xx.fat import RolandFileAllocationTable
        from smpl_extract.akai.sat import SegmentAllocationTable
        n = inputs["n"]
        data = bytes((7 * i + 1) % 251 for i in range(n * 16))

        def table(cls):
            links = [SectorLink(next=nx, end=e) for (nx, e) in inputs["links"]]
            return cls(io.BytesIO(data), n, links)

        def one(t, q, size):
            try:
                if q[0] == "file":
                    s = t.get_file(q[1], q[2])
                else:
                    s = t.get_segment(q[1])
                s.sector_length = size       # tiny sectors so that the whole chain is read
                s.end_of_file = size * len(s.sector_list)
                return list(s.sector_list), list(s.read(size * len(s.sector_list)))
            except Exception as e:  # noqa
                return type(e).__name__
        cls = RolandFileAllocationTable if inputs["queries"][0][0] == "file" else SegmentAllocationTable
        shared = table(cls)
        streams_first = []
        got = []
        for q in inputs["queries"]:
            got.append(one(shared, q, 16))
        fresh = [one(table(cls), q, 16) for q in inputs["queries"]]
        return {"shared": got, "fresh": fresh}
    return {"call": run, "env": {}}


def _oracle_lookup(inputs, kind, val, env):
    if kind != "return":
        return ["oracle.no-exception-expected"]
    return [] if val["shared"] == val["fresh"] else [f"oracle.lookup-independent-of-earlier-lookups(shared={val['shared']}, fresh={val['fresh']})"]


def _small_lookup(tier, seed, shard=(0, 1)):
    import itertools
    links = [[1, False], [2, False], [3, False], [0, True], [5, False], [3, False]]   # 0->1->2->3(end); 4->5->3
    qs = [["file", 0, 0], ["file", 0, 1], ["file", 0, 2], ["file", 4, 1], ["file", 1, 1]]
    qa = [["seg", 0], ["seg", 4], ["seg", 2]]
    k = 0
    for pool in (qs, qa):
        for nq in (2, 3):
            for seq in itertools.product(pool, repeat=nq):
                k += 1
                if k % shard[1] == shard[0]:
                    yield {"n": 6, "links": links, "queries": [list(q) for q in seq]}


@contract("bounded:chain_lookup_history", props=["C11", "C16"], abstract=True)
def _bl(c):
    pass


CONCRETE["bounded:chain_lookup_history"] = {
    "build": _build_lookup, "small": _small_lookup, "oracle": _oracle_lookup, "shards": 2,
    "bound": "every sequence of 2 and 3 chain look-ups (get_file with cluster offsets 0..2 / get_segment) on ONE table object versus a fresh "
             "table per look-up; the resolved sector list and the bytes read through it are compared",
    "timeout_s": 10.0,
}


# ================================================================================== C20 (AKAI programs, keygroup chains, velocity zones)
def _build_c20p(inputs):
    L = _lib()
    import importlib
    import random

    def run():
        pw = importlib.import_module("akai_program_writer")
        ns = L.load_helpers("selftest_akai_program.py", {"make_program", "make_header", "make_zone", "make_keygroup", "NOTE_BYTES_C_TO_GSHARP",
                                                          "Picker", "HEADER_RANGES", "KEYGROUP_RANGES", "ZONE_RANGES", "FMT_RANGE"})

        class st:      # noqa
            make_program = staticmethod(ns["make_program"])
        rng = random.Random(inputs["seed"])
        progs = []
        files = [_sample(n, 10, k + 1) for k, n in enumerate(["SMP A", "SMP B", "SMP C", "SMP D"])]
        expanded = expand_akai({"partitions": [{"volumes": [_vol("PV", files)]}]})
        for k, (slots, zones) in enumerate(inputs["programs"]):
            extra = {}
            if inputs.get("decoys"):
                used = set(slots)
                extra["decoy_slots"] = {s: bytes(rng.randrange(256) for _ in range(150)) for s in range(max(slots) + 1) if s not in used}
            prog = st.make_program(inputs["seed"] * 10 + k, f"PRG {k}", slots, zones, **extra)
            progs.append((f"PRG {k}", prog))
            expanded["partitions"][0]["volumes"][0]["files"].append({"name": f"PRG {k}", "type": inputs.get("ptype", 0xF0),
                                                                     "data": pw.program_body_bytes(prog)})
        raw = L.aw.build_akai_image(expanded)
        out = []
        with L.Workdir() as w:
            img = w.file("img.akai", raw)
            if inputs.get("reuse"):
                # one opened image object; every program listed once before the listings that are judged
                img = L.open_with_history(img, ["ls"] + [f"ls:A:/PV/{n}" for n, _ in progs] + ["export"], w)
            for name, prog in progs:
                o, e = L.do_ls(img, f"A:/PV/{name}")
                if e is not None:
                    out.append({"name": name, "error": type(e).__name__})
                    continue
                parsed = pw.parse_ls_output(o)
                exp = pw.expected_listing(prog, name, inputs.get("ptype", 0xF0))
                diff = pw.compare_listing(exp, parsed["tree"])
                if any(None in z for (_sl, zs) in [inputs["programs"][int(name.split()[-1])]] for z in zs):
                    # zone slots with gaps: the per-zone ARRAYS outside the zone blocks (key tracking, aux out, sample-start velocity) are
                    # paired with the listed zones by position - which of the two pairings is "stored order" the statement does not say
                    # (it names sample name and velocity range for zones); they are left out of the comparison here
                    diff = [d for d in diff if not any(a in d for a in ("enable_key_tracking", "aux_out_offset", "velocity_to_sample_start"))]
                out.append({"name": name, "truncated": bool(parsed.get("truncated")), "diff": diff[:6],
                            "not_found": "was not found" in o})
        return out
    return {"call": run, "env": {}}


def _oracle_c20p(inputs, kind, val, env):
    if kind != "return":
        return []
    bad = []
    for r in val:
        if r.get("error") or r.get("not_found"):
            bad.append(f"program-is-listed({r['name']}: {r.get('error') or 'not found'})")
        elif not r["truncated"] and r["diff"]:
            bad.append(f"states-the-stored-value({r['name']}: {r['diff'][:3]})")
    return bad


def _small_c20p(tier, seed, shard=(0, 1)):
    import itertools
    import random
    rnd = random.Random(15000 + seed)
    names = ["SMP A", "SMP B", "SMP C", "SMP D"]
    cases = []
    # every order of three keygroups over slots 0..2 and over slots with gaps (backward links, decoys)
    for perm in itertools.permutations([0, 1, 2]):
        cases.append({"programs": [[list(perm), [[names[0]], [names[1], names[2]], []]]], "decoys": False})
    for perm in itertools.permutations([0, 2, 4]):
        cases.append({"programs": [[list(perm), [[names[3]], [], [names[0], names[1], names[2], names[3]]]]], "decoys": True})
    cases.append({"programs": [[[0], [[names[0]]]], [[2], [[names[1], names[2]]]], [[1, 0], [[], [names[3]]]]], "decoys": True})
    cases.append({"programs": [[[1, 0, 2], [[names[0]], [names[1]], [names[2]]]]], "decoys": False, "ptype": 0x70})
    # zone slots that are not filled front to back
    cases.append({"programs": [[[0, 1], [[names[0], None, names[1], None], [None, names[2]]]]], "decoys": False})
    cases.append({"programs": [[[0], [[None, None, None, names[3]]]]], "decoys": True})
    for _ in range(4 if tier == "quick" else 60):
        nk = rnd.randint(1, 3)
        slots = rnd.sample(range(0, 5), nk)
        zones = [rnd.sample(names, rnd.randint(0, 3)) for _ in range(nk)]
        cases.append({"programs": [[slots, zones]], "decoys": rnd.random() < 0.7})
    for k, c in enumerate(cases):
        c["seed"] = 100 + k
        if k % shard[1] == shard[0]:
            yield c
            if k % 3 == 0:
                yield dict(c, reuse=True)


@contract("e2e:C20-programs", props=["C20"], abstract=True)
def _c20p(c):
    pass


CONCRETE["e2e:C20-programs"] = {
    "build": _build_c20p, "small": _small_c20p, "oracle": _oracle_c20p, "shards": 4,
    "nontrivial": lambda i, s: s["kind"] == "return",
    "bound": "AKAI programs written by the independent program writer: every order of three keygroups over slots {0,1,2} and {0,2,4} (backward "
             "next-keygroup addresses, decoy blocks in unused slots), 0..4 active velocity zones, S1000 and S3000 program types, 4/60 random programs; "
             "every header field, the keygroup count, every keygroup field in chain order and every non-empty zone compared with `ls`; "
             "a third of the cases again on ONE opened image object after an earlier listing of every program and an export",
    "timeout_s": 120.0, "budget_quick": 200, "budget_thorough": 1200,
}


# ================================================================================== C11 at image level: sample streams of ONE opened image, interleaved
# The streams of a two-partition AKAI image (two volumes in the first partition, fragmented chains) are obtained through the public
# tree - directories are realised lazily, in the order the schedule first touches them - and then read in interleaved blocks.  Each
# stream must deliver exactly the sample's PCM window, whatever was listed, opened or read in between.
def _build_img_inter(inputs):
    L = _lib()

    def run():
        with L.Workdir() as w:
            if inputs.get("kind", "akai") == "akai":
                raw = L.aw.build_akai_image(expand_akai(_base_akai(inputs.get("k", 0))))
                if inputs.get("container") == "2352":
                    raw = L.aw.wrap_2352(raw)          # the same image as MODE1/2352 raw sectors: sector streams nested in a sector stream
                p = w.file("img.akai", raw)
            elif inputs["kind"] == "roland":
                p = w.file("img.s7xx", L.rw.build_roland_image(expand_roland(_c15x_model())))
            else:
                tracks = [{"number": i + 1, "mode": "AUDIO", "title": f"T{i}", "indices": [(1, 0, 0, 3 * i)]} for i in range(3)]
                p = L.cw.write_bin_cue(w.sub("cd"), L.pcm_words(61, 2352 * 9 // 2 + 8)[:2352 * 9 + 10], L.cw.build_cue(tracks))
            image = L.open_image(p)
            image.set_routines({"make_safe_names": image.make_safe_names_routine, "make_export_names": image.make_export_names_routine})
            streams, got = {}, {}
            for step in inputs["schedule"]:
                op, path = step[0], step[1]
                if op == "ls":
                    image.parse_path(path).get_info().to_string()
                    continue
                if path not in streams:
                    s = image.parse_path(path).to_generalized().data_streams[0].stream
                    s.seek(0, 0)
                    streams[path] = s
                    got[path] = b""
                if op == "read":
                    got[path] += bytes(streams[path].read(step[2]))
                elif op == "seek":          # re-position to where this stream's own reading stands (a no-op for an isolated reader)
                    streams[path].seek(len(got[path]), 0)
            # drain what is left, round robin in small blocks
            live = list(streams)
            while live:
                for path in list(live):
                    b = bytes(streams[path].read(inputs.get("drain_block", 1500)))
                    got[path] += b
                    if not b:
                        live.remove(path)
            return {"got": {k: v.hex() for k, v in got.items()}}
    return {"call": run, "env": {}}


def _oracle_img_inter(inputs, kind, val, env):
    L = _lib()
    if kind != "return":
        return ["oracle.no-exception-expected"]
    want = {}
    if inputs.get("kind", "akai") == "akai":
        model = expand_akai(_base_akai(inputs.get("k", 0)))
        for rel, (pcm, _rate) in L.akai_expected_mono(model).items():
            part, vol, name = rel[:-4].split("/")
            want[f"{part}:/{vol}/{name}"] = pcm
    elif inputs["kind"] == "roland":
        for rel, (pcm, _rate) in roland_expected(expand_roland(_c15x_model())).items():
            want[rel[:-4]] = pcm
    else:
        binb = L.pcm_words(61, 2352 * 9 // 2 + 8)[:2352 * 9 + 10]
        want = {"T0": binb[:2352 * 3], "T1": binb[2352 * 3:2352 * 6], "T2": binb[2352 * 6:]}          # (the VIEW runs to the end of the bin; trimming to whole frames is the transcoder's job)
    bad = []
    for path, hx in val["got"].items():
        if bytes.fromhex(hx) != want[path]:
            g = bytes.fromhex(hx)
            first = next((i for i, (a, b) in enumerate(zip(g, want[path])) if a != b), min(len(g), len(want[path])))
            bad.append(f"oracle.stream-delivers-its-own-sample({path}: {len(g)} bytes, expected {len(want[path])}, first difference at {first})")
    return bad


def _small_img_inter(tier, seed, shard=(0, 1)):
    import itertools
    import random
    rnd = random.Random(12000 + seed)
    paths = ["A:/VOL A/KICK", "A:/VOL A/SNARE", "A:/VOL A/LONG", "A:/VOL B/HAT", "B:/LAST/X1", "B:/LAST/X2"]
    cases = []
    # every ordered pair of streams from different directories, alternating blocks; a listing of a third directory in between
    for a, b in itertools.permutations(paths, 2):
        if a.rsplit("/", 1)[0] == b.rsplit("/", 1)[0] and tier == "quick":
            continue
        other = next(p for p in ("B:/LAST", "A:/VOL B", "A:/VOL A") if not a.startswith(p) and not b.startswith(p))
        cases.append([["read", a, 700], ["read", b, 700], ["ls", other], ["read", a, 8192], ["read", b, 3], ["seek", a], ["read", a, 5000], ["ls", "B:"],
                      ["read", b, 9000], ["ls", ""], ["read", a, 1]])
    for _ in range(10 if tier == "quick" else 200):
        sched = []
        for _ in range(rnd.randint(4, 14)):
            r = rnd.random()
            if r < 0.2:
                sched.append(["ls", rnd.choice(["", "A:", "B:", "A:/VOL A", "A:/VOL B", "B:/LAST"] + paths)])
            elif r < 0.3:
                sched.append(["seek", rnd.choice(paths)])
            else:
                sched.append(["read", rnd.choice(paths), rnd.choice((1, 2, 100, 4096, 8191, 8192, 8193, 20000))])
        cases.append(sched)
    for k, c in enumerate(cases):
        if k % shard[1] == shard[0]:
            yield {"schedule": c, "k": k % 3, "drain_block": (1500, 4096, 8192)[k % 3], **({"container": "2352"} if k % 2 else {})}
    # the same on a Roland image (samples in interleaved clusters, one time-reversed, one behind a leading cluster, one reached through an orphaned
    # performance) and on a bin/cue image (three track windows over one bin handle); reversed views are read in whole 16-bit words
    for kind, ps, lists in (("roland", ["V/P/S0", "V/P/S1", "V/P/S2", "_Orphan_perf/ORPH/S3"], ["", "V", "V/P", "_Orphan_perf"]),
                            ("cdda", ["T0", "T1", "T2"], [""])):
        extra = []
        for a, b in itertools.permutations(ps, 2):
            extra.append([["read", a, 700], ["read", b, 700], ["ls", lists[-1]], ["read", a, 9216], ["read", b, 4], ["seek", a], ["read", a, 5000], ["ls", lists[0]],
                          ["read", b, 9000], ["read", a, 2]])
        for _ in range(6 if tier == "quick" else 100):
            sched = []
            for _j in range(rnd.randint(4, 12)):
                r = rnd.random()
                if r < 0.2:
                    sched.append(["ls", rnd.choice(lists + ps)])
                elif r < 0.3:
                    sched.append(["seek", rnd.choice(ps)])
                else:
                    sched.append(["read", rnd.choice(ps), rnd.choice((2, 100, 4096, 9216, 9218, 20000))])
            extra.append(sched)
        for k, c in enumerate(extra):
            if k % shard[1] == shard[0]:
                yield {"schedule": c, "kind": kind, "drain_block": (1500, 4096, 9216)[k % 3]}


@contract("bounded:image_stream_interleavings", props=["C11"], abstract=True)
def _bisi(c):
    pass


CONCRETE["bounded:image_stream_interleavings"] = {
    "build": _build_img_inter, "small": _small_img_inter, "oracle": _oracle_img_inter, "shards": 4,
    "nontrivial": lambda i, s: s["kind"] == "return",
    "bound": "a two-partition AKAI image (three directories, six samples, fragmented chains), plain and as MODE1/2352 raw sectors: every ordered pair of sample streams from different directories "
             "(thorough: every ordered pair) read in alternating blocks with listings of other directories in between, directories realised lazily in schedule order; "
             "10 / 200 random schedules of reads (1..20000 bytes), re-seeks and listings over all six streams; every stream compared with its sample's PCM window; the same on a Roland image (4 sample streams, one reversed) and a bin/cue image (3 track windows)",
    "timeout_s": 60.0, "budget_quick": 120, "budget_thorough": 900,
}


# ================================================================================== C15 for Roland and CDDA images
# The same statement on the other two image kinds: the image file (for CDDA: the bin file; the cue sheet is intact) is cut at cluster /
# sector boundaries and at interior offsets - inside the ID area, the FAT, the directory and parameter areas, the sample data.
def _c15x_model():
    # samples stored in out-of-order and interleaved clusters, one in a reverse mode, one with a leading cluster to skip
    return {"fat_version": 1, "disk_name": "D",
            "volumes": [{"name": "V", "performances": [0]}],
            "performances": [{"name": "P", "patches": [0]}, {"name": "ORPH", "patches": [1]}],
            "patches": [{"name": "PA", "partials": [0]}, {"name": "PB", "partials": [1]}],
            "partials": [{"name": "PT0", "samples": [0, 1, 2, -1]}, {"name": "PT1", "samples": [3]}],
            "samples": [_rsample("S0", 2 * WPC + 100, 51, clusters=[6, 4, 5]), _rsample("S1", WPC - 7, 52, clusters=[3]),
                        _rsample("S2", WPC + 50, 53, mode=5, clusters=[8, 7]), _rsample("S3", WPC, 54, clusters=[10, 9], top=1)]}


def _build_c15x(inputs):
    L = _lib()

    def run():
        with L.Workdir() as w:
            if inputs["kind"] == "roland":
                raw, lay = L.rw.build_roland_image_ex(expand_roland(_c15x_model()))
                full = w.file("full.s7xx", raw)
                d = w.sub("cutdir")
                cut_path = os.path.join(d, "cut.s7xx")
                with open(cut_path, "wb") as f:
                    f.write(raw[:inputs["cut"]])
                layout = {"samples": [{"need": max(o + lay["cluster_size"] for o in s["cluster_offsets"])} for s in lay["samples"]], "data_start": lay["data_area_offset"]}
            else:
                n = inputs.get("tracks", 3)
                tracks = [{"number": i + 1, "mode": "AUDIO", "title": f"T{i}", "indices": [(1, 0, 0, 3 * i)]} for i in range(n)]
                binb = L.pcm_words(61, 2352 * 3 * n // 2 + 8)[:2352 * 3 * n + 10]
                full = L.cw.write_bin_cue(w.sub("full"), binb, L.cw.build_cue(tracks))
                cut_path = L.cw.write_bin_cue(w.sub("cutdir"), binb[:inputs["cut"]], L.cw.build_cue(tracks))
                layout = {"tracks": [{"path": f"T{i}.wav", "end": 2352 * 3 * (i + 1) if i < n - 1 else len(binb)} for i in range(n)]}
            out_full, out = w.sub("out_full"), w.sub("out_cut")
            L.do_export(full, out_full)
            stdout, err = L.do_export(cut_path, out)
            return {"full": L.read_tree(out_full), "cut": L.read_tree(out), "reported": L.exported_lines(stdout),
                    "error": type(err).__name__ if err else None, "layout": layout}
    return {"call": run, "env": {}}


def _oracle_c15x(inputs, kind, val, env):
    L = _lib()
    if kind != "return":
        return []
    bad = []
    cut = inputs["cut"]
    for path, data in val["cut"].items():
        if path not in val["reported"] and (path[:-4] if path.endswith(".wav") else path) not in [r[:-4] if r.endswith(".wav") else r for r in val["reported"]]:
            continue          # a file the tool did not report (aborted while writing it) is outside the statement
        info, probs = L.wav_info(data)
        if info is None or probs:
            bad.append(f"reported-file-is-well-formed({path}: {probs[:2]})")
            continue
        ref = val["full"].get(path)
        if ref is None:
            bad.append(f"same-path-as-the-complete-image({path})")
            continue
        rinfo, _ = L.wav_info(ref)
        if inputs["kind"] == "roland" and path.endswith("/S2.wav"):
            # a time-REVERSED sample reads its window from the end: what is missing behind the cut is its BEGINNING; the statement's "prefix"
            # is judged for it as: nothing but bytes of the complete export (it is a contiguous piece of it), never garbage
            if info["data"] not in rinfo["data"]:
                bad.append(f"pcm-is-a-piece-of-the-complete-export({path}: {len(info['data'])} bytes)")
        elif not rinfo["data"].startswith(info["data"]):
            bad.append(f"pcm-is-a-prefix-of-the-complete-export({path}: {len(info['data'])} of {len(rinfo['data'])} bytes)")
    lay = val["layout"]
    if inputs["kind"] == "roland":
        groups = {0: ["V/P/S0.wav", "_Orphan_perf/ORPH/S3.wav"][:1], 1: ["V/P/S1.wav"], 2: ["V/P/S2.wav"], 3: ["_Orphan_perf/ORPH/S3.wav"]}
        for si, paths in groups.items():
            if lay["samples"][si]["need"] <= cut:
                for path in paths:
                    if val["cut"].get(path) != val["full"].get(path):
                        bad.append(f"complete-when-everything-lies-before-the-cut({path}: needs {lay['samples'][si]['need']} <= cut {cut}; "
                                   f"{'missing' if path not in val['cut'] else 'differs'}; export error={val['error']})")
    else:
        for t in lay["tracks"]:
            if t["end"] <= cut and val["cut"].get(t["path"]) != val["full"].get(t["path"]):
                bad.append(f"complete-when-everything-lies-before-the-cut({t['path']}: ends at {t['end']} <= cut {cut}; "
                           f"{'missing' if t['path'] not in val['cut'] else 'differs'}; export error={val['error']})")
    return bad


def _small_c15x(tier, seed, shard=(0, 1)):
    import random
    rnd = random.Random(16000 + seed)
    cases = []
    DATA = 0x2b1000          # address of virtual cluster 0 of the Roland data area; clusters are 9216 bytes
    for c in range(2, 13):
        for d in ((0, 1, 5000) if tier == "quick" else (0, 1, 2, 4607, 4608, 5000, 9215)):
            cases.append({"kind": "roland", "cut": DATA + c * 9216 + d})
    for area in (0, 100, 0x800, 0x80800, 0x80900, 0xa0800, 0xa0820, 0xa1800, 0xa5800, 0xad800, 0xcd800, 0xcd820, 0x10d800, 0x115800, 0x155800, 0x1d5800, 0x255800, 0x255830, 0x2b0000):
        cases.append({"kind": "roland", "cut": area + (rnd.randrange(0, 40) if area else 0)})
    for _ in range(6 if tier == "quick" else 80):
        cases.append({"kind": "roland", "cut": rnd.randrange(DATA, DATA + 13 * 9216)})
    for n in (1, 3):
        total = 2352 * 3 * n + 10
        cuts = sorted({0, 1, 3, 4, 2351, 2352, 2353, 2352 * 3 - 1, 2352 * 3, 2352 * 3 + 2, total - 11, total - 10, total - 1} | {rnd.randrange(total) for _ in range(4 if tier == "quick" else 40)})
        for c in cuts:
            if 0 <= c <= total:
                cases.append({"kind": "cdda", "tracks": n, "cut": c})
    for k, c in enumerate(cases):
        if k % shard[1] == shard[0]:
            yield c


@contract("e2e:C15-roland-cdda", props=["C15"], abstract=True)
def _c15x(c):
    pass


CONCRETE["e2e:C15-roland-cdda"] = {
    "build": _build_c15x, "small": _small_c15x, "oracle": _oracle_c15x, "shards": 6,
    "nontrivial": lambda i, s: s["kind"] == "return",
    "bound": "a Roland image (4 samples in out-of-order / interleaved clusters, one reverse mode, one with a leading cluster, one orphaned performance) cut at every "
             "cluster boundary of the data area (+0, +1, +5000; thorough: 7 offsets), inside each of 19 header / table areas and at 6/80 random data offsets; bin/cue "
             "images of 1 and 3 tracks with the bin cut at 13 boundary positions and 4/40 random ones; every reported file: well-formed, same path, PCM a prefix "
             "(reverse-mode sample: a contiguous piece) of the complete export; complete when all its clusters / its whole track lie before the cut",
    "timeout_s": 60.0, "budget_quick": 200, "budget_thorough": 1200,
}
