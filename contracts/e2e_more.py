"""End-to-end bounded monitors: C09 (containers), C14 (damaged entry), C15 (truncated image),
C16 (history independence), C20 (ls shows stored values)."""
import os

from pyvc.contract import contract
from contracts.e2e import _lib, expand_akai, expand_roland, _sample, _vol, _rsample, WPC

CONCRETE = {}


def _base_akai(k=0):
    """A small two-partition AKAI model with fragmented chains (names need no sanitising)."""
    return {"partitions": [
        {"volumes": [_vol("VOL A", [_sample("KICK", 50 + k, 3 + k), _sample("SNARE", 4026, 4, typ=0x73, sectors=[9]),
                                    _sample("LONG", 9000, 5, sectors=[22, 20, 21], start=3, end=8990)], dir_mode="reserved"),
                     _vol("VOL B", [_sample("HAT", 10, 6, rate=22050)], typ=1)]},
        {"volumes": [_vol("LAST", [_sample("X1", 5000, 7, sectors=[6, 5]), _sample("X2", 20, 8)], dir_sectors=[31])]}]}


def _base_roland():
    return {"fat_version": 1, "disk_name": "D",
            "volumes": [{"name": "V1", "performances": [0]}],
            "performances": [{"name": "P1", "patches": [0]}, {"name": "ORPH", "patches": [0]}],
            "patches": [{"name": "PA1", "partials": [0]}],
            "partials": [{"name": "PT1", "samples": [0, 1]}],
            "samples": [_rsample("S0", WPC + 10, 1, clusters=[5, 3]), _rsample("S1", 60, 2, mode=5, freq=3)]}


def _walk_ls(L, image, max_nodes=40):
    """ls at every level reachable through printed names (breadth first)."""
    out = {}
    todo = [""]
    while todo and len(out) < max_nodes:
        p = todo.pop(0)
        o, e = L.do_ls(image, p)
        out[p] = (o, type(e).__name__ if e else None)
        if e is None and "Item" in o.splitlines()[0:1][0] if o.splitlines() else False:
            for nm in L.ls_table_names(o):
                if nm.strip():
                    todo.append((p + "/" if p else "") + nm)
    return out


# ================================================================================== C09 containers
def _build_c09(inputs):
    L = _lib()

    def run():
        if inputs["kind"] == "akai":
            raw = L.aw.build_akai_image(expand_akai(inputs["model"]))
        else:
            raw = L.rw.build_roland_image(expand_roland(inputs["model"]))
        raw = raw + bytes(inputs.get("pad", 0))
        res = {}
        with L.Workdir() as w:
            paths = {}
            paths["raw"] = w.file("raw.img", raw)
            paths["2352"] = w.file("sect.img", L.aw.wrap_2352(raw))
            paths["mdx"] = w.file("img.mdx", L.aw.wrap_mdx(raw))
            d1 = w.sub("cue_raw")
            with open(os.path.join(d1, "data.bin"), "wb") as f:
                f.write(raw)
            with open(os.path.join(d1, "img.cue"), "w") as f:
                f.write('FILE "data.bin" BINARY\n  TRACK 01 MODE1/2048\n    INDEX 01 00:00:00\n')
            paths["cue->raw"] = os.path.join(d1, "img.cue")
            d2 = w.sub("cue_2352")
            with open(os.path.join(d2, "data.bin"), "wb") as f:
                f.write(L.aw.wrap_2352(raw))
            with open(os.path.join(d2, "img.cue"), "w") as f:
                f.write('FILE "data.bin" BINARY\n  TRACK 01 MODE1/2352\n    INDEX 01 00:00:00\n')
            paths["cue->2352"] = os.path.join(d2, "img.cue")
            for name, p in paths.items():
                out = w.sub("out_" + name.replace(">", "").replace("-", "_"))
                stdout, err = L.do_export(p, out)
                res[name] = {"files": L.read_tree(out), "stdout": stdout, "error": type(err).__name__ if err else None,
                             "ls": _walk_ls(L, p), "type": type(L.open_image(p)).__name__}
        return res
    return {"call": run, "env": {}}


def _oracle_c09(inputs, kind, val, env):
    if kind != "return":
        return []
    bad = []
    ref = val["raw"]
    if ref["error"] or not ref["files"]:
        bad.append(f"reference-export-failed({ref['error']})")
    for name, r in val.items():
        if name == "raw":
            continue
        if r["type"] != ref["type"]:
            bad.append(f"recognised-as-the-same-kind({name}: {r['type']} vs {ref['type']})")
        if r["error"] != ref["error"] or r["files"] != ref["files"]:
            diff = sorted(set(r["files"]) ^ set(ref["files"]))[:3] or [k for k in ref["files"] if r["files"].get(k) != ref["files"][k]][:3]
            bad.append(f"byte-identical-exports({name}: error={r['error']}, differs at {diff})")
        if r["ls"] != ref["ls"]:
            d = [k for k in ref["ls"] if r["ls"].get(k) != ref["ls"][k]][:3]
            bad.append(f"same-ls-output-at-every-level({name}: {d})")
        if r["stdout"] != ref["stdout"]:
            bad.append(f"same-export-report({name})")
    return bad


def _small_c09(tier, seed, shard=(0, 1)):
    cases = [{"kind": "akai", "model": _base_akai()}, {"kind": "roland", "model": _base_roland()},
             {"kind": "akai", "model": {"partitions": [{"volumes": [_vol("V", [_sample("ONE", 4026, 1)])]}]}, "pad": 0}]
    if tier != "quick":
        cases += [{"kind": "akai", "model": _base_akai(k), "pad": p} for k, p in ((1, 100), (2, 2048), (3, 1))]
        m = _base_roland()
        m["samples"][0] = _rsample("S0", 3 * WPC, 5, clusters=[9, 8, 7])
        cases.append({"kind": "roland", "model": m})
    for k, c in enumerate(cases):
        if k % shard[1] == shard[0]:
            yield c


@contract("e2e:C09", props=["C09"], abstract=True)
def _c09(c):
    pass


CONCRETE["e2e:C09"] = {
    "build": _build_c09, "small": _small_c09, "oracle": _oracle_c09, "shards": 3,
    "nontrivial": lambda i, s: s["kind"] == "return",
    "bound": "3 (quick) / 8 (thorough) generated AKAI and Roland images x {raw, MODE1/2352, MDX, cue->raw, cue->2352}; image sizes that are "
             "and are not multiples of 2048; ls compared at every level reachable through printed names; exports compared byte for byte",
    "timeout_s": 120.0, "budget_quick": 200, "budget_thorough": 900,
}


# ================================================================================== C14 damaged directory entry
def _build_c14(inputs):
    L = _lib()

    def run():
        model = expand_akai(inputs["model"])
        raw, layout = L.aw.build_akai_image_ex(model)
        res = {}
        with L.Workdir() as w:
            for tag, data in (("base", raw), ("damaged", None)):
                if data is None:
                    b = bytearray(raw)
                    offs = L.aw.entry_byte_offsets(layout, 0, 0, inputs["entry"])
                    for (k, v) in inputs["damage"]:
                        b[offs[k]] = v
                    data = bytes(b)
                p = w.file(tag + ".img", data)
                out = w.sub("out_" + tag)
                stdout, err = L.do_export(p, out)
                lsv, lerr = L.do_ls(p, "A:/VOL")
                res[tag] = {"files": L.read_tree(out), "error": type(err).__name__ if err else None,
                            "names": L.ls_table_names(lsv), "ls_error": type(lerr).__name__ if lerr else None}
        return res
    return {"call": run, "env": {}}


def _oracle_c14(inputs, kind, val, env):
    if kind != "return":
        return []
    bad = []
    names = [f["name"] for f in inputs["model"]["partitions"][0]["volumes"][0]["files"]]
    i = inputs["entry"]
    base, dmg = val["base"], val["damaged"]
    if base["error"] or len(base["files"]) != len(names):
        return [f"reference-run-failed({base['error']}, {sorted(base['files'])})"]
    if dmg["error"]:
        bad.append(f"export-raised({dmg['error']})")
    for j, n in enumerate(names):
        if j == i:
            continue
        path = f"A/VOL/{n}.wav"
        if n not in dmg["names"]:
            bad.append(f"other-item-still-listed-under-its-name({n!r}; listed {dmg['names']})")
        if dmg["files"].get(path) != base["files"].get(path):
            bad.append(f"other-item-exported-unchanged({path}: {'missing' if path not in dmg['files'] else 'differs'})")
    return bad


def _small_c14(tier, seed, shard=(0, 1)):
    import random
    names = ["AB", "AC", "AD"]
    model = {"partitions": [{"volumes": [_vol("VOL", [_sample(n, 30 + k, 50 + k) for k, n in enumerate(names)])]}]}
    cases = []
    for entry in range(3):
        # type byte (offset 16): every value
        vals = range(256) if tier != "quick" else list(range(0, 256, 7)) + [0x73, 0xF3, 0xF0, 0x70, 0x00, 0xFF]
        for v in vals:
            cases.append((entry, [(16, v)]))
        # name bytes (0..11), size bytes (17..19), start (20..21), padding
        rnd = random.Random(5000 + seed + entry)
        for off in list(range(0, 12)) + [12, 15, 17, 18, 19, 20, 21, 22, 23]:
            for v in ([0, 10, 11, 40, 41, 0x47, 0xD7, 0xFF] if tier == "quick" else [0, 9, 10, 11, 12, 36, 37, 40, 41, 0x47, 0x80, 0xD7, 0xFE, 0xFF]):
                cases.append((entry, [(off, v)]))
        for _ in range(10 if tier == "quick" else 100):
            cases.append((entry, [(rnd.randrange(24), rnd.randrange(256)) for _ in range(rnd.randint(2, 6))]))
    k = 0
    for entry, dmg in cases:
        # excluded by the format: bytes 8..9 == 47 D7 is the end-of-table marker (a truncation, not damage to one entry)
        d = dict(dmg)
        if d.get(8) == 0x47 or d.get(9) == 0xD7:
            continue
        k += 1
        if k % shard[1] == shard[0]:
            yield {"model": model, "entry": entry, "damage": [list(x) for x in dmg]}


@contract("e2e:C14", props=["C14"], abstract=True)
def _c14(c):
    pass


CONCRETE["e2e:C14"] = {
    "build": _build_c14, "small": _small_c14, "oracle": _oracle_c14, "shards": 8,
    "nontrivial": lambda i, s: s["kind"] == "return",
    "bound": "a 3-file AKAI volume; for each entry: the type byte set to every value (quick: 43 values), each name/size/start/padding byte set "
             "to 8 (quick) / 14 values, 10/100 random multi-byte damages confined to the entry; excluded: damage that writes the end-of-table marker",
    "timeout_s": 60.0, "budget_quick": 250, "budget_thorough": 1500,
}


# ================================================================================== C15 truncated image
def _build_c15(inputs):
    L = _lib()

    def run():
        model = expand_akai(inputs["model"])
        raw, layout = L.aw.build_akai_image_ex(model)
        cut = inputs["cut"]
        with L.Workdir() as w:
            full = w.file("full.img", raw)
            out_full = w.sub("out_full")
            L.do_export(full, out_full)
            p = w.file("cut.img", raw[:cut])
            out = w.sub("out_cut")
            stdout, err = L.do_export(p, out)
            return {"full": L.read_tree(out_full), "cut": L.read_tree(out), "stdout": stdout,
                    "error": type(err).__name__ if err else None, "layout": layout}
    return {"call": run, "env": {}}


def _oracle_c15(inputs, kind, val, env):
    L = _lib()
    if kind != "return":
        return []
    bad = []
    cut = inputs["cut"]
    lay = val["layout"]
    for path, data in val["cut"].items():
        info, probs = L.wav_info(data)
        if info is None or probs:
            bad.append(f"reported-file-is-well-formed({path}: {probs[:2]})")
            continue
        ref = val["full"].get(path)
        if ref is None:
            bad.append(f"same-path-as-the-complete-image({path})")
            continue
        rinfo, _ = L.wav_info(ref)
        if not rinfo["data"].startswith(info["data"]):
            bad.append(f"pcm-is-a-prefix-of-the-complete-export({path}: {len(info['data'])} bytes)")
    # files lying entirely before the cut must be exported complete
    S = 8192
    for pi, p in enumerate(lay["partitions"]):
        base = p["offset"]
        for vi, v in enumerate(p["volumes"]):
            vmodel = inputs["model"]["partitions"][pi]["volumes"][vi]
            dir_end = max(base + (s + 1) * S for s in v["dir_sectors"])
            for fi, f in enumerate(v["files"]):
                fm = vmodel["files"][fi]
                if fm["type"] not in (0xF3, 0x73):
                    continue
                if fm["name"].endswith(("-L", "-R", " L", " R")):
                    continue      # halves of a stereo pair have no path of their own (judged by the prefix clause)
                need = max([base + 3 * S, dir_end] + [base + (s + 1) * S for s in f["sectors"]])
                path = f"{chr(65 + pi)}/{vmodel['name']}/{fm['name']}.wav"
                if need <= cut and val["cut"].get(path) != val["full"].get(path):
                    bad.append(f"complete-when-everything-lies-before-the-cut({path}: needs {need} <= cut {cut}; "
                               f"{'missing' if path not in val['cut'] else 'differs'}; export error={val['error']})")
    return bad


def _small_c15(tier, seed, shard=(0, 1)):
    import random
    # the directory lists S3 (whose header sits in a late sector) before S1 (early sectors); directory placed after some data
    model = {"partitions": [{"size_sectors": 128, "volumes": [
        _vol("VOL", [_sample("S3", 3000, 3, sectors=[12]), _sample("S1", 6000, 1, sectors=[4, 5]), _sample("S2", 100, 2, sectors=[8])],
             dir_sectors=[3])]}]}
    model2 = {"partitions": [{"size_sectors": 128, "volumes": [
        _vol("VOL", [_sample("A -L", 5000, 4, sectors=[10, 11]), _sample("A -R", 5000, 5, sectors=[6, 7]), _sample("B", 10, 6, sectors=[5])],
             dir_sectors=[9])]}]}
    cuts = []
    for s in range(3, 15):
        cuts += [s * 8192, s * 8192 + 1, s * 8192 + 139, s * 8192 + 140, s * 8192 + 141]
    rnd = random.Random(6000 + seed)
    cuts += [rnd.randrange(3 * 8192, 14 * 8192) for _ in range(10 if tier == "quick" else 120)]
    if tier == "quick":
        cuts = cuts[::2]
    k = 0
    for m in (model, model2):
        for c in cuts:
            k += 1
            if k % shard[1] == shard[0]:
                yield {"model": m, "cut": c}


@contract("e2e:C15", props=["C15"], abstract=True)
def _c15(c):
    pass


CONCRETE["e2e:C15"] = {
    "build": _build_c15, "small": _small_c15, "oracle": _oracle_c15, "shards": 8,
    "nontrivial": lambda i, s: s["kind"] == "return",
    "bound": "two AKAI images (directory after some of the data; a file listed first whose sectors come last; a stereo pair) cut at every "
             "sector boundary, 1 byte after it and around the 140-byte header end for sectors 3..14, plus 10/120 random interior offsets",
    "timeout_s": 60.0, "budget_quick": 250, "budget_thorough": 1500,
}
