"""End-to-end bounded monitors (DESIGN 2.8 kind 3) for the `construct` glue no contract reaches.
Each entry evaluates the *property statement itself* on images written by the independent writers
in /verif/bounded.  BOUNDED: stated scope, never counted as proved."""
import os
import sys

from pyvc.contract import contract

HERE = os.path.dirname(os.path.dirname(os.path.abspath(__file__)))
CONCRETE = {}


def _lib():
    p = os.path.join(HERE, "bounded")
    if p not in sys.path:
        sys.path.insert(0, p)
    import e2e_lib
    return e2e_lib


def expand_akai(model):
    """Compact model (pcm given as {"seed", "words"}) -> writer model."""
    L = _lib()
    out = {"partitions": []}
    for p in model["partitions"]:
        np_ = {k: v for k, v in p.items() if k != "volumes"}
        np_["volumes"] = []
        for v in p["volumes"]:
            nv = {k: x for k, x in v.items() if k != "files"}
            nv["files"] = []
            for f in v["files"]:
                nf = dict(f)
                if isinstance(f.get("pcm"), dict):
                    nf["pcm"] = L.pcm_words(f["pcm"]["seed"], f["pcm"]["words"])
                elif isinstance(f.get("pcm"), list):
                    nf["pcm"] = bytes(f["pcm"])
                if isinstance(f.get("data"), list):
                    nf["data"] = bytes(f["data"])
                nv["files"].append(nf)
            np_["volumes"].append(nv)
        out["partitions"].append(np_)
    return out


# ================================================================================== C01 / C04 (AKAI export)
def _build_c01(inputs):
    L = _lib()

    def run():
        model = expand_akai(inputs["model"])
        raw = L.aw.build_akai_image(model)
        with L.Workdir() as w:
            img = w.file("img.akai", raw)
            out = w.sub("out")
            if inputs.get("other_first"):
                # another image exported earlier IN THE SAME PROCESS (state shared between image objects would show)
                other = w.file("other.akai", L.aw.build_akai_image(expand_akai(inputs["other_first"])))
                L.do_export(other, w.sub("_other"))
            src = L.open_with_history(img, inputs["history"], w) if inputs.get("history") else img
            stdout, err = L.do_export(src, out)
            return {"files": L.read_tree(out), "stdout": stdout, "error": type(err).__name__ if err else None,
                    "error_text": repr(err)[:300] if err else None, "model": model}
    return {"call": run, "env": {}}


def _oracle_c01(inputs, kind, val, env):
    L = _lib()
    if kind != "return":
        return []
    bad = []
    if val["error"]:
        return [f"export-raised({val['error']}: {val['error_text']})"]
    files = val["files"]
    exp = inputs.get("expect_stereo")
    expected = L.akai_expected_mono(val["model"]) if not exp else None
    if expected is not None:
        if set(files) != set(expected):
            bad.append(f"exactly-one-wav-per-sample(missing={sorted(set(expected) - set(files))[:3]},extra={sorted(set(files) - set(expected))[:3]})")
        for path, (pcm, rate) in expected.items():
            if path not in files:
                continue
            info, probs = L.wav_info(files[path])
            if info is None or probs:
                bad.append(f"well-formed-wav({path}:{probs[:2]})")
                continue
            if info["data"] != pcm:
                bad.append(f"pcm-byte-identical({path}: expected {len(pcm)} bytes, got {len(info['data'])}, "
                           f"first-diff={next((i for i, (a, b) in enumerate(zip(info['data'], pcm)) if a != b), None)})")
            if info["fmt"]["sample_rate"] != rate or info["fmt"]["channels"] != 1:
                bad.append(f"rate-and-channels({path}: {info['fmt']['sample_rate']} Hz x{info['fmt']['channels']}, expected {rate} x1)")
    else:
        for path, spec in exp.items():
            if path not in files:
                bad.append(f"stereo-pair-file-missing({path}; have {sorted(files)[:4]})")
                continue
            info, probs = L.wav_info(files[path])
            if info is None or probs:
                bad.append(f"well-formed-wav({path}:{probs[:2]})")
                continue
            lpcm = L.pcm_words(spec["L"]["seed"], spec["L"]["words"])
            rpcm = L.pcm_words(spec["R"]["seed"], spec["R"]["words"])
            want = b"".join(lpcm[2 * i:2 * i + 2] + rpcm[2 * i:2 * i + 2] for i in range(min(spec["L"]["words"], spec["R"]["words"])))
            if info["fmt"]["channels"] != 2 or info["data"][:len(want)] != want:
                bad.append(f"left-in-channel-0-right-in-channel-1({path})")
        if set(files) != set(exp) | set(inputs.get("expect_also", [])):
            bad.append(f"exactly-the-expected-files(got={sorted(files)})")
    n_lines = len(L.exported_lines(val["stdout"]))
    if n_lines != len(files):
        bad.append(f"one-Exported-line-per-file(lines={n_lines},files={len(files)})")
    return bad


def _sample(name, words, seed, start=None, end=None, rate=44100, typ=0xF3, sectors=None, loops=None, extra=None):
    h = {"id": 3 if typ == 0xF3 else 1, "pitch": 60, "sample_name": name, "loop_type": 2, "cents": 0, "semi": 0,
         "count": words, "start": 0 if start is None else start, "end": words if end is None else end, "rate": rate}
    if loops:
        h["loops"] = loops
        h["loop_type"] = 0
    if extra:
        h.update(extra)
    f = {"name": name, "type": typ, "header": h, "pcm": {"seed": seed, "words": words}}
    if sectors:
        f["sectors"] = sectors
    return f


def _vol(name, files, typ=3, dir_mode="chain", dir_sectors=None):
    v = {"name": name, "type": typ, "dir_mode": dir_mode, "files": files}
    if dir_sectors:
        v["dir_sectors"] = dir_sectors
    return v


def _small_c01(tier, seed, shard=(0, 1)):
    import itertools
    import random
    cases = []
    # every ordering of a 3-sector chain, head not lowest included; lengths that fill the last sector exactly
    for perm in itertools.permutations([10, 11, 12]):
        cases.append({"partitions": [{"volumes": [_vol("VOL", [_sample("S1", 2 * 4096 + 3956, 1, sectors=list(perm))])]}]})
    # chains whose first and last sectors look like the ends of one unbroken run while the inner sectors are out of order
    for chain in ([40, 42, 41, 43], [80, 84, 82, 81, 83, 85], [30, 32, 31, 33, 34]):
        cases.append({"partitions": [{"volumes": [_vol("VOL", [_sample("S1", (len(chain) - 1) * 4096 + 3000, sum(chain), sectors=chain)])]}]})
    for perm in itertools.permutations([20, 7]):
        cases.append({"partitions": [{"volumes": [_vol("VOL", [_sample("S1", 8122, 2, sectors=list(perm))])]}]})
    for words in (1, 100, 4026, 4027, 8122):
        for (s, e) in ((0, words), (1, words), (0, words - 1), (words // 2, words), (words, words), (0, 0)):
            if s <= e:
                cases.append({"partitions": [{"volumes": [_vol("V1", [_sample("A", words, words, s, e, rate=(0 if words == 100 else 22050))])]}]})
    # several partitions / volumes / files, both directory modes, both sample types, a program file in between
    cases.append({"partitions": [
        {"volumes": [_vol("VOL A", [_sample("KICK", 50, 3), _sample("SNARE", 4026, 4, typ=0x73, sectors=[9])], dir_mode="reserved"),
                     _vol("VOL B", [_sample("HAT", 10, 5, sectors=[40, 12, 33][:1])], typ=1)]},
        {"volumes": [_vol("LAST", [_sample("X1", 5000, 6, sectors=[6, 5]), {"name": "PROG", "type": 0xF0, "data": [0] * 200},
                                   _sample("X2", 20, 7)], dir_sectors=[31])]}]})
    # names with a period INSIDE (the AKAI character set has one): the name is kept whole, `.wav` is appended, not substituted
    cases.append({"partitions": [{"volumes": [_vol("V.1", [_sample("SNARE.2", 30, 41), _sample("TOM 1.5", 31, 42), _sample("TOM 1.75", 32, 43), _sample("A.B.C", 9, 44)])]}]})
    rnd = random.Random(1000 + seed)
    n_random = 12 if tier == "quick" else 150
    for _ in range(n_random):
        parts = []
        for pi in range(rnd.choice((1, 1, 2))):
            vols = []
            used = set()
            for vi in range(rnd.choice((1, 2))):
                files = []
                for fi in range(rnd.choice((1, 2, 3))):
                    words = rnd.choice((1, 100, 4026, 4027, 8122, rnd.randint(2, 9000)))
                    need = (140 + 2 * words + 8191) // 8192
                    pool = [s for s in range(5, 60) if s not in used]
                    secs = rnd.sample(pool, need)
                    used |= set(secs)
                    s = rnd.choice((0, 0, 1, words // 2))
                    e = rnd.choice((words, words, max(s, words - 1)))
                    files.append(_sample(f"S{vi}{fi}", words, rnd.randint(1, 10 ** 6), s, e, rate=rnd.choice((0, 22050, 44100, 48000)),
                                         typ=rnd.choice((0xF3, 0x73)), sectors=secs))
                dsec = [s for s in range(60, 70) if s not in used][:1]
                used |= set(dsec)
                vols.append(_vol(f"VOL {vi}", files, typ=rnd.choice((1, 3)), dir_mode=rnd.choice(("chain", "reserved")),
                                 dir_sectors=dsec if rnd.random() < 0.5 else None))
            parts.append({"volumes": vols})
        cases.append({"partitions": parts})
    k = 0
    for m in cases:
        k += 1
        if k % shard[1] != shard[0]:
            continue
        yield {"model": m}
        # the same image after earlier actions on the same opened object, and after another image in the same process
        if k % 5 == 0 or len(m["partitions"]) > 1:
            yield {"model": m, "history": ["ls", "export"] if k % 2 else ["export", "ls:A:", "export"]}
            yield {"model": m, "other_first": cases[(k * 7) % len(cases)]}
    # left/right pairs: one stereo file per pair, L in channel 0 whatever the directory order
    if shard[0] == 0:
        # ... also when the two headers carry different rates, and when one half is much longer than the other
        files = [_sample("DIF -L", 300, 31, rate=44100), _sample("DIF -R", 300, 32, rate=22050)]
        yield {"model": {"partitions": [{"volumes": [_vol("V", files)]}]},
               "expect_stereo": {"A/V/DIF.wav": {"L": {"seed": 31, "words": 300}, "R": {"seed": 32, "words": 300}}}}
        files = [_sample("LNG -R", 100, 34), _sample("LNG -L", 10000, 33)]
        yield {"model": {"partitions": [{"volumes": [_vol("V", files)]}]},
               "expect_stereo": {"A/V/LNG.wav": {"L": {"seed": 33, "words": 10000}, "R": {"seed": 34, "words": 100}}}}
        for order in (("PAD -L", "PAD -R"), ("PAD -R", "PAD -L"), ("STR L", "STR R")):
            files = [_sample(order[0], 300, 11), _sample(order[1], 300, 12), _sample("SOLO", 7, 13)]
            stem = order[0][:3]
            lr = {"L": {"seed": 11 if order[0].endswith("L") else 12, "words": 300},
                  "R": {"seed": 12 if order[0].endswith("L") else 11, "words": 300}}
            yield {"model": {"partitions": [{"volumes": [_vol("V", files)]}]},
                   "expect_stereo": {f"A/V/{stem}.wav": lr}, "expect_also": ["A/V/SOLO.wav"]}


@contract("e2e:C01", props=["C01", "C04"], abstract=True)
def _c01(c):
    pass


CONCRETE["e2e:C01"] = {
    "build": _build_c01, "small": _small_c01, "oracle": _oracle_c01, "shards": 8,
    "nontrivial": lambda i, s: s["kind"] == "return",
    "bound": "AKAI images from the independent writer: every ordering of 2- and 3-sector chains, word counts {1,100,4026,4027,8122} x "
             "start/end {0,1,mid,n, empty window}, rates {0,22050,44100,48000}, S1000/S3000 type bytes, chain and reserved-run directories, "
             "1..2 partitions x 1..2 volumes x 1..3 files (12 random models quick / 150 thorough), three L/R pair cases",
    "timeout_s": 60.0, "budget_quick": 150, "budget_thorough": 900,
}


# ================================================================================== C02 (Roland export)
def expand_roland(model):
    L = _lib()
    m = {k: v for k, v in model.items() if k != "samples"}
    m["samples"] = []
    for s in model["samples"]:
        ns = dict(s)
        if isinstance(s.get("pcm"), dict):
            ns["pcm"] = L.pcm_words(s["pcm"]["seed"], s["pcm"]["words"])
        for k in ("raw_dir", "raw_param"):
            if isinstance(s.get(k), list):
                ns[k] = bytes(s[k])
        m["samples"].append(ns)
    return m


def roland_expected(model):
    """{relpath: (pcm, rate)} - every sample referenced performance -> patch -> partial -> sample, once per
    performance; performances referenced by no volume appear under `_Orphan_perf`."""
    L = _lib()
    out = {}
    referenced = set()
    groups = []
    for v in model["volumes"]:
        for pi in v["performances"]:
            if pi is not None and pi >= 0:
                referenced.add(pi)
                groups.append((v["name"], pi))
    for pi, p in enumerate(model["performances"]):
        if p is not None and pi not in referenced:
            groups.append(("_Orphan_perf", pi))
    for vname, pi in groups:
        perf = model["performances"][pi]
        seen = []
        for pa in perf["patches"]:
            if pa is None or pa < 0:
                continue
            for pt in model["patches"][pa]["partials"]:
                if pt is None or pt < 0:
                    continue
                for si in model["partials"][pt]["samples"]:
                    if si is not None and si >= 0 and si not in seen:
                        seen.append(si)
        for si in seen:
            s = model["samples"][si]
            out[f"{vname}/{perf['name']}/{s['name']}.wav"] = L.rw.expected_sample_export(s)
    return out


def _build_c02(inputs):
    L = _lib()

    def run():
        model = expand_roland(inputs["model"])
        raw = L.rw.build_roland_image(model)
        with L.Workdir() as w:
            img = w.file("img.s7xx", raw)
            out = w.sub("out")
            if inputs.get("history"):
                img = L.open_with_history(img, inputs["history"], w)
            stdout, err = L.do_export(img, out)
            return {"files": L.read_tree(out), "stdout": stdout, "error": type(err).__name__ if err else None,
                    "error_text": repr(err)[:300] if err else None, "model": model}
    return {"call": run, "env": {}}


def _oracle_c02(inputs, kind, val, env):
    L = _lib()
    if kind != "return":
        return []
    if val["error"]:
        return [f"export-raised({val['error']}: {val['error_text']})"]
    bad = []
    files = {k: v for k, v in val["files"].items()}
    expected = roland_expected(val["model"])
    wavs = {k: v for k, v in files.items() if k.endswith(".wav")}
    if set(wavs) != set(expected):
        bad.append(f"exactly-the-referenced-samples(missing={sorted(set(expected) - set(wavs))[:3]},extra={sorted(set(wavs) - set(expected))[:3]})")
    for path, (pcm, rate) in expected.items():
        if path not in wavs:
            continue
        info, probs = L.wav_info(wavs[path])
        if info is None or probs:
            bad.append(f"well-formed-wav({path}:{probs[:2]})")
            continue
        if info["data"] != pcm:
            bad.append(f"pcm-byte-identical({path}: expected {len(pcm)} bytes, got {len(info['data'])}, "
                       f"first-diff={next((i for i, (a, b) in enumerate(zip(info['data'], pcm)) if a != b), None)})")
        if info["fmt"]["sample_rate"] != rate or info["fmt"]["channels"] != 1:
            bad.append(f"rate-and-channels({path}: {info['fmt']['sample_rate']} x{info['fmt']['channels']}, expected {rate})")
    return bad


WPC = 0x2400 // 2     # words per cluster


def _rsample(name, words, seed, mode=0, freq=1, start=0, s_end=None, r_end=None, clusters=None, top=0):
    s_end = words - 1 if s_end is None else s_end
    r_end = s_end if r_end is None else r_end
    d = {"name": name, "loop_mode": mode, "freq_code": freq, "mode": 0, "original_key": 60,
         "points": {"start": start, "sustain_start": start, "sustain_end": s_end, "release_start": start, "release_end": r_end},
         "pcm": {"seed": seed, "words": words}, "cluster_top": top}
    if clusters:
        d["clusters"] = clusters
    return d


def _small_c02(tier, seed, shard=(0, 1)):
    import itertools
    import random
    cases = []
    # all 7 loop modes x window ending at / one word before a cluster end, permuted 3-cluster chain
    for mode in range(7):
        words = 2 * WPC + 100
        cases.append({"fat_version": 1 + mode % 2, "disk_name": "D",
                      "volumes": [{"name": "VOL", "performances": [0]}],
                      "performances": [{"name": "PERF", "patches": [0]}],
                      "patches": [{"name": "PATCH", "partials": [0]}],
                      "partials": [{"name": "PART", "samples": [0, 1, -1, -1]}],
                      "samples": [_rsample("SA", words, 10 + mode, mode=mode, freq=mode % 6, start=5, s_end=WPC - 1, r_end=2 * WPC - 1,
                                           clusters=[42, 40, 41]),
                                  _rsample("SB", WPC, 20 + mode, mode=mode, freq=(mode + 3) % 6, start=0, s_end=WPC - 2, r_end=WPC - 1)]})
    # every permutation of a 3-cluster chain, cluster_top 0/1
    for perm in itertools.permutations([30, 31, 32]):
        for top in (0, 1):
            words = (3 - top) * WPC - 7
            cases.append({"fat_version": 1, "disk_name": "D",
                          "volumes": [{"name": "V", "performances": [0]}],
                          "performances": [{"name": "P", "patches": [0]}],
                          "patches": [{"name": "PA", "partials": [0]}],
                          "partials": [{"name": "PT", "samples": [0]}],
                          "samples": [_rsample("S", words, sum(perm) + top, clusters=list(perm), top=top)]})
    # partial slots that are not filled front to back
    for slots in ([0, -1, 1, -1], [-1, -1, -1, 2], [-1, 0, -1, 2]):
        cases.append({"fat_version": 1, "disk_name": "D",
                      "volumes": [{"name": "V", "performances": [0]}],
                      "performances": [{"name": "P", "patches": [0]}],
                      "patches": [{"name": "PA", "partials": [0]}],
                      "partials": [{"name": "PT", "samples": slots}],
                      "samples": [_rsample(f"G{i}", 50 + i, 70 + i) for i in range(3)]})
    # shared and orphaned entries
    cases.append({"fat_version": 2, "disk_name": "D",
                  "volumes": [{"name": "V1", "performances": [0, 1]}, {"name": "V2", "performances": [1]}],
                  "performances": [{"name": "P1", "patches": [0]}, {"name": "P2", "patches": [1]}, {"name": "ORPHAN", "patches": [0]}],
                  "patches": [{"name": "PA1", "partials": [0, 1]}, {"name": "PA2", "partials": [1]}],
                  "partials": [{"name": "PT1", "samples": [0, 1]}, {"name": "PT2", "samples": [1, 2]}],
                  "samples": [_rsample("S0", 50, 1), _rsample("S1", 60, 2, mode=5), _rsample("S2", 70, 3, mode=1, r_end=40),
                              _rsample("UNUSED", 20, 4)]})
    # directories with holes: an orphaned / a referenced performance in a slot at or beyond the ID area's performance count
    for perfs, vrefs in (([{"name": "P1", "patches": [0]}, None, {"name": "ORPHAN", "patches": [1]}], [0]),
                         ([None, None, None, {"name": "HIGH", "patches": [0]}, None, {"name": "ORPHAN", "patches": [1]}], [3]),
                         ([{"name": "P1", "patches": [0]}] + [None] * 299 + [{"name": "FAR", "patches": [1]}], [0])):
        cases.append({"fat_version": 1, "disk_name": "D",
                      "volumes": [{"name": "V1", "performances": vrefs}],
                      "performances": perfs,
                      "patches": [{"name": "PA1", "partials": [0]}, {"name": "PA2", "partials": [1]}],
                      "partials": [{"name": "PT1", "samples": [0]}, {"name": "PT2", "samples": [1]}],
                      "samples": [_rsample("S0", 50, 1), _rsample("S1", 60, 2)]})
    # the same sample reached through two patches of one performance
    cases.append({"fat_version": 1, "disk_name": "D",
                  "volumes": [{"name": "V", "performances": [0]}],
                  "performances": [{"name": "P", "patches": [0, 1]}],
                  "patches": [{"name": "PA0", "partials": [0]}, {"name": "PA1", "partials": [0]}],
                  "partials": [{"name": "PT0", "samples": [0]}],
                  "samples": [_rsample("S", 100, 9)]})
    rnd = random.Random(2000 + seed)
    for _ in range(6 if tier == "quick" else 80):
        ns = rnd.randint(1, 4)
        samples, used = [], set()
        for i in range(ns):
            ncl = rnd.randint(1, 3)
            top = rnd.choice((0, 0, 1))
            pool = [c for c in range(2, 40) if c not in used]
            cl = rnd.sample(pool, ncl + top)
            used |= set(cl)
            words = rnd.choice((ncl * WPC, ncl * WPC - 1, rnd.randint((ncl - 1) * WPC + 1, ncl * WPC)))
            start = rnd.choice((0, 1, words // 3))
            s_end = rnd.randint(start, words - 1)
            r_end = rnd.randint(s_end, words - 1)
            samples.append(_rsample(f"SMP{i}", words, rnd.randint(1, 10 ** 6), mode=rnd.randint(0, 6), freq=rnd.randint(0, 5),
                                    start=start, s_end=s_end, r_end=r_end, clusters=cl, top=top))
        partials = [{"name": f"PT{j}", "samples": rnd.sample(range(ns), rnd.randint(1, min(4, ns)))} for j in range(rnd.randint(1, 2))]
        patches = [{"name": f"PA{j}", "partials": rnd.sample(range(len(partials)), rnd.randint(1, len(partials)))} for j in range(rnd.randint(1, 2))]
        perfs = [{"name": f"PF{j}", "patches": [rnd.randrange(len(patches))]} for j in range(rnd.randint(1, 3))]
        vols = [{"name": f"VL{j}", "performances": rnd.sample(range(len(perfs)), rnd.randint(1, len(perfs)))} for j in range(rnd.randint(1, 2))]
        cases.append({"fat_version": rnd.choice((1, 2)), "disk_name": "RND", "volumes": vols, "performances": perfs,
                      "patches": patches, "partials": partials, "samples": samples})
    k = 0
    for m in cases:
        k += 1
        if k % shard[1] == shard[0]:
            yield {"model": m}
            if k % 4 == 0:
                yield {"model": m, "history": ["ls", "export"] if k % 8 else ["export", "export"]}


@contract("e2e:C02", props=["C02", "C04"], abstract=True)
def _c02(c):
    pass


CONCRETE["e2e:C02"] = {
    "build": _build_c02, "small": _small_c02, "oracle": _oracle_c02, "shards": 8,
    "nontrivial": lambda i, s: s["kind"] == "return",
    "bound": "Roland images from the independent writer: 7 loop modes x windows ending at and one word before a cluster end, every permutation "
             "of a 3-cluster chain x cluster_top {0,1}, 6 frequency codes, FAT versions 1 and 2, shared/orphaned/unreferenced entries, performance directories with empty slots (entries beyond the ID-area count), "
             "a sample reached through two patches, plus 6 (quick) / 80 (thorough) random models",
    "timeout_s": 60.0, "budget_quick": 200, "budget_thorough": 1200,
}
