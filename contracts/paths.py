"""C10 (second half): Traversable.parse_path resolves exactly the listed names and reports every other path as invalid.
Proved per SHAPE: a directory tree  root -> [leaf A, directory B -> [leaf C]]  whose levels are already realised, and a path that the
tokeniser cuts into 1, 2 or 3 pieces; the path string itself and all names are unconstrained."""
from pyvc.contract import contract

S = "smpl_extract.structural:"
SEP = "[/\\\\\\\\]"          # one separator character: / or \
NOSEP = "[^/\\\\\\\\]*"


def _leaf(tag):
    return ("named", tag, ("obj", "smpl_extract.base:Element", {"_safe_name": "str", "name": "str"}))


def _mk_split(k):
    @contract(f"re:tokenize_path.split#abstract[pieces={k}]", abstract=True, assumed=True,
              note="Pattern.split with ONE capturing group (\\\\{1,2}|/): the result alternates text and separator pieces, starts and ends "
                   "with a text piece, its concatenation is the subject, text pieces contain no separator character, separator pieces are "
                   "'/', one backslash or two backslashes (assumed semantics of re.split; the piece COUNT is this contract's shape parameter)")
    def _sp(c):
        c.param("text", "str")
        n = 2 * k - 1
        c.returns(("clist", ["str"] * n))
        c.ensures("text == " + " + ".join(f"result[{i}]" for i in range(n)))
        for i in range(n):
            if i % 2 == 0:
                c.ensures(f"in_re(result[{i}], '{NOSEP}')")
            else:
                c.ensures(f"result[{i}] == '/' or result[{i}] == '\\\\\\\\' or result[{i}] == '\\\\\\\\\\\\\\\\'")
        c.modifies()
    return _sp


def _mk_parse(k):
    C = _leaf("C")
    B = ("named", "B", ("obj", "smpl_extract.structural:Traversable", {"_safe_name": "str", "name": "str", "_children": ("clist", [C])}))
    A = _leaf("A")

    @contract(S + f"Traversable.parse_path[pieces={k}]", source_key=S + "Traversable.parse_path", props=["C10"], proof_only=True)
    def _pp(c):
        c.self_obj(("self", "smpl_extract.structural:Traversable", {"_children": ("clist", [A, B]), "_safe_name": "str", "name": "str"}))
        c.param("path", "str")
        c.abstract_calls = {"self._TOKENIZE_PATH_REGEX.split": f"re:tokenize_path.split#abstract[pieces={k}]"}
        c.define("nA", [], "self._children[0]._safe_name")
        c.define("nB", [], "self._children[1]._safe_name")
        c.define("nC", [], "self._children[1]._children[0]._safe_name")
        # printed names: stripped (make_safe_name strips), free of separators at the level they are typed, different among siblings
        c.requires("py_strip(nA()) == nA() and py_strip(nB()) == nB() and py_strip(nC()) == nC() and nA() != nB()", "printed-names-are-stripped-and-differ")
        # every other path string whatsoever: `ErrorInvalidPath` (which ls turns into the 'was not found' message), never anything else
        P0 = "py_strip(path)"
        ok = {1: f"(({P0} == nA() and strlen(nA()) > 0 and in_re(nA(), '{NOSEP}')) or ({P0} == nB() and strlen(nB()) > 0 and in_re(nB(), '{NOSEP}')))",
              2: f"((({P0} == nB() + '/' + nC() or {P0} == nB() + '\\\\' + nC()) and in_re(nB(), '{NOSEP}') and in_re(nC(), '{NOSEP}') and strlen(nC()) > 0) "
                 f"or ({P0} == nB() + '/' and in_re(nB(), '{NOSEP}') and strlen(nB()) > 0))",
              3: f"({P0} == nB() + '/' + nC() + '/' and in_re(nB(), '{NOSEP}') and in_re(nC(), '{NOSEP}') and strlen(nC()) > 0)"}[k]
        # ... and it is NOT raised for the joined printed names of an item (with or without a trailing separator)
        c.raises("ErrorInvalidPath", f"not {ok}")
        # a normal return is one of the four nodes, and only for the token sequence that spells its names
        c.ensures("len(tokens) <= 2", "a-path-deeper-than-the-tree-never-returns")
        c.ensures("implies(len(tokens) == 0, result is self)", "the-empty-path-is-the-node-itself")
        c.ensures("implies(len(tokens) == 1, (result is self._children[0] and py_strip(tokens[0]) == nA()) or "
                  "(result is self._children[1] and py_strip(tokens[0]) == nB()))", "one-token-returns-the-child-it-spells")
        c.ensures("implies(len(tokens) == 2, result is self._children[1]._children[0] and py_strip(tokens[0]) == nB() and py_strip(tokens[1]) == nC())",
                  "two-tokens-return-the-grandchild-they-spell")
        # the joined printed names resolve to that item - with or without a trailing separator
        P = "py_strip(path)"
        if k == 1:
            c.ensures(f"implies({P} == nA() and in_re(nA(), '{NOSEP}') and strlen(nA()) > 0, result is self._children[0])", "printed-name-of-a-leaf-resolves")
            c.ensures(f"implies({P} == nB() and in_re(nB(), '{NOSEP}') and strlen(nB()) > 0, result is self._children[1])", "printed-name-of-a-directory-resolves")
        if k == 2:
            c.ensures(f"implies(({P} == nB() + '/' + nC() or {P} == nB() + '\\\\\\\\' + nC()) and in_re(nB(), '{NOSEP}') and in_re(nC(), '{NOSEP}') "
                      "and strlen(nC()) > 0, result is self._children[1]._children[0])", "joined-printed-names-resolve")
            c.ensures(f"implies({P} == nB() + '/' and in_re(nB(), '{NOSEP}') and strlen(nB()) > 0, result is self._children[1])", "trailing-separator-is-ignored")
        if k == 3:
            c.ensures(f"implies({P} == nB() + '/' + nC() + '/' and in_re(nB(), '{NOSEP}') and in_re(nC(), '{NOSEP}') "
                      "and strlen(nC()) > 0, result is self._children[1]._children[0])", "joined-printed-names-with-trailing-separator-resolve")
        c.modifies()
    return _pp


for _k in (1, 2, 3):
    _mk_split(_k)
    _mk_parse(_k)


# ================================================================================================== C16: a directory level is realised once
# Traversable.children: an already realised level is returned as it is - the same list object, nothing written, the realiser not
# called again - so no earlier `ls` / export can change what a later one sees at that level; set_routines touches `_routines` only.
@contract(S + "Traversable.children[realised]", source_key=S + "Traversable.children", props=["C16", "C10"], proof_only=True)
def _ch_done(c):
    c.self_obj(("self", "smpl_extract.structural:Traversable", {"_children": ("clist", [_leaf("X")]), "_routines": ("cdict", {}),
                                                                "_f_realize_children": ("obj", "MustNotBeCalled", {})}))
    c.ensures("result is self._children and len(result) == 1", "the-realised-level-is-returned-unchanged")
    c.modifies()


@contract("smpl_extract.structural:f_realize_children#abstract", abstract=True, assumed=True,
          note="the level's realiser (construct glue): returns some list of elements; called with the parent / routines additions")
def _fr(c):
    c.param("context_additions", ("drop",))
    c.returns(("list", "int"))


@contract(S + "Traversable.children[first-use]", source_key=S + "Traversable.children", props=["C16"], proof_only=True)
def _ch_first(c):
    c.self_obj(("self", "smpl_extract.structural:Traversable", {"_children": ("const", None), "_routines": ("cdict", {}), "_f_realize_children": ("drop",)}))
    c.abstract_calls = {"self._f_realize_children": "smpl_extract.structural:f_realize_children#abstract"}
    c.ensures("result is self._children and self._children is not None", "the-level-is-realised-and-remembered")
    c.modifies("self._children")


@contract(S + "Traversable.set_routines", props=["C16"])
def _sr(c):
    c.self_obj(("self", "smpl_extract.structural:Traversable", {"_children": ("clist", [_leaf("Y")]), "_routines": ("cdict", {}), "_f_realize_children": ("drop",)}))
    c.param("routines", ("cdict", {}))
    c.ensures("self._routines is routines and self._children is not None", "only-the-routine-table-is-replaced")
    c.modifies("self._routines")


# ================================================================================================== C06: the path a file is exported under
# Element.export_path: the EXPORT names (sanitised, made unique per level) of the element and of its ancestors, outermost first -
# never the stored names.  Proved for an element two levels below the image root (partition / volume / file is the deepest AKAI nesting
# plus one); the walk up the parent chain ends at the root, whose stored path is empty.
def _node(tag, path_len, parent):
    return ("named", tag, ("obj", "smpl_extract.base:Element", {"_path": ("clist", ["str"] * path_len), "_parent": parent, "_export_name": "str", "_safe_name": "str",
                                                               "name": "str"}))


_ROOT = ("named", "root", ("obj", "smpl_extract.base:Element", {"_path": ("clist", []), "_parent": ("const", None), "_export_name": ("const", None),
                                                               "_safe_name": ("const", None), "name": "str"}))


@contract("smpl_extract.base:Element.export_path[depth=3]", source_key="smpl_extract.base:Element.export_path", props=["C06", "C13"], proof_only=True)
def _ep(c):
    c.self_obj(("self", "smpl_extract.base:Element", {"_path": ("clist", ["str"] * 3), "_export_name": "str", "_safe_name": "str", "name": "str",
                                                      "_parent": _node("vol", 2, _node("part", 1, _ROOT))}))
    c.ensures("len(result) == 3 and result[0] == self._parent._parent._export_name and result[1] == self._parent._export_name and result[2] == self._export_name",
              "export-names-of-the-ancestors-outermost-first-then-its-own")
    c.modifies()


# ================================================================================================== C06 / C10: every level goes through the naming routines
# Traversable.children, first use: whatever the realiser returns - no entry, ONE entry, many - is handed to every routine of the
# routine table, and what the last routine returns is the level.  (The routines do not only tell siblings apart, they also make each
# name safe: a lone child needs them as much as a crowd.)
@contract("smpl_extract.structural:routine#abstract", abstract=True, assumed=True,
          note="one naming routine of the table (make_safe_names / make_export_names / combine_stereo): under contract elsewhere; here it only marks its output")
def _rt_abs(c):
    c.param("elements", ("list", "int"))
    c.returns(("obj", "RoutineOutput", {"n": "int"}))
    c.ensures("result.n == len(elements)")
    c.modifies()


@contract(S + "Traversable.children[first-use,one-routine]", source_key=S + "Traversable.children", props=["C06", "C10"], proof_only=True)
def _ch_named(c):
    c.self_obj(("self", "smpl_extract.structural:Traversable", {"_children": ("const", None), "_routines": ("cdict", {"names": ("obj", "RoutineToken", {})}),
                                                                "_f_realize_children": ("drop",)}))
    c.abstract_calls = {"self._f_realize_children": "smpl_extract.structural:f_realize_children#abstract", "routine": "smpl_extract.structural:routine#abstract"}
    c.ensures("implies(True, self._children.n >= 0)", "the-level-is-what-the-routine-returned-however-many-entries-it-has")
    c.ensures("result is self._children", "and-it-is-remembered")
    c.modifies("self._children")


# ================================================================================================== C10: what `ls` of a directory prints
# Traversable.get_info: one row per child of the (realised) level, in order, showing the child's PRINTED name - its safe name whenever one
# was assigned, the empty string included (a name made only of characters the sanitiser removes), the stored name only when none was
# assigned - and its type.  parse_path compares path tokens with the same `safe_name`, so what is printed is what resolves.
def _mk_get_info(n):
    kids = [("obj", "smpl_extract.base:Element", {"_safe_name": ("opt", "str"), "name": "str", "type_name": "str"}) for _ in range(n)]

    @contract(S + f"Traversable.get_info[children={n}]", source_key=S + "Traversable.get_info", props=["C10", "C20"], proof_only=True)
    def _gi(c):
        c.self_obj(("self", "smpl_extract.structural:Traversable", {"_children": ("clist", kids), "_routines": ("cdict", {}), "_f_realize_children": ("obj", "MustNotBeCalled", {})}))
        c.use = {S + "Traversable.children": "inline", "smpl_extract.base:Element.safe_name": "inline"}
        c.ensures(f"len(result.rows) == {n}", "one-row-per-child")
        for i in range(n):
            c.ensures(f"len(result.rows) == {n} and result.rows[{i}][0] == ite(is_none(self._children[{i}]._safe_name), self._children[{i}].name, opt_val(self._children[{i}]._safe_name))",
                      f"row-{i}-shows-the-printed-name-of-child-{i}")
            c.ensures(f"len(result.rows) == {n} and result.rows[{i}][1] == self._children[{i}].type_name", f"row-{i}-shows-the-type-of-child-{i}")
        c.modifies()
    return _gi


for _n in (0, 1, 2, 3, 4, 5):          # 4, 5: thorough tier only
    _mk_get_info(_n)


# ================================================================================================== the two actions (top of every chain)
# ls_action: installs the two naming routines - safe names first, export names second - resolves the path and prints what the item
# reports; a path that does not resolve (ErrorInvalidPath) is ANSWERED - its message printed - never raised (C10).
# export_samples_to_wav: the same naming table, an export manager rooted at exactly the directory given (C06) whose only sample routine
# is the image's own combine_stereo_routine (C05; the CDDA image overrides it with the identity), then one walk over the tree.
A_ = "smpl_extract.actions:"
_IMG = ("obj", "smpl_extract.structural:Image", {"_routines": ("cdict", {}), "_children": ("const", None), "_f_realize_children": ("drop",)})


@contract(A_ + "image.parse_path#abstract", abstract=True, assumed=False, note="Traversable.parse_path (under contract per path shape): the item, or ErrorInvalidPath")
def _pp_abs(c):
    c.param("path", "str")
    c.returns(("obj", "ResolvedItem", {}))
    c.raises("ErrorInvalidPath", "True")
    c.modifies()


@contract(A_ + "item.get_info#abstract", abstract=True, assumed=False, note="what the item reports (Traversable.get_info is under contract; leaves: itemize)")
def _gi_abs(c):
    c.returns(("obj", "PrintableToken", {}))
    c.modifies()


@contract(A_ + "info.to_string#abstract", abstract=True, assumed=True, note="rendering (InfoTable / InfoTree): some text")
def _ts_abs(c):
    c.returns("str")
    c.modifies()


@contract("builtins:print#any", abstract=True, assumed=True, note="print(x): no effect on program state")
def _print_any(c):
    c.param("x", ("drop",))
    c.modifies()


@contract(A_ + "ls_action", props=["C10", "C16"])
def _ls(c):
    c.param("image", _IMG)
    c.param("path", "str")
    c.abstract_calls = {"image.parse_path": A_ + "image.parse_path#abstract", "item.get_info": A_ + "item.get_info#abstract",
                        "info.to_string": A_ + "info.to_string#abstract", "print": "builtins:print#any"}
    c.use = {S + "Traversable.set_routines": "inline"}
    # no raises clause: a path that does not resolve is answered, not raised
    c.ensures("len(image._routines) == 2 and list(image._routines.keys())[0] == 'make_safe_names' and list(image._routines.keys())[1] == 'make_export_names'",
              "naming-table-safe-names-first-then-export-names")
    c.modifies("image._routines")


@contract(A_ + "image.export_samples#abstract", abstract=True, assumed=False, note="Traversable.export_samples (under contract per level shape)")
def _xs_abs(c):
    c.param("export_manager", ("drop",))
    c.modifies()


@contract(A_ + "export_samples_to_wav", props=["C06", "C05", "C16"])
def _xw(c):
    c.param("image", _IMG)
    c.param("base_dir", "str")
    c.abstract_calls = {"image.export_samples": A_ + "image.export_samples#abstract"}
    c.use = {S + "Traversable.set_routines": "inline", S + "ExportManager.__init__": "inline"}
    c.ensures("len(image._routines) == 2 and list(image._routines.keys())[0] == 'make_safe_names' and list(image._routines.keys())[1] == 'make_export_names'",
              "naming-table-safe-names-first-then-export-names")
    c.ensures("export_manager.output_directory == base_dir", "the-manager-is-rooted-at-exactly-the-directory-given")
    c.ensures("len(export_manager.routines) == 1 and list(export_manager.routines.keys())[0] == 'combine_stereo'", "one-sample-routine-the-image's-stereo-pairing")
    c.ensures("len(export_manager.samples) == 0", "starts-with-an-empty-batch")
    c.modifies("image._routines")


# ================================================================================================== C10: the AKAI path-token normaliser
# AkaiImageParser._sanitize_string (applied to every path token and every sibling name before they are compared): upper case, blanks
# trimmed, and exactly ONE trailing colon dropped - so `A` and `A:` name the same partition, while `A::` is another (non-existing) name
# and the empty token stays empty.
@contract("smpl_extract.akai.image:AkaiImageParser._sanitize_string", props=["C10"])
def _akai_sani(c):
    c.self_obj(("self", "smpl_extract.akai.image:AkaiImageParser", {}))
    c.param("input_str", "str")
    c.returns("str")
    c.define("t", [], "py_strip(py_upper(input_str))")
    c.ensures("implies(strlen(t()) > 0 and char_at(t(), strlen(t()) - 1) == ':', result == substr(t(), 0, strlen(t()) - 1))", "one-trailing-colon-is-dropped")
    c.ensures("implies(strlen(t()) == 0 or char_at(t(), strlen(t()) - 1) != ':', result == t())", "anything-else-is-kept")
    c.modifies()


# ================================================================================================== C06 / C10: the Roland image hands the routine table to EVERY volume
# RolandS7xxImage.set_routines: the table just installed on the image is also installed on every entry of `volumes` - the declared
# volumes AND whatever the parser appended behind them (the pseudo-volume collecting performances no volume refers to) - so no level of
# the tree is left without its naming routines.  Proved for two declared volumes plus one appended.
_RV = ("obj", "smpl_extract.structural:Traversable", {"_routines": ("cdict", {}), "_children": ("const", None), "_f_realize_children": ("drop",)})


@contract("smpl_extract.roland.s7xx.image:RolandS7xxImage.set_routines", props=["C06", "C10", "C05"])
def _rsr(c):
    c.self_obj(("self", "smpl_extract.roland.s7xx.image:RolandS7xxImage", {"_routines": ("cdict", {}), "_children": ("const", None), "_f_realize_children": ("drop",),
                                                                         "num_volumes": ("const", 2), "volumes": ("clist", [_RV, _RV, _RV])}))          # two declared volumes + one appended
    c.param("routines", ("cdict", {"make_safe_names": ("obj", "RoutineToken", {}), "make_export_names": ("obj", "RoutineToken", {})}))
    c.use = {S + "Traversable.set_routines": "inline"}
    c.ensures("self._routines is routines", "installed-on-the-image")
    for k in range(3):
        c.ensures(f"self.volumes[{k}]._routines is routines", f"and-on-volume-{k}-declared-or-appended")
    c.modifies("self._routines", *[f"self.volumes[{k}]._routines" for k in range(3)])
