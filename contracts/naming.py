"""C06 (part): the export-name sanitiser produces a safe path component for EVERY ASCII name
(smpl_extract/structural.py: Image.make_export_name, Image._add_count_to_name)."""
from pyvc.contract import contract

S = "smpl_extract.structural:"
# the statement's grammar of a safe component: word characters, space - . # ( ), first a word character, no trailing space or dot
W = "0-9A-Za-z_"
SAFE_BODY = f"[{W} \\-.#()]*"


@contract(S + "Image.make_safe_name", props=["C10"], regex_decomposition=True)
def _msn(c):
    # what `ls` prints for an item (C10): made of word characters, blanks and - = : . @ # & + only - so it contains NO path separator and can be
    # typed back as one path component - and it carries no blank at either end (parse_path strips every token before comparing)
    c.self_obj(("self", "smpl_extract.structural:Image", {}))
    c.param("name", "str")
    c.param("is_file", "bool")
    c.requires("in_re(name, '[\\\\x00-\\\\x7f]*')", "ascii-name")
    c.returns("str")
    c.ensures("in_re(result, '[0-9A-Za-z_\\\\-=:.@#&+ ]*')", "only-printable-name-characters")
    c.ensures("not in_re(result, '.*[/\\\\\\\\].*')", "contains-no-path-separator")
    c.ensures("py_strip(result) == result", "no-blank-at-either-end")
    c.modifies()


@contract(S + "Image.make_export_name", props=["C06", "C10"], regex_decomposition=True)
def _men(c):
    c.self_obj(("self", "smpl_extract.structural:Image", {}))
    c.param("name", "str")
    c.param("is_file", "bool")
    c.requires("in_re(name, '[\\\\x00-\\\\x7f]*')", "ascii-name")
    c.returns("str")
    c.ensures(f"in_re(result, '[{W}]{SAFE_BODY}')", "only-safe-characters-and-begins-with-a-word-character")
    c.ensures("strlen(result) >= 1", "non-empty")
    c.ensures("not in_re(result, '.* ')", "does-not-end-in-a-space")
    c.ensures("implies(not is_file, not in_re(result, '.*[.\\\\-]'))", "directory-names-do-not-end-in-a-dot-or-hyphen")
    c.modifies()


@contract(S + "Image._add_count_to_name", props=["C06", "C10"], regex_decomposition=True)
def _act(c):
    c.self_obj(("self", "smpl_extract.structural:Image", {}))
    c.param("name", "str")
    c.param("count", "int")
    c.requires("count >= 0")
    # a name produced by make_export_name
    c.requires(f"in_re(name, '[{W}]{SAFE_BODY}') and not in_re(name, '.* ')", "name-is-a-safe-component")
    c.returns("str")
    c.ensures(f"in_re(result, '[{W}]{SAFE_BODY}')", "counted-name-is-a-safe-component")
    c.ensures("not in_re(result, '.* ')", "does-not-end-in-a-space")
    c.ensures("in_re(result, '.*\\\\([0-9]+\\\\).*')", "carries-the-counter")
    c.modifies()


@contract("lemma:safe_component_is_confined", props=["C06"], lemma_module="smpl_extract.structural", lemma_deps=[],
          lemma_src="def ident(s):\n    return s\n", regex_decomposition=True)
def _conf(c):
    # a component of the statement's safe grammar can neither climb out of nor split the destination path
    c.param("s", "str")
    c.requires(f"in_re(s, '[{W}]{SAFE_BODY}')")
    c.ensures("not in_re(result, '.*[/\\\\\\\\].*')", "contains-no-path-separator")
    c.ensures("result != '..' and result != '.' and strlen(result) > 0", "is-not-a-dot-component")
    c.ensures("not in_re(result, '[^0-9A-Za-z_].*')", "begins-with-a-word-character")


# ================================================================================================== uniqueness (C06, C10)
# sanitize_names_general gives the n sibling elements of one directory pairwise different names - whatever the stored names
# are.  The argument needs NO string theory: a name is either a key of `candidate_names` (keys of one dict differ) or a counted
# name that was tested against those keys and against every counted name handed out before.  So the two string functions
# are replaced by abstract PURE functions of their arguments (their safety is proved above; here only equality matters).
# Proved per directory size n (dictionaries keyed by symbolic strings: every insertion splits the path on "equals an earlier
# key"); the size is the only bound, names are unconstrained.
@contract(S + "Image.make_export_name#pure", abstract=True, assumed=True,
          note="make_export_name is a function of (name, is_file): it reads only module-level compiled patterns")
def _men_pure(c):
    c.param("name", "str")
    c.param("is_file", "bool")
    c.returns("str")
    c.ensures("result == uf_str('export_name', name, is_file)")
    c.modifies()


@contract(S + "Image.make_safe_name#pure", abstract=True, assumed=True,
          note="make_safe_name is a function of its name argument")
def _msn_pure(c):
    c.param("name", "str")
    c.param("is_file", "bool")
    c.returns("str")
    c.ensures("result == uf_str('safe_name', name)")
    c.modifies()


@contract(S + "Image._add_count_to_name#pure", abstract=True, assumed=True,
          note="_add_count_to_name is a function of (name, count); that different counts give different names is NOT assumed but proved of the real "
               "function: lemma:counted_names_differ_for_different_counts")
def _act_pure(c):
    c.param("name", "str")
    c.param("count", "int")
    c.returns("str")
    c.ensures("result == uf_str('counted_name', name, count)")
    # different counts give different names for one base name (the decimal counter can be read back): used for termination of
    # the "find a free counted name" loops only
    c.ensures("count == uf_int('count_read_back', name, result)")
    c.modifies()


def _mk_unique(routine, attr, fn, n):
    ELEM = ("obj", "smpl_extract.base:Element", {"name": "str", "type_id": "int"})

    @contract(S + f"Image.{routine}[n={n}]", source_key=S + f"Image.{routine}", props=["C06", "C10"], proof_only=True)
    def _u(c):
        c.self_obj(("self", "smpl_extract.structural:Image", {}))
        c.param("elements", ("clist", [ELEM] * n))
        c.use = {S + f"Image.{fn}": S + f"Image.{fn}#pure", S + "Image._add_count_to_name": S + "Image._add_count_to_name#pure"}
        c.raises("CouldNotDetermineName")
        c.also_covers = [S + "Image.sanitize_names_general"]      # inlined: the routine is a thin wrapper around it
        names = [f"elements[{i}].{attr}" for i in range(n)]
        if n > 1:
            c.ensures(f"distinct({', '.join(names)})", "sibling-names-are-pairwise-different")
        c.ensures("result is elements", "same-list-same-order")
        # the first element that asks for a name keeps it unchanged
        cand = f"uf_str('{'export_name' if fn == 'make_export_name' else 'safe_name'}', elements[0].name" + \
               (", elements[0].type_id != 1)" if fn == "make_export_name" else ")")
        c.ensures(f"{names[0]} == {cand}", "first-claimant-keeps-the-plain-name")
    return _u


for _n in (1, 2, 3, 4, 5):          # n = 5: thorough tier only
    _mk_unique("make_export_names_routine", "_export_name", "make_export_name", _n)
    _mk_unique("make_safe_names_routine", "_safe_name", "make_safe_name", _n)


# ================================================================================================== pairing (C05)
# combine_stereo_routine on a directory of n mono samples whose export names are pairwise different safe components
# (what make_export_names_routine leaves behind).  `combine_stereo` is replaced by an abstract constructor that records
# WHICH two samples were merged in WHICH order (ghost fields `left` / `right`).
SAMPLE = ("obj", "smpl_extract.generalized.sample:Sample", {"name": "str", "_export_name": "str", "uid": "int", "left_uid": "int", "right_uid": "int"})
PAIR_L = "[\\\\s\\\\S]*[\\\\s\\\\-]L"       # ... a blank or hyphen, then the final letter


@contract("smpl_extract.generalized.sample:combine_stereo#abstract", abstract=True, assumed=False,
          note="combine_stereo(left, right, new_name): a new two-stream sample whose stream 0 is left's and stream 1 is right's, exported under new_name - "
               "proved of the real function by the contract smpl_extract.generalized.sample:combine_stereo (same file); this tagged form only adds ghost ids")
def _cs(c):
    c.param("left", SAMPLE)
    c.param("right", SAMPLE)
    c.param("new_name", "str")
    c.returns(("obj", "smpl_extract.generalized.sample:Sample",
               {"name": "str", "_export_name": "str", "uid": "int", "left_uid": "int", "right_uid": "int"}))
    c.ensures("result._export_name == new_name and result.left_uid == left.uid and result.right_uid == right.uid and result.uid == -1")
    c.modifies()


@contract("re:stereo_filename.match#abstract", abstract=True, assumed=True,
          note="_STEREO_FILENAME.match on a name WITHOUT trailing blank: succeeds exactly on names ending in a blank or hyphen followed by L or R; "
               "the groups then decompose the name: name = g1 ++ g2 ++ g3, g2 a non-empty run of blanks / hyphens, g3 the final letter. "
               "Justified against the LIVE pattern by lemma:stereo_filename_decomposition (same file)")
def _sm(c):
    c.param("name", "str")
    c.returns(("opt", ("match", 3)))
    c.requires("not in_re(name, '[\\s\\S]*\\s')", "name-has-no-trailing-blank")
    c.ensures("present(result) == in_re(name, '[\\s\\S]*[\\s\\-][LR]')")
    c.ensures("implies(present(result), name == opt_val(result).group(1) + opt_val(result).group(2) + opt_val(result).group(3) "
              "and (opt_val(result).group(3) == 'L' or opt_val(result).group(3) == 'R') "
              "and in_re(opt_val(result).group(2), '[\\s\\-]+') and in_re(opt_val(result).group(1), '[^\\n]*'))")
    c.modifies()


@contract("lemma:stereo_filename_decomposition", props=["C05"], lemma_module="smpl_extract.structural", lemma_deps=[],
          lemma_src="def decompose(s):\n    m = Image._STEREO_FILENAME.match(s)\n    if m:\n        return (m.group(1), m.group(2), m.group(3))\n    return None\n",
          regex_decomposition=True)
def _sfd(c):
    # what the abstract match contract above assumes, proved of the live compiled pattern for every name without newline / trailing blank
    c.param("s", "str")
    c.requires("in_re(s, '[^\\n]*') and not in_re(s, '[\\s\\S]*\\s')")
    c.returns(("opt", ("tuple", ["str", "str", "str"])))
    c.ensures("present(result) == in_re(s, '[\\s\\S]*[\\s\\-][LR]')", "matches-exactly-the-names-ending-in-blank-or-hyphen-then-L-or-R")
    c.ensures("implies(present(result), s == opt_val(result)[0] + opt_val(result)[1] + opt_val(result)[2])", "groups-decompose-the-name")
    c.ensures("implies(present(result), (opt_val(result)[2] == 'L' or opt_val(result)[2] == 'R') and in_re(opt_val(result)[1], '[\\s\\-]+'))",
              "separator-and-side")


def _mk_pairing(n):
    @contract(S + f"Image.combine_stereo_routine[n={n}]", source_key=S + "Image.combine_stereo_routine", props=["C05"],
              proof_only=True)
    def _p(c):
        c.self_obj(("self", "smpl_extract.structural:Image", {}))
        c.param("samples", ("clist", [SAMPLE] * n))
        c.abstract_calls = {"combine_stereo": "smpl_extract.generalized.sample:combine_stereo#abstract",
                            "self._STEREO_FILENAME.match": "re:stereo_filename.match#abstract"}
        c.use = {S + "Image._add_count_to_name": S + "Image._add_count_to_name#pure"}
        for i in range(n):
            c.requires(f"in_re(samples[{i}]._export_name, '[{W}]{SAFE_BODY}') and not in_re(samples[{i}]._export_name, '.* ') "
                       f"and samples[{i}].uid == {i} and samples[{i}].left_uid == -1 and samples[{i}].right_uid == -1", f"sample-{i}-has-a-safe-export-name")
        if n > 1:
            c.requires("distinct(" + ", ".join(f"samples[{i}]._export_name" for i in range(n)) + ")", "export-names-differ")
        # partner relation written from the statement: the names differ only in a final L / R preceded by a blank or a hyphen
        c.define("is_left_of", ["a", "b"],
                 f"in_re(a._export_name, '{PAIR_L}') and b._export_name == substr(a._export_name, 0, strlen(a._export_name) - 1) + 'R' "
                 # stored names compared WITHOUT their blank padding (Roland's 16-character fields): K3b
                 "and substr(py_rstrip(a.name), 0, strlen(py_rstrip(a.name)) - 1) == substr(py_rstrip(b.name), 0, strlen(py_rstrip(b.name)) - 1)")
        if n == 2:
            c.ensures("implies(is_left_of(samples[0], samples[1]), len(result) == 1 and result[0].left_uid == 0 and result[0].right_uid == 1)",
                      "pair-in-directory-order-L-R-is-merged-left-first")
            c.ensures("implies(is_left_of(samples[1], samples[0]), len(result) == 1 and result[0].left_uid == 1 and result[0].right_uid == 0)",
                      "pair-in-directory-order-R-L-is-merged-left-first")
            c.ensures("implies(is_left_of(samples[0], samples[1]) or is_left_of(samples[1], samples[0]), "
                      "in_re(substr(samples[0]._export_name, strlen(result[0]._export_name), strlen(samples[0]._export_name)), '[\\\\s\\\\-]+[LR]') "
                      "and result[0]._export_name == substr(samples[0]._export_name, 0, strlen(result[0]._export_name)))",
                      "merged-file-is-named-after-the-common-stem")
            c.ensures("implies(not is_left_of(samples[0], samples[1]) and not is_left_of(samples[1], samples[0]), len(result) == 2)",
                      "every-other-sample-stays-its-own-mono-sample")
            c.ensures("implies(len(result) == 2, result[0] is samples[0] and result[1] is samples[1])", "unmerged-samples-are-passed-on-in-order")
        if n == 1:
            c.ensures("len(result) == 1 and result[0] is samples[0]", "a-single-sample-stays-mono")
        # for every n: nothing is lost or duplicated, every L/R pair is merged left-first, everything else stays as it is,
        # and the names handed on are still pairwise different
        for i in range(n):
            c.ensures(f"sum([ite(r.uid == {i} or r.left_uid == {i} or r.right_uid == {i}, 1, 0) for r in result]) == 1",
                      f"sample-{i}-is-handed-on-exactly-once")
            others = [j for j in range(n) if j != i]
            for j in others:
                c.ensures(f"implies(is_left_of(samples[{i}], samples[{j}]), sum([ite(r.left_uid == {i} and r.right_uid == {j}, 1, 0) for r in result]) == 1)",
                          f"pair-L{i}-R{j}-is-merged-left-first")
            lone = " and ".join([f"not is_left_of(samples[{i}], samples[{j}]) and not is_left_of(samples[{j}], samples[{i}])" for j in others]) or "True"
            c.ensures(f"implies({lone}, sum([ite(r is samples[{i}], 1, 0) for r in result]) == 1)", f"unpaired-sample-{i}-stays-its-own-mono-sample")
        c.ensures("distinct([r._export_name for r in result])", "names-handed-on-are-pairwise-different")
        c.ensures("sum([ite(r.uid == -1, 2, 1) for r in result]) == " + str(n), "channels-add-up-to-the-number-of-samples")
    return _p


for _n in (1, 2, 3):
    _mk_pairing(_n)


# ================================================================================================== combine_stereo itself (C05)
STREAMS = ("list", "opaque")
SAMPLE_FULL = ("obj", "smpl_extract.generalized.sample:Sample",
               {"name": "str", "channel_config": "int", "sample_rate": "int", "num_channels": "int", "num_audio_samples": ("opt", "int"),
                "data_streams": ("clist", [("obj", "StreamToken", {})]), "loop_regions": ("clist", []), "midi_note": ("const", None), "pitch_offset_semi": ("opt", "int"),
                "pitch_offset_cents": ("opt", "int"), "_parent": ("const", None), "_path": ("clist", []), "_safe_name": ("opt", "str"),
                "_export_name": ("opt", "str")})


@contract("smpl_extract.generalized.sample:combine_stereo", props=["C05"])
def _cs_real(c):
    # what the abstract constructor of the pairing proof assumes, proved of the real function for two mono samples:
    # a NEW sample whose streams are left's followed by right's, exported under the given name; the inputs are not changed
    c.param("left", SAMPLE_FULL)
    c.param("right", SAMPLE_FULL)
    c.param("new_name", "str")
    c.ensures("len(result.data_streams) == 2 and result.data_streams[0] is old(left.data_streams[0]) and result.data_streams[1] is old(right.data_streams[0])",
              "stream-0-is-the-left-sample-stream-1-the-right")
    c.ensures("result.num_channels == 2 and result._export_name == new_name", "two-channels-under-the-given-name")
    c.ensures("result is not left and result is not right and len(left.data_streams) == 1 and len(right.data_streams) == 1", "inputs-are-left-as-they-were")
    c.ensures("result.sample_rate == left.sample_rate", "rate-of-the-left-sample")
    c.modifies()


# ================================================================================================== where a sample is written (C06)
# ExportManager.export_samples: every sample of the level is written to  <destination> joined with <its export path joined by '/'> + '.wav'
# - the export names (proved safe and pairwise different above) are used as they are, nothing is stripped, merged or re-suffixed -
# and that same relative path is what the `Exported` line shows.  File-system calls are abstract; `export_wav` records its target on the sample.
WSAMPLE = ("obj", "smpl_extract.generalized.sample:Sample", {"rel": "str", "written_to": "str", "reported": "str"})


@contract("smpl_extract.structural:ExportManager.make_output_path#pure", abstract=True, assumed=False,
          note="'/'.join(sample.export_path()) : abstracted to the sample's relative path string `rel` (export_path: Element.export_path, bounded by e2e:dirs)")
def _mop(c):
    c.param("sample", WSAMPLE)
    c.returns("str")
    c.ensures("result == sample.rel")
    c.modifies()


@contract("os.path:join2#abstract", abstract=True, assumed=True, note="os.path.join(a, b) is a function of (a, b)")
def _j2(c):
    c.param("a", "str")
    c.param("b", "str")
    c.returns("str")
    c.ensures("result == uf_str('path_join', a, b)")


@contract("os.path:dirname#abstract", abstract=True, assumed=True, note="pure")
def _dn(c):
    c.param("p", "str")
    c.returns("str")


@contract("os.path:exists#abstract", abstract=True, assumed=True, note="any answer")
def _ex(c):
    c.param("p", "str")
    c.returns("bool")


@contract("os:makedirs#abstract", abstract=True, assumed=True, note="no effect on program state")
def _mk(c):
    c.param("p", "str")


@contract("smpl_extract.generalized.wav:export_wav#record", abstract=True, assumed=False,
          note="export_wav(sample, path) writes the sample to path (its content: C01-C04, C12); here it records the path on the sample")
def _ew(c):
    c.param("sample", WSAMPLE)
    c.param("file_path", "str")
    c.ensures("sample.written_to == file_path")
    c.modifies("sample.written_to")


@contract("builtins:print#record", abstract=True, assumed=True, note="print(text): recorded on the sample being exported (ghost)")
def _pr(c):
    c.param("text", "str")


def _mk_export(n):
    @contract(S + f"ExportManager.export_samples[n={n}]", source_key=S + "ExportManager.export_samples", props=["C06"], proof_only=True)
    def _es(c):
        c.self_obj(("self", S.rstrip(":") + ":ExportManager", {"output_directory": "str", "routines": ("cdict", {}), "level": ("drop",),
                                                                "samples": ("clist", [WSAMPLE] * n)}))
        c.abstract_calls = {"os.path.join": "os.path:join2#abstract", "os.path.dirname": "os.path:dirname#abstract", "os.path.exists": "os.path:exists#abstract",
                            "os.makedirs": "os:makedirs#abstract", "export_wav": "smpl_extract.generalized.wav:export_wav#record", "print": "builtins:print#record"}
        c.use = {S + "ExportManager.make_output_path": S + "ExportManager.make_output_path#pure"}
        for i in range(n):
            c.ensures(f"old(self.samples[{i}]).written_to == uf_str('path_join', self.output_directory, old(self.samples[{i}]).rel) + '.wav'",
                      f"sample-{i}-is-written-below-the-destination-under-its-export-path-plus-wav")
        c.ensures("len(self.samples) == 0", "the-level-is-emptied")
        c.modifies("self.samples", *[f"self.samples[{i}].written_to" for i in range(n)])
    return _es


for _n in (1, 2):
    _mk_export(_n)


# ... and with a sample routine in the table (combine_stereo returns a NEW list): the batch written is what the routine returned, and the
# manager's OWN list is what gets emptied - otherwise the level's samples would still be there when the next level is finished.
@contract(S + "sample_routine#abstract", abstract=True, assumed=False, note="a sample routine of the table (combine_stereo_routine is under contract): returns a new list of one sample")
def _sr_abs(c):
    c.param("samples", ("drop",))
    c.returns(("clist", [WSAMPLE]))
    c.modifies()


@contract(S + "ExportManager.export_samples[n=2,one-routine]", source_key=S + "ExportManager.export_samples", props=["C06", "C01", "C05"], proof_only=True)
def _es_routine(c):
    c.self_obj(("self", S.rstrip(":") + ":ExportManager", {"output_directory": "str", "routines": ("cdict", {"combine_stereo": ("obj", "RoutineToken", {})}), "level": ("drop",),
                                                            "samples": ("clist", [WSAMPLE] * 2)}))
    c.abstract_calls = {"os.path.join": "os.path:join2#abstract", "os.path.dirname": "os.path:dirname#abstract", "os.path.exists": "os.path:exists#abstract",
                        "os.makedirs": "os:makedirs#abstract", "export_wav": "smpl_extract.generalized.wav:export_wav#record", "print": "builtins:print#record",
                        "f_routine": S + "sample_routine#abstract"}
    c.use = {S + "ExportManager.make_output_path": S + "ExportManager.make_output_path#pure"}
    c.ensures("len(self.samples) == 0", "the-manager's-own-batch-is-emptied-whatever-list-the-routine-returned")
    c.modifies("self.samples")


@contract("lemma:counted_names_differ_for_different_counts", props=["C06", "C10", "C05"], lemma_module="smpl_extract.structural",
          lemma_deps=[S + "Image._add_count_to_name"],
          lemma_src="def two(img, name, a, b):\n    return (img._add_count_to_name(name, a), img._add_count_to_name(name, b))\n")
def _inj(c):
    # discharges the `count_read_back` assumption of the abstract _add_count_to_name#pure contract: for one base name, different
    # counters give different counted names (so the "find a free counted name" loops cannot run forever over a finite set of taken names)
    c.param("img", ("obj", "smpl_extract.structural:Image", {}))
    c.param("name", "str")
    c.param("a", "int")
    c.param("b", "int")
    c.use = {S + "Image._add_count_to_name": "inline"}
    c.requires("a >= 0 and b >= 0 and a != b")
    c.ensures("result[0] != result[1]", "different-counters-give-different-names")


# ================================================================================================== C01 / C02 / C05: one directory level handed to the export manager
# Traversable.export_samples for a level whose children are all samples (an AKAI volume, a Roland performance, a CDDA image): the level
# is announced with the node's path, the generalized form of EVERY sample child is added in directory order, and the level is finished
# exactly once with exactly that batch - no sample dropped, none added twice, none carried over from (or left for) another level.  For a
# level of sub-directories (partition, volume list): each sub-directory is exported in order and the level itself contributes an empty batch.
# set_level / add_sample / finish_level are the real methods (inlined); the batch export itself (ExportManager.export_samples, under
# contract above) is replaced by a recorder.
_GS = "int"          # a generalized sample, identified by the number of the element it was made from


@contract(S + "SampleElement.to_generalized#tag", abstract=True, assumed=False,
          note="the generalized sample of a sample element (AkaiSample / SampleFile / AudioTrack .to_generalized are under contract of their own); identified by the element")
def _tg_tag(c):
    c.binds_receiver = True
    c.returns(_GS)
    c.ensures("result == self.gid")
    c.modifies()


@contract(S + "ExportManager.export_samples#recorder", abstract=True, assumed=False,
          note="ExportManager.export_samples (under contract: ExportManager.export_samples[n]) - here it records the batch it is called with and empties it")
def _es_rec(c):
    c.binds_receiver = True
    c.ensures("self.batches == old(self.batches) + 1 and self.last_len == old(len(self.samples)) and len(self.samples) == 0")
    c.ensures("forall(0, old(len(self.samples)), lambda i: uf_int('batch_entry', self.batches, i) == old(self.samples)[i])")
    c.modifies("self.batches", "self.last_len", "self.samples")


@contract(S + "Traversable.export_samples#sub-directory", abstract=True, assumed=False,
          note="the recursive call on a sub-directory (same function, one level down): finishes some levels of its own and leaves the manager between levels")
def _es_sub(c):
    c.binds_receiver = True
    c.param("export_manager", ("drop",))
    c.ensures("export_manager.batches == old(export_manager.batches) + uf_int('levels_at_and_below', self.gid) and uf_int('levels_at_and_below', self.gid) >= 1")
    c.ensures("len(export_manager.samples) == 0")
    c.modifies("export_manager.batches", "export_manager.last_len", "export_manager.samples", "export_manager.level")


_MGR = ("obj", "smpl_extract.structural:ExportManager", {"output_directory": "str", "routines": ("cdict", {}), "level": ("drop",), "samples": ("clist", [_GS]),          # one stale entry left by an earlier level
                                                          "batches": "int", "last_len": "int"})


def _mk_level(kind, n):
    if kind == "samples":
        kid = lambda: ("obj", "smpl_extract.structural:SampleElement", {"gid": "int", "type_id": ("const", 2)})
    else:
        kid = lambda: ("obj", "smpl_extract.structural:Traversable", {"gid": "int", "type_id": ("const", 1)})

    @contract(S + f"Traversable.export_samples[{kind}={n}]", source_key=S + "Traversable.export_samples", props=["C01", "C02", "C05", "C03"], proof_only=True)
    def _lvl(c):
        c.self_obj(("self", "smpl_extract.structural:Traversable", {"_children": ("clist", [kid() for _ in range(n)]), "_routines": ("cdict", {}),
                                                                    "_f_realize_children": ("obj", "MustNotBeCalled", {}), "_path": ("clist", ["str"])}))
        c.param("export_manager", _MGR)
        c.use = {S + "Traversable.children": "inline", "smpl_extract.base:Element.path": "inline", S + "ExportManager.set_level": "inline",
                 S + "ExportManager.add_sample": "inline", S + "ExportManager.finish_level": "inline",
                 S + "ExportManager.export_samples": S + "ExportManager.export_samples#recorder"}
        c.abstract_calls = {"child.to_generalized": S + "SampleElement.to_generalized#tag", "child.export_samples": S + "Traversable.export_samples#sub-directory"}
        if kind == "samples":
            c.ensures(f"export_manager.batches == old(export_manager.batches) + 1 and export_manager.last_len == {n}", "the-level-is-finished-once-with-one-entry-per-sample-child")
            for i in range(n):
                c.ensures(f"uf_int('batch_entry', export_manager.batches, {i}) == self._children[{i}].gid", f"entry-{i}-of-the-batch-is-the-generalized-sample-of-child-{i}")
        else:
            below = " + ".join(f"uf_int('levels_at_and_below', self._children[{i}].gid)" for i in range(n)) or "0"
            c.ensures(f"export_manager.batches == old(export_manager.batches) + {below} + 1 and export_manager.last_len == 0",
                      "every-sub-directory-is-exported-and-the-level-itself-adds-an-empty-batch")
        c.ensures("len(export_manager.samples) == 0", "nothing-is-left-in-the-manager-for-the-next-level")
        c.modifies("export_manager.batches", "export_manager.last_len", "export_manager.samples", "export_manager.level")
    return _lvl


for _k, _n in (("samples", 0), ("samples", 1), ("samples", 2), ("directories", 1), ("directories", 2)):
    _mk_level(_k, _n)
