"""C06 (part): the export-name sanitiser produces a safe path component for EVERY ASCII name
(smpl_extract/structural.py: Image.make_export_name, Image._add_count_to_name)."""
from pyvc.contract import contract

S = "smpl_extract.structural:"
# the statement's grammar of a safe component: word characters, space - . # ( ), first a word character, no trailing space or dot
W = "0-9A-Za-z_"
SAFE_BODY = f"[{W} \\-.#()]*"


@contract(S + "Image.make_safe_name", assumed=True,
          note="pure string function (regex sub with a look-behind: not modelled); its result is not used by make_export_name")
def _msn(c):
    c.self_obj(("self", "smpl_extract.structural:Image", {}))
    c.param("name", "str")
    c.param("is_file", "bool")
    c.returns("str")
    c.modifies()


@contract(S + "Image.make_export_name", props=["C06", "C10"], regex_decomposition=True)
def _men(c):
    c.self_obj(("self", "smpl_extract.structural:Image", {}))
    c.param("name", "str")
    c.param("is_file", "bool")
    c.requires("in_re(name, '[\\\\x00-\\\\x7f]*')", "ascii-name")
    c.returns("str")
    c.ensures(f"in_re(result, '[{W}]{SAFE_BODY}')", "only-safe-characters-and-begins-with-a-word-character")
    c.ensures("strlen(result) >= 1", "non-empty")
    c.ensures("not in_re(result, '.* ')", "does-not-end-in-a-space")
    c.ensures("implies(not is_file, not in_re(result, '.*[.\\\\-]'))", "directory-names-do-not-end-in-a-dot-or-hyphen")
    c.modifies()


@contract(S + "Image._add_count_to_name", props=["C06", "C10"], regex_decomposition=True)
def _act(c):
    c.self_obj(("self", "smpl_extract.structural:Image", {}))
    c.param("name", "str")
    c.param("count", "int")
    c.requires("count >= 0")
    # a name produced by make_export_name
    c.requires(f"in_re(name, '[{W}]{SAFE_BODY}') and not in_re(name, '.* ')", "name-is-a-safe-component")
    c.returns("str")
    c.ensures(f"in_re(result, '[{W}]{SAFE_BODY}')", "counted-name-is-a-safe-component")
    c.ensures("not in_re(result, '.* ')", "does-not-end-in-a-space")
    c.ensures("in_re(result, '.*\\\\([0-9]+\\\\).*')", "carries-the-counter")
    c.modifies()


@contract("lemma:safe_component_is_confined", props=["C06"], lemma_module="smpl_extract.structural", lemma_deps=[],
          lemma_src="def ident(s):\n    return s\n", regex_decomposition=True)
def _conf(c):
    # a component of the statement's safe grammar can neither climb out of nor split the destination path
    c.param("s", "str")
    c.requires(f"in_re(s, '[{W}]{SAFE_BODY}')")
    c.ensures("not in_re(result, '.*[/\\\\\\\\].*')", "contains-no-path-separator")
    c.ensures("result != '..' and result != '.' and strlen(result) > 0", "is-not-a-dot-component")
    c.ensures("not in_re(result, '[^0-9A-Za-z_].*')", "begins-with-a-word-character")
